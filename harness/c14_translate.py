"""Fail-closed translator for C14: regenerates from the CURRENT source of caching{1,2,3}d.pyx

  * the constant EPSILON of each file,
  * how x2_view / x3_view (y.., z..) are built from the normalised coordinates,
  * every entry of the constraint matrix rows (cm_view[l, k] = ...) of Caching1D and Caching2D, the component
    tables and the row flags (_constraints3d) of Caching3D,
  * every right-hand side cv_view[l] = ..., with the delta_x / delta_y / delta_z assignments in force at that
    statement substituted (so moving or changing an assignment changes the generated term),
  * the sampling loops range(i-1, i+3) and the knot loops range(i, i+2),

into coq/Gen/C14/C14_Src.v, and writes coq/Gen/C14/C14_SrcTie.v whose lemmas (checked by the kernel) state that
these are the rows / right-hand sides / constant of Model/C14_System.v and Model/C14_Caching.v.
Anything the translator does not recognise raises TranslateError (the tie then fails: fail closed).
"""
import ast
import os
import re
from fractions import Fraction


class TranslateError(Exception):
    pass


def qlit(x):
    fr = Fraction(*float(x).as_integer_ratio())
    n = "(%d)" % fr.numerator if fr.numerator < 0 else "%d" % fr.numerator
    return "(Qmake %s %d)" % (n, fr.denominator)


VIEWS = {"x_view": "xv", "x2_view": "x2v", "x3_view": "x3v", "y_view": "yv", "y2_view": "y2v", "y3_view": "y3v",
         "z_view": "zv", "z2_view": "z2v", "z3_view": "z3v"}
LOOPVARS = ("u", "v", "w")


def zexpr(node):
    """index expression: u, u+1, u-1"""
    if isinstance(node, ast.Name) and node.id in LOOPVARS:
        return node.id
    if isinstance(node, ast.BinOp) and isinstance(node.op, (ast.Add, ast.Sub)) and isinstance(node.left, ast.Name) \
            and node.left.id in LOOPVARS and isinstance(node.right, ast.Constant) and isinstance(node.right.value, int):
        return "(%s %s %d)%%Z" % (node.left.id, "+" if isinstance(node.op, ast.Add) else "-", node.right.value)
    raise TranslateError("index expression not understood: %s" % ast.dump(node))


def qexpr(node, env):
    """real expression -> Coq term over xv.., D, with the delta_* names replaced by their current definitions"""
    if isinstance(node, ast.Constant) and isinstance(node.value, (int, float)) and not isinstance(node.value, bool):
        return qlit(node.value)
    if isinstance(node, ast.Name):
        if node.id in env:
            return env[node.id]
        raise TranslateError("name %r used before any assignment the translator saw" % node.id)
    if isinstance(node, ast.BinOp) and isinstance(node.op, (ast.Add, ast.Sub, ast.Mult, ast.Div)):
        op = {ast.Add: "+", ast.Sub: "-", ast.Mult: "*", ast.Div: "/"}[type(node.op)]
        return "(%s %s %s)" % (qexpr(node.left, env), op, qexpr(node.right, env))
    if isinstance(node, ast.Subscript) and isinstance(node.value, ast.Attribute) and isinstance(node.value.value, ast.Name) \
            and node.value.value.id == "self":
        name = node.value.attr
        idx = node.slice
        idxs = list(idx.elts) if isinstance(idx, ast.Tuple) else [idx]
        if name in VIEWS and len(idxs) == 1:
            return "(%s %s)" % (VIEWS[name], zexpr(idxs[0]))
        if name == "data_view":
            return "(D %s)" % " ".join(zexpr(i) for i in idxs)
    raise TranslateError("expression not understood: %s" % ast.dump(node))


def parse_stmt(text):
    try:
        mod = ast.parse(text.strip())
    except SyntaxError as e:
        raise TranslateError("statement not parsable: %r (%s)" % (text, e))
    if len(mod.body) != 1:
        raise TranslateError("one statement expected: %r" % text)
    return mod.body[0]


def region(lines, start_pat, end_pat):
    s = [i for i, ln in enumerate(lines) if start_pat in ln]
    if len(s) != 1:
        raise TranslateError("expected exactly one line containing %r" % start_pat)
    e = [i for i, ln in enumerate(lines) if end_pat in ln and i > s[0]]
    if not e:
        raise TranslateError("end marker %r not found" % end_pat)
    return lines[s[0] + 1:e[0]]


def translate_fill(path, dim):
    """the 'Fill the constraints matrix' loop nest -> list of blocks {cm: {k: term} | flags, cv: term}"""
    lines = open(path).read().split("\n")
    body = region(lines, "# Fill the constraints matrix", "# Solve the linear system")
    stmts = [(len(ln) - len(ln.lstrip()), ln.strip()) for ln in body if ln.strip() and not ln.strip().startswith("#")]
    if not stmts or stmts[0][1] != "l = 0":
        raise TranslateError("%s: 'l = 0' expected first" % path)
    axes = "xyz"[:dim]
    for a in range(dim):
        want = "for %s in range(i_%s, i_%s+2):" % (LOOPVARS[a], axes[a], axes[a])
        if stmts[1 + a][1] != want:
            raise TranslateError("%s: loop header %r expected, found %r" % (path, want, stmts[1 + a][1]))
    inner_indent = stmts[1 + dim][0]
    env, blocks, cm, flags, cv = {}, [], {}, None, None
    for indent, text in stmts[1 + dim:]:
        if indent != inner_indent:
            raise TranslateError("%s: statement outside the innermost knot loop: %r" % (path, text))
        if text == "l += 1":
            if cv is None:
                raise TranslateError("%s: block without cv_view[l]" % path)
            blocks.append({"cm": cm, "flags": flags, "cv": cv})
            cm, flags, cv = {}, None, None
            continue
        st = parse_stmt(text)
        if not (isinstance(st, ast.Assign) and len(st.targets) == 1):
            raise TranslateError("%s: assignment expected: %r" % (path, text))
        tgt = st.targets[0]
        if isinstance(tgt, ast.Name) and tgt.id in ("delta_x", "delta_y", "delta_z"):
            env[tgt.id] = qexpr(st.value, env)
        elif isinstance(tgt, ast.Subscript) and isinstance(tgt.value, ast.Name) and tgt.value.id == "cv_view":
            if not (isinstance(tgt.slice, ast.Name) and tgt.slice.id == "l"):
                raise TranslateError("%s: cv_view index: %r" % (path, text))
            cv = qexpr(st.value, env)
        elif isinstance(tgt, ast.Subscript) and isinstance(tgt.value, ast.Name) and tgt.value.id == "cm_view":
            sl = tgt.slice
            if not (isinstance(sl, ast.Tuple) and len(sl.elts) == 2 and isinstance(sl.elts[0], ast.Name) and sl.elts[0].id == "l"):
                raise TranslateError("%s: cm_view index: %r" % (path, text))
            k = sl.elts[1]
            if isinstance(k, ast.Constant) and isinstance(k.value, int):
                if k.value in cm:
                    raise TranslateError("%s: cm_view[l, %d] assigned twice in one row" % (path, k.value))
                cm[k.value] = qexpr(st.value, env)
            elif isinstance(k, ast.Slice) and k.lower is None and k.upper is None and dim == 3:
                c = st.value
                ok = isinstance(c, ast.Call) and isinstance(c.func, ast.Attribute) and c.func.attr == "_constraints3d" \
                    and len(c.args) == 6 and [getattr(a, "id", None) for a in c.args[:3]] == ["u", "v", "w"] \
                    and all(isinstance(a, ast.Constant) and isinstance(a.value, bool) for a in c.args[3:])
                if not ok:
                    raise TranslateError("%s: row assignment not understood: %r" % (path, text))
                flags = [a.value for a in c.args[3:]]
            else:
                raise TranslateError("%s: cm_view column: %r" % (path, text))
        else:
            raise TranslateError("%s: statement not understood: %r" % (path, text))
    if cm or cv is not None:
        raise TranslateError("%s: trailing statements after the last 'l += 1'" % path)
    return blocks


def translate_components3d(path):
    """_constraints3d: the two component tables per axis and the result loop"""
    lines = open(path).read().split("\n")
    body = region(lines, "cdef double[::1] _constraints3d", "return result_view")
    text = "\n".join(body)
    out = {}
    for ax in "xyz":
        m = re.search(r"if %s_der:\n((?:\s+%s_components\[\d\] = .*\n){4})\s+else:\n((?:\s+%s_components\[\d\] = .*\n){4})" % (ax, ax, ax), text)
        if not m:
            raise TranslateError("_constraints3d: branches of %s_der not found" % ax)
        tabs = []
        for grp, loopvar in ((m.group(1), None), (m.group(2), None)):
            vals = {}
            for ln in grp.strip().split("\n"):
                st = parse_stmt(ln)
                k = st.targets[0].slice.value
                vals[k] = qexpr(st.value, {})
            if sorted(vals) != [0, 1, 2, 3]:
                raise TranslateError("_constraints3d: component indices")
            tabs.append([vals[k] for k in range(4)])
        out[ax] = tabs
    loop = re.search(r"for x_component in x_components:\s*\n\s*for y_component in y_components:\s*\n\s*for z_component in z_components:\s*\n"
                     r"\s*result_view\[l\] = x_component \* y_component \* z_component\s*\n\s*l \+= 1", text)
    if not loop:
        raise TranslateError("_constraints3d: result loop not in the expected form")
    return out


def check_init(path, dim):
    src = open(path).read()
    m = re.findall(r"^EPSILON\s*=\s*([0-9.eE+-]+)\s*$", src, re.M)
    if len(m) != 1:
        raise TranslateError("%s: EPSILON literal" % path)
    for ax in "xyz"[:dim]:
        for want in ("self.%s_view = self.%s_np" % (ax, ax), "self.%s2_view = self.%s_np*self.%s_np" % (ax, ax, ax),
                     "self.%s3_view = self.%s_np*self.%s_np*self.%s_np" % (ax, ax, ax, ax),
                     "self.%s_np = (self.%s_np - self.%s_min) * self.%s_delta_inv" % (ax, ax, ax, ax)):
            if len(re.findall(r"^\s*" + re.escape(want) + r"\s*$", src, re.M)) != 1:
                raise TranslateError("%s: expected exactly one line %r" % (path, want))
        # sampling loop over the 4^d neighbourhood
    # normalisation of freshly sampled data, NaN sentinel tests, de-normalisation offset: exact statements
    idx = ", ".join("uvw"[:dim])
    for want in ("self.data_view[%s] = (value - self.data_min) * self.data_delta_inv" % idx,
                 "if isnan(self.data_view[%s]):" % idx, "if not isnan(value):",
                 "coeffs_view[0] = coeffs_view[0] + self.data_min", "self.data_delta_inv = 1 / self.data_delta",
                 "if self.data_delta == 0:", "self.data_delta = self.data_max - self.data_min"):
        if len(re.findall(r"^\s*" + re.escape(want) + r"\s*$", src, re.M)) != 1:
            raise TranslateError("%s: expected exactly one line %r" % (path, want))
    names = "uvw"
    for a, ax in enumerate("xyz"[:dim]):
        if len(re.findall(r"for %s in range\(i_%s-1, i_%s\+3\):" % (names[a], ax, ax), src)) != 1:
            raise TranslateError("%s: sampling loop of axis %s" % (path, ax))
    return float(m[0])


def qlist(items):
    return "[" + "; ".join(items) + "]"


def generate(repo, gen_dir):
    base = os.path.join(repo, "cherab", "core", "math", "caching")
    p1, p2, p3 = (os.path.join(base, "caching%dd.pyx" % d) for d in (1, 2, 3))
    eps = [check_init(p, d) for p, d in ((p1, 1), (p2, 2), (p3, 3))]
    b1 = translate_fill(p1, 1)
    b2 = translate_fill(p2, 2)
    b3 = translate_fill(p3, 3)
    c3 = translate_components3d(p3)
    if [len(b1), len(b2), len(b3)] != [2, 4, 8]:
        raise TranslateError("number of rows per knot: %s" % [len(b1), len(b2), len(b3)])
    if any(b["flags"] is None for b in b3) or any(b["cm"] for b in b3):
        raise TranslateError("3-D rows must come from _constraints3d")

    def rows(blocks, n):
        return qlist(qlist([b["cm"].get(k, "0") for k in range(n)]) for b in blocks)
    src = ["(* GENERATED by harness/c14_translate.py from the current source of caching{1,2,3}d.pyx -- do not edit *)",
           "Require Import Cherab.Common.Qx.", "Open Scope Q_scope.",
           "Definition EPSILON_src : list Q := %s." % qlist(qlit(e) for e in eps),
           "Definition cm1d_src (xv x2v x3v : Z -> Q) (u : Z) : list (list Q) := %s." % rows(b1, 4),
           "Definition cv1d_src (xv : Z -> Q) (D : Z -> Q) (u : Z) : list Q := %s." % qlist(b["cv"] for b in b1),
           "Definition cm2d_src (xv x2v x3v yv y2v y3v : Z -> Q) (u v : Z) : list (list Q) := %s." % rows(b2, 16),
           "Definition cv2d_src (xv yv : Z -> Q) (D : Z -> Z -> Q) (u v : Z) : list Q := %s." % qlist(b["cv"] for b in b2),
           "Definition flags3d_src : list (bool * bool * bool) := %s." % qlist(
               "(%s, %s, %s)" % tuple("true" if f else "false" for f in b["flags"]) for b in b3),
           "Definition cv3d_src (xv yv zv : Z -> Q) (D : Z -> Z -> Z -> Q) (u v w : Z) : list Q := %s." % qlist(b["cv"] for b in b3)]
    for ax in "xyz":
        src.append("Definition comps3d_%s_src (der : bool) (%sv %s2v %s3v : Z -> Q) (%s : Z) : list Q := if der then %s else %s."
                   % (ax, ax, ax, ax, {"x": "u", "y": "v", "z": "w"}[ax], qlist(c3[ax][0]), qlist(c3[ax][1])))
    tie = r"""(* GENERATED by harness/c14_translate.py: kernel-checked tie between the rows / right-hand sides / constants read
   from the current source (C14_Src.v) and the model (Model/C14_Caching.v, Model/C14_System.v) *)
Require Import Cherab.Common.Qx.
Require Import Cherab.Model.C14_Caching Cherab.Model.C14_System.
Require Import Cherab.Gen.C14.C14_Src.
Open Scope Q_scope.

Lemma EPSILON_tie : Forall (fun e => e == EPSILON) EPSILON_src /\ length EPSILON_src = 3%nat.
Proof. split; [repeat constructor; reflexivity | reflexivity]. Qed.

Definition sq (f : Z -> Q) : Z -> Q := fun k => f k * f k.
Definition cu (f : Z -> Q) : Z -> Q := fun k => f k * f k * f k.
Definition nd4 (f : Z -> Q) : Q * Q * Q * Q := (f 0%Z, f 1%Z, f 2%Z, f 3%Z).
Definition lk (k : bool) : Z := if k then 2%Z else 1%Z.      (* local index of the knot *)
Ltac rows := intros; repeat constructor; cbv beta iota zeta delta [sq cu]; ring.

(* constraint rows: the entries written out in caching1d / caching2d are the tensor rows of the model *)
Lemma cm1d_tie : forall xv u, Forall2 (Forall2 Qeq) (cm1d_src xv (sq xv) (cu xv) u) [comps false (xv u); comps true (xv u)].
Proof. rows. Qed.
Lemma cm2d_tie : forall xv yv u v, Forall2 (Forall2 Qeq) (cm2d_src xv (sq xv) (cu xv) yv (sq yv) (cu yv) u v)
  [row2 false false (xv u) (yv v); row2 true false (xv u) (yv v); row2 false true (xv u) (yv v); row2 true true (xv u) (yv v)].
Proof. rows. Qed.
Lemma comps3d_tie : forall der f k, Forall2 Qeq (comps3d_x_src der f (sq f) (cu f) k) (comps der (f k)) /\
  Forall2 Qeq (comps3d_y_src der f (sq f) (cu f) k) (comps der (f k)) /\ Forall2 Qeq (comps3d_z_src der f (sq f) (cu f) k) (comps der (f k)).
Proof. intros der f k. destruct der; repeat split; repeat constructor; cbv beta iota zeta delta [sq cu]; ring. Qed.
Lemma flags3d_tie : flags3d_src = [(false, false, false); (true, false, false); (false, true, false); (false, false, true);
                                   (true, true, false); (true, false, true); (false, true, true); (true, true, true)].
Proof. reflexivity. Qed.

(* right-hand sides, at both knots of every axis, with the delta_* in force at each statement *)
Definition dist (f : Z -> Q) : Prop := ~ f 2%Z - f 0%Z == 0 /\ ~ f 3%Z - f 1%Z == 0.
Ltac rhs := cbv beta iota zeta delta [cv1d_src cv2d_src cv3d_src cv2 cv3 fdv nd4 lk]; repeat constructor;
            cbn [Z.add Z.sub Z.opp Z.pos_sub Pos.add Pos.succ Pos.pred_double Pos.pred]; field; auto.
Lemma cv1d_tie : forall xv D kx, dist xv ->
  Forall2 Qeq (cv1d_src xv D (lk kx)) [fdv false kx (nd4 xv) D; fdv true kx (nd4 xv) D].
Proof. intros xv D kx [? ?]. destruct kx; rhs. Qed.
Lemma cv2d_tie : forall xv yv D kx ky, dist xv -> dist yv ->
  Forall2 Qeq (cv2d_src xv yv D (lk kx) (lk ky))
    [cv2 false false kx ky (nd4 xv) (nd4 yv) D; cv2 true false kx ky (nd4 xv) (nd4 yv) D;
     cv2 false true kx ky (nd4 xv) (nd4 yv) D; cv2 true true kx ky (nd4 xv) (nd4 yv) D].
Proof. intros xv yv D kx ky [? ?] [? ?]. destruct kx, ky; rhs. Qed.
Lemma cv3d_tie : forall xv yv zv D kx ky kz, dist xv -> dist yv -> dist zv ->
  Forall2 Qeq (cv3d_src xv yv zv D (lk kx) (lk ky) (lk kz))
    (map (fun fl => let '(bx, by_, bz) := fl in cv3 bx by_ bz kx ky kz (nd4 xv) (nd4 yv) (nd4 zv) D) flags3d_src).
Proof. intros xv yv zv D kx ky kz [? ?] [? ?] [? ?]. destruct kx, ky, kz; cbn [map flags3d_src]; rhs. Qed.
"""
    os.makedirs(gen_dir, exist_ok=True)
    open(os.path.join(gen_dir, "C14_Src.v"), "w").write("\n".join(src) + "\n")
    open(os.path.join(gen_dir, "C14_SrcTie.v"), "w").write(tie)
    return {"EPSILON": eps, "rows_1d": len(b1), "rows_2d": len(b2), "rows_3d": len(b3),
            "entries_2d": sum(len(b["cm"]) for b in b2)}
