"""C12 helpers: equilibria (bundled + synthetic Solov'ev-type), point sampling, profile sets and the
executable statement of property C12 evaluated on the real implementation (failing-input search).

Nothing here uses the Coq model; the reference computations (point in polygon, cubic 1-D profile
interpolation through raysect's own Interpolator1DArray, rotation by atan2) are independent of
cherab/tools/equilibrium/efit.pyx and cherab/core/math/{mappers,mask,clamp}.pyx."""
import math

import numpy as np


# ---------------------------------------------------------------------------------------------
# equilibria
# ---------------------------------------------------------------------------------------------
def solovev_params(rng, sign, idx):
    """Random Solov'ev-type flux map psi = psi_axis + sign*psi0*u(R, Z),
    u = ((R^2-R0^2)/(2 a R0))^2 + (Z R/(kappa a R0))^2, LCFS at u = 1."""
    from common import dyadic
    R0 = dyadic(rng, 1.5, 3.0, 4)
    p = {
        "sign": sign,
        # aspect ratio R0/a > 2.2 keeps R0^2 - 2 a R0 > 0 (the LCFS contour closed) and the grid at r > 0
        "R0": R0, "a": dyadic(rng, 0.4, min(0.9, 0.45 * R0), 4), "kappa": dyadic(rng, 1.0, 1.8, 3),
        "psi0": dyadic(rng, 0.25, 2.0, 4), "psi_axis_true": dyadic(rng, -1.0, 1.0, 4),
        # grid sizes from the smallest np.gradient(edge_order=2) accepts (3) upwards
        "nr": rng.choice([3, 4, 5]) if rng.random() < 0.15 else rng.randint(6, 40),
        "nz": rng.choice([3, 4, 5]) if rng.random() < 0.15 else rng.randint(6, 40),
        # flat core: psi constant for u < u0 (the in-plane field vanishes exactly there)
        "u0": rng.choice([0.0, 0.0, 0.12]),
        # psi_axis handed to the constructor is off by axis_shift*psi0 towards the LCFS value:
        # the interpolated normalised flux is negative near the axis and the clamp at 0 acts
        "axis_shift": rng.choice([0.0, 0.04, -0.03]),
        # polygon from a triangle upwards, either orientation, any starting vertex
        "poly_scale": rng.choice([1.0, 0.9, 1.07]), "poly_n": rng.choice([3, 4, 5]) if rng.random() < 0.15 else rng.randint(6, 72),
        "poly_reversed": rng.random() < 0.5, "poly_start": rng.randint(0, 71),
        # psi, psi_axis, psi_lcfs times 2^k (psi_n, the basis and the LCFS are invariant; the field scales);
        # all lengths times 2^m; profile values are scaled per profile set
        "psi_scale_exp": 0 if rng.random() < 0.4 else rng.randint(-100, 100),
        "length_scale_exp": 0 if rng.random() < 0.6 else rng.randint(-3, 3),
        # the form in which each array argument is handed to the constructor
        "forms": {k: rng.choice(FORMS) for k in ("r", "z", "psi", "lcfs_polygon", "f_profile", "q_profile")},
        "scalar_form": rng.choice(["float", "numpy.float64", "float"]),
        "nonuniform": rng.random() < 0.25,
        # psi held at the LCFS value wherever u >= 1: psi_n is exactly 1.0 there (boundary of psi_n <= 1)
        "plateau": rng.random() < 0.3,
        # z axis symmetric about 0 with a node at z = 0: d psi/dz is exactly 0 on the mid-plane
        "z_symmetric": rng.random() < 0.4,
        "bvac_r": dyadic(rng, 1.0, 3.0, 3), "bvac_m": rng.choice([-1, 1]) * dyadic(rng, 0.5, 3.0, 3),
        "nf": rng.randint(2, 12), "f0": dyadic(rng, 1.0, 4.0, 3), "f1": dyadic(rng, -1.0, 1.0, 3),
        "idx": idx,
    }
    return p


FORMS = ("ndarray", "list", "tuple", "fortran", "noncontiguous", "readonly", "float32")


def as_form(arr, form):
    """The float64 array `arr` in another form the API accepts (same numbers)."""
    arr = np.array(arr, dtype=np.float64)
    if form == "list":
        return arr.tolist()
    if form == "tuple":
        return tuple(tuple(row) for row in arr.tolist()) if arr.ndim == 2 else tuple(arr.tolist())
    if form == "fortran":
        return np.asfortranarray(arr.copy())
    if form == "noncontiguous":
        big = np.zeros(arr.shape[:-1] + (2 * arr.shape[-1],))
        big[..., ::2] = arr
        return big[..., ::2]
    if form == "readonly":
        c = arr.copy()
        c.setflags(write=False)
        return c
    if form == "float32" and np.array_equal(arr.astype(np.float32).astype(np.float64), arr):
        return arr.astype(np.float32)
    return arr.copy()


def scribble(obj):
    """Overwrite a caller-owned array after it was handed over (the callee must have taken a copy)."""
    if isinstance(obj, np.ndarray) and obj.flags.writeable:
        obj[...] = (obj * -3 + 17).astype(obj.dtype)


def solovev_u(p, R, Z):
    R0, a, k = p["R0"], p["a"], p["kappa"]
    return ((R * R - R0 * R0) / (2 * a * R0)) ** 2 + (Z * R / (k * a * R0)) ** 2


def build_solovev(p, scribble_inputs=False):
    """scribble_inputs: overwrite the caller's arrays after construction (aliasing check)."""
    from raysect.core import Point2D
    from cherab.tools.equilibrium import EFITEquilibrium
    L = 2.0 ** p.get("length_scale_exp", 0)
    S = 2.0 ** p.get("psi_scale_exp", 0)
    p = dict(p, R0=p["R0"] * L, a=p["a"] * L, bvac_r=p["bvac_r"] * L)
    R0, a, k, sign = p["R0"], p["a"], p["kappa"], p["sign"]
    r = np.linspace(R0 - 1.35 * a, R0 + 1.3 * a, p["nr"])
    z = np.linspace(-1.4 * k * a, 1.45 * k * a, p["nz"])
    if p.get("z_symmetric"):
        nz = p["nz"] | 1
        z = np.linspace(-1.4 * k * a, 1.4 * k * a, nz)
        z[nz // 2] = 0.0
    if p["nonuniform"]:
        r = r + 0.2 * (r[1] - r[0]) * np.sin(np.arange(p["nr"]) * 1.7)
        r[0], r[-1] = R0 - 1.35 * a, R0 + 1.3 * a
    R, Z = np.meshgrid(r, z, indexing="ij")
    u = solovev_u(p, R, Z)
    u0 = p["u0"]
    w = np.maximum(u - u0, 0.0) / (1.0 - u0)
    if p.get("plateau"):
        w = np.minimum(w, 1.0)
    psi = (p["psi_axis_true"] + sign * p["psi0"] * w) * S
    psi_axis = (p["psi_axis_true"] + sign * p["axis_shift"] * p["psi0"]) * S
    psi_lcfs = (p["psi_axis_true"] + sign * p["psi0"]) * S
    t = np.linspace(0, 2 * np.pi, p["poly_n"], endpoint=False)
    Rp = np.sqrt(R0 * R0 + 2 * a * R0 * np.cos(t))
    Zp = k * a * R0 * np.sin(t) / Rp
    sc = 1.4 if p.get("plateau") else p["poly_scale"]     # plateau: wide band inside the polygon where psi_n == 1.0 exactly
    poly = np.array([R0 + sc * (Rp - R0), sc * Zp])
    if p.get("poly_reversed"):
        poly = poly[:, ::-1]
    poly = np.ascontiguousarray(np.roll(poly, p.get("poly_start", 0) % p["poly_n"], axis=1))
    psin = np.linspace(0, 1, p["nf"])
    fprof = np.array([psin, p["f0"] + p["f1"] * psin ** 2])
    qprof = np.array([psin, 1 + 2 * psin ** 2])
    canon = {"r": r, "z": z, "psi": psi, "lcfs_polygon": poly, "f_profile": fprof, "q_profile": qprof}
    forms = p.get("forms", {})
    given = {k_: as_form(v, forms.get(k_, "ndarray")) for k_, v in canon.items()}
    canon = {k_: np.array(given[k_], dtype=np.float64) for k_ in canon}      # float32 forms: the numbers as given
    wrap = np.float64 if p.get("scalar_form") == "numpy.float64" else float
    eq = EFITEquilibrium(given["r"], given["z"], given["psi"], wrap(psi_axis), wrap(psi_lcfs), Point2D(R0, 0.0), [], [],
                         given["f_profile"], given["q_profile"], wrap(p["bvac_r"]), wrap(p["bvac_m"]), given["lcfs_polygon"], None, 0.0)
    if scribble_inputs:
        for v in given.values():
            scribble(v)
    return eq, dict(canon, b_vacuum_radius=p["bvac_r"], b_vacuum_magnitude=p["bvac_m"], psi_axis=psi_axis, psi_lcfs=psi_lcfs,
                    magnetic_axis=(R0, 0.0), limiter_polygon=None)


def bundled(name):
    """The two equilibria shipped with the package, built by the package's own loaders, plus the
    constructor inputs read independently from the JSON files."""
    import json
    import os
    from common import REPO
    if name == "example":
        from cherab.tools.equilibrium import example_equilibrium
        eq = example_equilibrium()
        d = json.load(open(os.path.join(REPO, "cherab/tools/equilibrium/example.json")))
    else:
        from cherab.generomak.equilibrium import load_equilibrium
        eq = load_equilibrium()
        d = json.load(open(os.path.join(REPO, "cherab/generomak/equilibrium/data/generomak_equilibrium.json")))
    ax = d.get("axis_coord", d.get("magnetic_axis"))
    return eq, {"r": np.array(d["r"], dtype=float), "z": np.array(d["z"], dtype=float),
                "psi": np.array(d.get("psi", d.get("psi_grid")), dtype=float),
                "lcfs_polygon": np.array(d["lcfs_polygon"], dtype=float), "f_profile": np.array(d["f_profile"], dtype=float),
                "q_profile": np.array(d["q_profile"], dtype=float), "limiter_polygon": np.array(d["limiter_polygon"], dtype=float),
                "b_vacuum_radius": float(d["b_vacuum_radius"]), "b_vacuum_magnitude": float(d["b_vacuum_magnitude"]),
                "psi_axis": float(d["psi_axis"]), "psi_lcfs": float(d["psi_lcfs"]), "magnetic_axis": (float(ax[0]), float(ax[1]))}


class Eq:
    """An equilibrium of the implementation plus what the harness needs to know about it."""

    def __init__(self, name, eq, inputs, params=None):
        from cherab.core.math import PolygonMask2D
        from raysect.core.math.function.float import Interpolator1DArray
        self.name, self.eq, self.params, self.inputs = name, eq, params, inputs
        # grid data: the constructor INPUTS (the stored copies are compared with them in attribute_failures)
        self.r = np.array(inputs["r"], dtype=float)
        self.z = np.array(inputs["z"], dtype=float)
        self.psi_grid = np.array(inputs["psi"], dtype=float)
        self.poly = np.ascontiguousarray(np.array(inputs["lcfs_polygon"], dtype=float).T)        # N x 2
        # the two functions the model takes as given, built from the constructor INPUTS
        self.poly_mask = PolygonMask2D(self.poly)
        fp = np.array(inputs["f_profile"], dtype=float)
        self.f_ref = Interpolator1DArray(fp[0, :], fp[1, :], "cubic", "none", 0)
        self.f_range = (float(fp[0, 0]), float(fp[0, -1]))
        qp = np.array(inputs["q_profile"], dtype=float)
        self.q_ref = Interpolator1DArray(qp[0, :], qp[1, :], "cubic", "none", 0)
        self.axis = tuple(inputs["magnetic_axis"])
        self.psi_axis, self.psi_lcfs = float(inputs["psi_axis"]), float(inputs["psi_lcfs"])
        # the implementation's own derivative interpolators (same code path as in __init__), on the inputs
        self.dpsidr, self.dpsidz = eq._calculate_differentials(self.r, self.z, self.psi_grid)
        self.bvac_r, self.bvac_m = float(inputs["b_vacuum_radius"]), float(inputs["b_vacuum_magnitude"])

    def describe(self):
        d = {"name": self.name, "nr": len(self.r), "nz": len(self.z), "psi_axis": self.psi_axis,
             "psi_lcfs": self.psi_lcfs, "sign": 1 if self.psi_lcfs > self.psi_axis else -1,
             "polygon_vertices": int(self.poly.shape[0])}
        if self.params:
            d["params"] = self.params
        return d


# ---------------------------------------------------------------------------------------------
# reference point-in-polygon (even-odd rule) with the distance to the nearest edge
# ---------------------------------------------------------------------------------------------
def point_in_polygon(poly, x, y):
    n = len(poly)
    inside = False
    dmin = float("inf")
    for i in range(n):
        x1, y1 = poly[i]
        x2, y2 = poly[(i + 1) % n]
        if (y1 > y) != (y2 > y):
            xc = x1 + (y - y1) * (x2 - x1) / (y2 - y1)
            if x < xc:
                inside = not inside
        ex, ey = x2 - x1, y2 - y1
        L2 = ex * ex + ey * ey
        tt = 0.0 if L2 == 0 else max(0.0, min(1.0, ((x - x1) * ex + (y - y1) * ey) / L2))
        d = math.hypot(x - (x1 + tt * ex), y - (y1 + tt * ey))
        dmin = min(dmin, d)
    return inside, dmin


# ---------------------------------------------------------------------------------------------
# points
# ---------------------------------------------------------------------------------------------
def _in_box(E, r, z, margin=1e-9):
    return E.r[0] + margin < r < E.r[-1] - margin and E.z[0] + margin < z < E.z[-1] - margin


def lcfs_crossing(E, rng):
    """A point with psi_n = 1 on a random ray from the magnetic axis (bisection on the implementation's
    psi_normalised), or None."""
    th = rng.uniform(-math.pi, math.pi)
    ax, az = E.axis
    tmax = 0.0
    step = 0.01 * (E.r[-1] - E.r[0])
    t = step
    prev = None
    while True:
        r, z = ax + t * math.cos(th), az + t * math.sin(th)
        if not _in_box(E, r, z):
            return None
        v = E.eq.psi_normalised(r, z)
        if v > 1.0 and prev is not None and prev <= 1.0:
            lo, hi = t - step, t
            for _ in range(70):
                mid = 0.5 * (lo + hi)
                if mid == lo or mid == hi:
                    break
                if E.eq.psi_normalised(ax + mid * math.cos(th), az + mid * math.sin(th)) > 1.0:
                    hi = mid
                else:
                    lo = mid
            return th, hi
        prev = v
        t += step


def sample_points(E, rng, n, dyadic_fraction=0.4):
    """n points (x, y, z, cls) of the 3-D domain whose (sqrt(x^2+y^2), z) lies in the (r, z) grid domain."""
    pts = []
    ax, az = E.axis
    guard = 0
    while len(pts) < n and guard < 50 * n:
        guard += 1
        u = rng.random()
        cls = "uniform"
        if u < 0.40:
            r, z = rng.uniform(E.r[0], E.r[-1]), rng.uniform(E.z[0], E.z[-1])
        elif u < 0.65:
            try:
                c = lcfs_crossing(E, rng)
            except ValueError:
                c = None
            if c is None:
                continue
            th, t = c
            d = rng.choice([3e-2, 1e-3, 1e-5, 1e-7, 0.0, 0.0])
            if d == 0.0:
                # the two adjacent floats between which psi_n crosses 1 (one ulp either side of the bound)
                t = rng.choice([t, math.nextafter(t, 0.0), math.nextafter(t, math.inf)])
                cls = "at_lcfs_ulp"
            else:
                t = t * (1 + rng.choice([-1, 1]) * d)
                cls = "near_lcfs"
            r, z = ax + t * math.cos(th), az + t * math.sin(th)
        elif u < 0.80:
            rad = 0.25 * (E.r[-1] - E.r[0]) * rng.random() ** 2
            th = rng.uniform(-math.pi, math.pi)
            r, z = ax + rad * math.cos(th), az + rad * math.sin(th)
            cls = "near_axis"
        elif u < 0.88:
            i, j = rng.randrange(len(E.r)), rng.randrange(len(E.z))
            r, z = float(E.r[i]), float(E.z[j])
            cls = "grid_node"
        elif u < 0.96 and E.params and E.params.get("z_symmetric"):
            r, z = rng.uniform(E.r[0], E.r[-1]), 0.0
            cls = "midplane"
        else:
            # close to a polygon vertex / edge
            k = rng.randrange(len(E.poly))
            vx, vz_ = E.poly[k]
            wx, wz = E.poly[(k + 1) % len(E.poly)]
            s = rng.random()
            off = rng.choice([-1, 1]) * rng.choice([1e-2, 1e-4, 0.0])
            if off == 0.0:
                s = rng.choice([0.0, s])          # exactly a vertex / (up to rounding) on an edge
            r, z = vx + s * (wx - vx) + off * (wz - vz_), vz_ + s * (wz - vz_) - off * (wx - vx)
            cls = "near_polygon" if off != 0.0 else "on_polygon"
        if cls == "grid_node":
            phi = rng.choice([0.0, math.pi])
            x, y = (r, 0.0) if phi == 0.0 else (-r, 0.0)
        else:
            phi = rng.choice([rng.uniform(-math.pi, math.pi)] * 3 + [0.0, math.pi / 2, -math.pi / 2, math.pi, math.pi / 4])
            x, y = r * math.cos(phi), r * math.sin(phi)
            if phi == math.pi / 2 or phi == -math.pi / 2:
                x = 0.0
            if phi == math.pi:
                y = 0.0
            if rng.random() < dyadic_fraction:
                sc = float(1 << 20)
                x, y, z = round(x * sc) / sc, round(y * sc) / sc, round(z * sc) / sc
        if cls == "midplane":
            z = rng.choice([0.0, -0.0])
        if y == 0.0 and rng.random() < 0.5:
            y = -0.0                               # atan2(-0.0, x < 0) = -pi
        if x == 0.0 and rng.random() < 0.5:
            x = -0.0
        rr = math.sqrt(x * x + y * y)
        if not _in_box(E, rr, z, margin=1e-7 if cls != "grid_node" else -1e-12):
            continue
        if cls == "grid_node" and not (E.r[0] <= rr <= E.r[-1]):
            continue
        pts.append((x, y, z, cls))
    return pts


# ---------------------------------------------------------------------------------------------
# profiles
# ---------------------------------------------------------------------------------------------
# 2xN array profiles: every N from the smallest the interpolator accepts (2; N = 1 is rejected, see
# rejected_profile_outcomes) upwards, in every container form, with integer entries, with knots exactly
# 0 and 1 and with knots beyond [0, 1].  (n, container, flavour); the first twelve are what the quick tier
# is guaranteed to run through, the rest is the full product.
_NS = (2, 3, 4, 6, 11)
_CONTAINERS = ("ndarray", "list", "tuple", "fortran", "noncontiguous", "readonly", "float32")
_FLAVOURS = ("unit", "beyond", "int")
ARRAY_VARIANTS = [(2, "ndarray", "unit"), (3, "list", "unit"), (4, "tuple", "unit"), (2, "list", "int"),
                  (2, "tuple", "beyond"), (3, "ndarray", "beyond"), (3, "tuple", "int"), (4, "ndarray", "int"),
                  (4, "list", "beyond"), (2, "ndarray", "int"), (6, "list", "unit"), (11, "ndarray", "beyond"),
                  (3, "fortran", "unit"), (4, "noncontiguous", "beyond"), (2, "readonly", "unit"), (6, "float32", "unit"),
                  (2, "fortran", "int"), (2, "noncontiguous", "unit"), (3, "readonly", "beyond"), (2, "float32", "beyond")]
ARRAY_VARIANTS += [(n, c, f) for f in _FLAVOURS for c in _CONTAINERS for n in _NS if (n, c, f) not in ARRAY_VARIANTS]


def array_profile(rng, variant, scale, zero_mode=None):
    """A valid 2xN profile (first row psi_n knots, strictly increasing and covering [0, 1]; second row
    values, not monotone) in the requested container / dtype, and its description."""
    from common import dyadic
    n, container, flavour = variant
    if flavour == "int":
        # integer knots covering [0, 1]: ..., -1, 0, 1, 2, ...
        lo = -((n - 2) // 2)
        xs = [lo + k for k in range(n)]
        ys = [rng.randint(-4, 4) for _ in xs]                    # integers: not scaled
        if len(set(ys)) == 1:
            ys[0] += 3
    else:
        if flavour == "unit":
            ends, inner = [0.0, 1.0], n - 2
        elif n == 2:
            ends, inner = [-0.25, 1.5], 0
        elif n == 3:
            ends, inner = [-0.25, rng.choice([0.0, 1.0]), 1.5], 0
        else:
            ends, inner = [-0.25, 0.0, 1.0, 1.5], n - 4
        mid = set()
        while len(mid) < inner:
            mid.add(dyadic(rng, 0.02, 0.98, 6))
        xs = sorted(set(ends) | mid)
        ys = [scale * dyadic(rng, -4, 4, 4) for _ in xs]
    if zero_mode == "zero":
        ys = [0 if flavour == "int" else rng.choice([0.0, 0.0, -0.0]) for _ in xs]
    elif zero_mode == "partial":
        # knot values of exactly 0 at both ends (psi_n = 0 and 1 are sampled: clamp, LCFS plateau) and, from six
        # knots on, a run of four zero knots, between whose middle pair the cubic interpolant is identically zero
        ys = [y if y != 0 else (1 if flavour == "int" else scale) for y in ys]
        for i_, x_ in enumerate(xs):
            if x_ in (0, 1) or (n >= 6 and i_ < 4):
                ys[i_] = 0 if flavour == "int" else 0.0
    canon = np.array([xs, ys], dtype=np.int64 if flavour == "int" else np.float64)

    def make():
        """a fresh object of the requested container form holding the same numbers"""
        if container == "ndarray":
            return canon.copy()
        if container in ("list", "tuple"):
            return [list(xs), list(ys)] if container == "list" else (tuple(xs), tuple(ys))
        a = as_form(canon, container)
        if flavour == "int" and container != "float32":
            a = a.astype(np.int64, order="K") if container != "noncontiguous" else np.stack([a, a], axis=-1).astype(np.int64)[..., 0]
            if container == "readonly":
                a.setflags(write=False)
        return a
    desc = {"kind": "2xN array", "N": n, "container": container, "flavour": flavour,
            "dtype": "int" if flavour == "int" else "float", "x": list(xs), "y": list(ys)}
    return make, desc


class Profile:
    """A 1-D profile in one of the forms the API accepts (Python function, Function1D object, 2xN
    array-like), with an independent evaluator: for an array the documented interpolant of the array AS
    GIVEN (first row psi_n, second row values; cubic, no extrapolation)."""

    def __init__(self, rng, scale=1.0, array_variant=None, zero_mode=None):
        """zero_mode: None (generic values), "zero" (identically zero, in one of the forms a user may write
        it), "partial" (exactly zero on part of the psi_n range / at sampled psi_n, non-zero elsewhere)."""
        from common import dyadic
        from raysect.core.math.function.float import Interpolator1DArray
        self.kind = "array" if array_variant is not None else rng.choice(["pyfunc", "function1d", "array", "array", "constant"])
        self.xmin, self.xmax = float("-inf"), float("inf")
        self.zero_mode = zero_mode
        if zero_mode == "zero" and self.kind != "array":
            from cherab.core.math import Constant1D
            form = rng.choice(["function returning int 0", "function returning 0.0", "function returning -0.0",
                               "function 0.0 * psi_n", "cherab Constant1D(0.0)", "cherab Constant1D(-0.0)", "Interpolator1DArray of zeros"])
            self.kind = "function1d" if "1D" in form else "pyfunc"
            self.desc = {"kind": "identically zero: " + form}
            self.arg = {"function returning int 0": (lambda p: 0), "function returning 0.0": (lambda p: 0.0),
                        "function returning -0.0": (lambda p: -0.0), "function 0.0 * psi_n": (lambda p: 0.0 * p),
                        "cherab Constant1D(0.0)": Constant1D(0.0), "cherab Constant1D(-0.0)": Constant1D(-0.0),
                        "Interpolator1DArray of zeros": Interpolator1DArray(np.array([-1.0, 0.0, 1.0, 50.0]), np.zeros(4), "cubic", "nearest", 1e6)}[form]
            self.ref = self.arg
        elif zero_mode == "partial" and self.kind != "array":
            a = scale * rng.choice([-1, 1]) * dyadic(rng, 0.5, 4, 4)
            c = rng.choice([0.25, 0.5, 0.75])
            low = rng.random() < 0.5
            self.kind = "pyfunc"
            self.desc = {"kind": "step function: exactly 0 for psi_n %s %g, %g elsewhere" % ("<" if low else ">=", c, a)}
            self.arg = (lambda p, a=a, c=c: 0.0 if p < c else a) if low else (lambda p, a=a, c=c: a if p < c else 0.0)
            self.ref = self.arg
        elif self.kind == "pyfunc":
            a, b, c = (scale * dyadic(rng, -4, 4, 4) for _ in range(3))
            self.desc = {"kind": "pyfunc", "a": a, "b": b, "c": c}
            self.arg = lambda p, a=a, b=b, c=c: a + b * p + c * p * p
            self.ref = self.arg
        elif self.kind == "constant":
            a = rng.choice([scale * dyadic(rng, -4, 4, 4), scale * dyadic(rng, -4, 4, 4), 0.0, -0.0])
            self.desc = {"kind": "constant python function", "a": a}
            self.arg = lambda p, a=a: a
            self.ref = self.arg
        elif self.kind == "function1d":
            n = rng.randint(2, 12)
            xs = sorted({0.0, 1.0} | {dyadic(rng, 0.02, 0.98, 6) for _ in range(n - 2)})
            ys = [scale * dyadic(rng, -4, 4, 4) for _ in xs]
            xs = xs + [1.5, 40.0]
            ys = ys + [ys[-1], ys[-1]]
            self.arg = Interpolator1DArray(np.array(xs), np.array(ys), "cubic", "nearest", 1e6)
            self.ref = self.arg
            self.desc = {"kind": "Function1D (raysect Interpolator1DArray, cubic)", "x": xs, "y": ys}
        else:
            if array_variant is None:
                array_variant = ARRAY_VARIANTS[rng.randrange(len(ARRAY_VARIANTS))]
            self.make_arg, self.desc = array_profile(rng, array_variant, scale, zero_mode)
            if zero_mode:
                self.desc["zero_mode"] = zero_mode
            self.arg = self.make_arg()
            given = np.array(self.arg, dtype=np.float64)
            assert given.shape == (2, array_variant[0]), given.shape
            self.ref = Interpolator1DArray(given[0, :].copy(), given[1, :].copy(), "cubic", "none", 0)
            self.xmin, self.xmax = float(given[0, 0]), float(given[0, -1])
        self.variant = array_variant

    def fresh_arg(self):
        """the argument to hand to the API: for arrays a fresh object each time (it is overwritten after the call)"""
        return self.make_arg() if self.kind == "array" else self.arg

    def value(self, p):
        """reference value of the profile at p; 0.0 where the profile is not defined (never used there)"""
        if p > self.xmax or p < self.xmin:
            return 0.0
        return float(self.ref(p))


VALID_PROBES = {
    "valid 2x2 (two knots)": [[0.0, 1.0], [5.0, 2.0]],
    "valid 2x2 int tuple": ((0, 1), (2, 5)),
    "valid 2x5 knots beyond [0, 1]": [[-0.5, 0.0, 0.25, 1.0, 2.0], [1.0, -2.0, 0.5, 3.0, 3.0]],
    "3x2: third row ignored, two knots": [[0.0, 1.0], [1.0, 2.0], [3.0, 4.0]],
    "python function": (lambda p: 1.0 + p),
}

INVALID_PROFILES = {
    "empty 2x0": [[], []],
    "2x1 (one knot)": [[0.5], [1.0]],
    "repeated knot": [[0.0, 0.0, 1.0], [1.0, 2.0, 3.0]],
    "decreasing knots": [[1.0, 0.0], [1.0, 2.0]],
    "1-D array": [0.0, 1.0, 2.0],
    "ragged rows": [[0.0, 0.5, 1.0], [1.0, 2.0]],
    "1xN (values row missing)": [[0.0, 0.5, 1.0]],
    "bare number instead of a function or array": 0.0,
}


def rejected_profile_outcomes(eq):
    """Arrays that are not a 2xN profile with N >= 2 strictly increasing knots.  The expected outcome of
    every profile-taking entry point is the rejection raised by the documented conversion (float64
    array, first row knots, second row values, cubic interpolant without extrapolation).
    Returns {form: (expected exception class name, {entry point: observed outcome})}."""
    from raysect.core.math.function.float import Interpolator1DArray
    ok = lambda p: 1.0
    res = {}
    for form, bad in list(INVALID_PROFILES.items()) + list(VALID_PROBES.items()):
        try:
            if not callable(bad):
                a = np.array(bad, np.float64)
                Interpolator1DArray(a[0, :], a[1, :], "cubic", "none", 0)
            expected = "accepted"
        except Exception as e:
            expected = type(e).__name__
        calls = {"map2d": lambda: eq.map2d(bad), "map3d": lambda: eq.map3d(bad, 1.0),
                 "map_vector2d(toroidal)": lambda: eq.map_vector2d(bad, ok, ok),
                 "map_vector2d(poloidal)": lambda: eq.map_vector2d(ok, bad, ok),
                 "map_vector2d(normal)": lambda: eq.map_vector2d(ok, ok, bad),
                 "map_vector3d(toroidal)": lambda: eq.map_vector3d(bad, ok, ok),
                 "map_vector3d(normal)": lambda: eq.map_vector3d(ok, ok, bad)}
        seen = {}
        for name, fn in calls.items():
            try:
                fn()
                seen[name] = "accepted"
            except Exception as e:
                seen[name] = type(e).__name__
        res[form] = (expected, seen)
    return res


class ProfileSet:
    """One scalar profile + outside value and three velocity profiles + outside vector.  `index` is the
    running number of the set in this run: even sets force the scalar profile (map2d / map3d) and sets
    with index % 3 == 1 force all three velocity profiles (map_vector2d / 3d) to the next array variants
    of ARRAY_VARIANTS, so that every tier walks through the shapes deterministically; the other profiles
    are drawn at random (functions, Function1D objects, arrays of a random variant)."""

    def __init__(self, rng, index=None):
        from common import dyadic
        from raysect.core import Vector3D
        nv = len(ARRAY_VARIANTS)
        sv = ARRAY_VARIANTS[(index // 2) % nv] if index is not None and index % 2 == 0 else None
        vv = [ARRAY_VARIANTS[(index + k) % nv] for k in range(3)] if index is not None and index % 3 == 1 else [None] * 3
        # profile values (and outside values) times 2^k: the mapping is linear in them
        self.scale_exp = 0 if rng.random() < 0.5 else rng.randint(-40, 40)
        self.scale = 2.0 ** self.scale_exp
        sc = self.scale
        self.scalar = Profile(rng, sc, sv)
        self.outside = rng.choice([0.0, -0.0, sc * dyadic(rng, -8, 8, 4), sc * dyadic(rng, -8, 8, 4), 3.0, 1.0])
        # the form of the outside value: omitted (default 0.0), Python float, int, bool, numpy scalar
        if self.outside == 0.0 and math.copysign(1.0, self.outside) > 0 and rng.random() < 0.5:
            self.outside_form = "omitted"
        elif self.outside == 3.0:
            self.outside_form = rng.choice(["int", "numpy.int64"])
        elif self.outside == 1.0:
            self.outside_form = "bool"
        else:
            self.outside_form = rng.choice(["float", "numpy.float64"])
        self.default_outside = self.outside_form == "omitted"
        # every combination of (identically zero | not) over the three velocity components, by the running index;
        # the components that are not identically zero alternate between generic profiles and profiles that are
        # exactly zero on part of the psi_n range
        bits = (index if index is not None else rng.randrange(8)) % 8
        rnd = (index if index is not None else rng.randrange(16)) // 8
        zm = ["zero" if bits >> j & 1 else ("partial" if (rnd + j) % 2 else None) for j in range(3)]
        self.zero_modes = {"toroidal": zm[0] or "generic", "poloidal": zm[1] or "generic", "normal": zm[2] or "generic"}
        self.vt, self.vp, self.vn = (Profile(rng, 4.0 * sc, vv[0], zm[0]), Profile(rng, sc, vv[1], zm[1]), Profile(rng, sc, vv[2], zm[2]))
        u = rng.random()
        if u < 0.3:
            self.outv, self.outv_t = None, (0.0, 0.0, 0.0)
            self.outv_form = "omitted" if u < 0.15 else "explicit None"
        else:
            self.outv_t = tuple(sc * dyadic(rng, -4, 4, 4) for _ in range(3))
            self.outv = Vector3D(*self.outv_t)
            self.outv_form = "Vector3D"

    def describe(self):
        return {"scalar": self.scalar.desc, "outside": self.outside, "outside_form": self.outside_form,
                "value_scale": "2^%d" % self.scale_exp, "velocity_zero_modes": self.zero_modes,
                "toroidal": self.vt.desc, "poloidal": self.vp.desc, "normal": self.vn.desc,
                "outside_vector": None if self.outv is None else list(self.outv_t), "outside_vector_form": self.outv_form}

    def outside_arg(self):
        f = self.outside_form
        return {"int": 3, "numpy.int64": np.int64(3), "bool": True, "numpy.float64": np.float64(self.outside)}.get(f, self.outside)

    def build_one(self, eq, which):
        """One mapped function ("map2d", "map3d", "map_vector2d", "map_vector3d") on the given equilibrium."""
        if which in ("map2d", "map3d"):
            fn = getattr(eq, which)
            return fn(self.scalar.fresh_arg()) if self.default_outside else fn(self.scalar.fresh_arg(), self.outside_arg())
        fn = getattr(eq, which)
        args = [self.vt.fresh_arg(), self.vp.fresh_arg(), self.vn.fresh_arg()]
        return fn(*args) if self.outv_form == "omitted" else fn(*args, self.outv)

    def build(self, eq):
        """The four mapped functions.  Array arguments are fresh objects that are overwritten after the
        call: the mapped functions must not alias the caller's arrays."""
        args = [pr.fresh_arg() for pr in (self.scalar, self.scalar, self.vt, self.vp, self.vn, self.vt, self.vp, self.vn)]
        if self.default_outside:
            f2, f3 = eq.map2d(args[0]), eq.map3d(args[1])
        else:
            f2, f3 = eq.map2d(args[0], self.outside_arg()), eq.map3d(args[1], self.outside_arg())
        if self.outv_form == "omitted":
            v2 = eq.map_vector2d(args[2], args[3], args[4])
            v3 = eq.map_vector3d(args[5], args[6], args[7])
        else:
            v2 = eq.map_vector2d(args[2], args[3], args[4], self.outv)
            v3 = eq.map_vector3d(args[5], args[6], args[7], value_outside_lcfs=self.outv)
        for a in args:
            scribble(a)
        return f2, f3, v2, v3


# ---------------------------------------------------------------------------------------------
# running the implementation at one point
# ---------------------------------------------------------------------------------------------
def v3(v):
    return (float(v.x), float(v.y), float(v.z))


_PROBE = {}


def mapper_radii(x, y, z):
    """The radius the implementation's own AxisymmetricMapper / VectorAxisymmetricMapper hand to the
    2-D function at (x, y, z): read by wrapping a recording function (no assumption on how the
    radius is computed: sqrt(x*x + y*y), hypot(x, y), ...)."""
    if not _PROBE:
        from raysect.core import Vector3D
        from cherab.core.math import AxisymmetricMapper, VectorAxisymmetricMapper
        rec = []

        def fs(r, zz):
            rec.append(float(r))
            return 0.0

        def fv(r, zz):
            rec.append(float(r))
            return Vector3D(0, 0, 0)
        _PROBE.update(rec=rec, s=AxisymmetricMapper(fs), v=VectorAxisymmetricMapper(fv))
    rec = _PROBE["rec"]
    del rec[:]
    _PROBE["s"](x, y, z)
    _PROBE["v"](x, y, z)
    assert len(rec) == 2, rec
    return rec[0], rec[1]


def evaluate_point(E, PS, fns, x, y, z, which="scalar"):
    """Everything the implementation returns at (x, y, z) / (sqrt(x^2+y^2), z) plus the values of the
    functions the model takes as given.  An exception raised by the implementation at a point of the
    domain is recorded under o["errors"] (it is a finding, reported by the caller)."""
    eq = E.eq
    f2, f3, w2, w3 = fns
    # r is the radius the implementation's mapper really uses (last bit included); Coq validates it
    # against the exact x^2 + y^2.  If the scalar and the vector mapper ever disagree about it, the point
    # is evaluated once per mapper (`which`) and the other mapper's 3-D stage is skipped in that case.
    r_s, r_v = mapper_radii(x, y, z)
    r = r_s if which == "scalar" else r_v
    out = {"x": x, "y": y, "z": z, "r": r, "errors": {}, "r_scalar_mapper": r_s, "r_vector_mapper": r_v,
           "skip": 0 if r_s == r_v else (10 if which == "scalar" else 4)}

    from fractions import Fraction
    a2 = Fraction(x) ** 2 + Fraction(y) ** 2
    bad = [rr for rr in (r_s, r_v) if not (math.isfinite(rr) and rr >= 0 and abs(Fraction(rr) ** 2 - a2) <= a2 / 2 ** 49)]
    if bad:
        # not a last-bit matter: the mapper evaluates the 2-D function at a radius that is not sqrt(x^2+y^2)
        out["errors"]["mapper_radius"] = "radius %r handed to the 2-D function is not sqrt(x^2+y^2) = %r within 2^-50" % (
            bad[0], math.sqrt(float(a2)))
        out.update(psin=None, inside=None)
        return out

    def call(name, fn, conv):
        try:
            out[name] = conv(fn())
        except Exception as e:       # reported as a violation with this point as the failing input
            out[name] = None
            out["errors"][name] = "%s: %s" % (type(e).__name__, str(e)[:200])

    call("psi", lambda: eq.psi(r, z), float)
    call("psin", lambda: eq.psi_normalised(r, z), float)
    out["poly"] = float(E.poly_mask(r, z))
    call("inside", lambda: eq.inside_lcfs(r, z), float)
    out["dr"] = float(E.dpsidr(r, z))
    out["dz"] = float(E.dpsidz(r, z))
    call("b", lambda: eq.b_field(r, z), v3)
    call("tor", lambda: eq.toroidal_vector(r, z), v3)
    call("pol", lambda: eq.poloidal_vector(r, z), v3)
    call("nor", lambda: eq.surface_normal(r, z), v3)
    call("map2d", lambda: f2(r, z), float)
    call("map3d", lambda: f3(x, y, z), float)
    call("v2", lambda: w2(r, z), v3)
    call("v3", lambda: w3(x, y, z), v3)
    p = out["psin"]
    if p is not None:
        out["f"] = float(E.f_ref(p)) if E.f_range[0] <= p <= E.f_range[1] else 0.0
        out["prof"] = PS.scalar.value(p)
        out["vt"], out["vp"], out["vn"] = PS.vt.value(p), PS.vp.value(p), PS.vn.value(p)
    phi = math.atan2(y, x) / math.pi * 180
    ang = math.pi * phi / 180.0
    out["cs"] = (math.cos(ang), math.sin(ang))
    return out


# ---------------------------------------------------------------------------------------------
# the executable statement of the property on the implementation
# ---------------------------------------------------------------------------------------------
def dot(a, b):
    return a[0] * b[0] + a[1] * b[1] + a[2] * b[2]


def cross(a, b):
    return (a[1] * b[2] - a[2] * b[1], a[2] * b[0] - a[0] * b[2], a[0] * b[1] - a[1] * b[0])


def norm(a):
    return math.sqrt(dot(a, a))


def rotz(c, s, v):
    return (c * v[0] - s * v[1], s * v[0] + c * v[1], v[2])


TOL = 1e-9


def property_failures(E, PS, fns, o, poly_mask_value=None):
    """List of clauses of C12 that fail at the evaluated point `o` (empty list: the property holds
    there).  Everything is checked against the implementation's own outputs only."""
    eq = E.eq
    f2, f3, w2, w3 = fns
    fails = []
    x, y, z, r = o["x"], o["y"], o["z"], o["r"]
    p = o["psin"]

    def fail(clause, **kw):
        fails.append(dict(kw, clause=clause))

    # normalised flux is never negative, and it is the normalised interpolated flux
    if not p >= 0.0:
        fail("normalised flux is negative", psi_n=p)
    want = max(0.0, (o["psi"] - E.psi_axis) / (E.psi_lcfs - E.psi_axis))
    ptol = 1e-10 * (1 + (abs(o["psi"]) + abs(E.psi_axis)) / abs(E.psi_lcfs - E.psi_axis))
    if abs(p - want) > ptol:
        fail("psi_normalised is not (psi - psi_axis)/(psi_lcfs - psi_axis) clamped at 0", psi_n=p, expected=want)
    # inside the LCFS: inside the polygon (independent even-odd test) and psi_n <= 1
    inpoly, dist = point_in_polygon(E.poly, r, z)
    decided = dist > 1e-7 and (abs(p - 1.0) > 1e-9 or (p == 1.0 and o["psi"] == E.psi_lcfs))
    inside = inpoly and p <= 1.0
    if decided:
        if (o["inside"] != 0.0) != inside or o["inside"] not in (0.0, 1.0):
            fail("inside_lcfs differs from (inside polygon and psi_n <= 1)", inside_lcfs=o["inside"], expected=inside,
                 in_polygon=inpoly, psi_n=p)
        exp2 = PS.scalar.value(p) if inside else PS.outside
        if not (o["map2d"] == exp2 or abs(o["map2d"] - exp2) <= 1e-12 * abs(exp2)):
            fail("map2d is not profile(psi_n) inside the LCFS / the outside value elsewhere", got=o["map2d"], expected=exp2,
                 inside=inside, psi_n=p)
        if not (o["map3d"] == exp2 or abs(o["map3d"] - exp2) <= 1e-12 * abs(exp2)):
            fail("map3d(x, y, z) is not the mapped value at (sqrt(x^2+y^2), z)", got=o["map3d"], expected=exp2, inside=inside)
    else:
        # the decision is within rounding of a boundary: whatever inside_lcfs says, the mapped values must follow it
        if o["inside"] not in (0.0, 1.0):
            fail("inside_lcfs is neither 0 nor 1", inside_lcfs=o["inside"])
        exp2 = PS.scalar.value(p) if o["inside"] else PS.outside
        for nm in ("map2d", "map3d"):
            if not (o[nm] == exp2 or abs(o[nm] - exp2) <= 1e-12 * abs(exp2)):
                fail("%s does not follow inside_lcfs at a point on the LCFS boundary" % nm, got=o[nm], expected=exp2,
                     inside_lcfs=o["inside"], psi_n=p)
        if not o["inside"] and max(abs(o["v2"][i] - PS.outv_t[i]) for i in range(3)) > 0.0:
            fail("map_vector2d does not follow inside_lcfs at a point on the LCFS boundary", got=o["v2"], expected=PS.outv_t)
    # basis
    b, t, pv, nv = o["b"], o["tor"], o["pol"], o["nor"]
    bin_ = math.hypot(b[0], b[2])
    degenerate = bin_ == 0.0
    if t != (0.0, 1.0, 0.0):
        fail("toroidal vector is not (0, 1, 0) in the poloidal plane", got=t)
    if not degenerate:
        for nm, a, c in (("toroidal.poloidal", t, pv), ("toroidal.normal", t, nv), ("poloidal.normal", pv, nv)):
            if abs(dot(a, c)) > TOL:
                fail("basis vectors are not orthogonal: " + nm, dot=dot(a, c))
        for nm, a in (("poloidal", pv), ("normal", nv)):
            if abs(norm(a) - 1.0) > TOL:
                fail("basis vector is not of unit length: " + nm, length=norm(a))
        cr = cross(pv, t)
        if max(abs(cr[i] - nv[i]) for i in range(3)) > TOL:
            fail("normal is not poloidal x toroidal", normal=nv, cross=cr)
        along = (b[0] / bin_, 0.0, b[2] / bin_)
        if max(abs(along[i] - pv[i]) for i in range(3)) > TOL:
            fail("poloidal vector is not along the in-plane field", poloidal=pv, field_direction=along)
        if abs(dot(b, nv)) > TOL * norm(b):
            fail("field has a component along the surface normal", b_dot_n=dot(b, nv))
    # mapped velocity, 2-D
    outv = PS.outv_t
    if decided:
        v2_ = o["v2"]
        scale = abs(PS.vt.value(p)) + abs(PS.vp.value(p)) + abs(PS.vn.value(p)) + 1e-300
        if not inside:
            if max(abs(v2_[i] - outv[i]) for i in range(3)) > 0.0:
                fail("map_vector2d outside the LCFS is not the outside vector", got=v2_, expected=outv)
        elif degenerate:
            if v2_[0] != 0.0 or v2_[2] != 0.0 or v2_[1] != PS.vt.value(p):
                fail("mapped velocity at a point of vanishing in-plane field is not exactly (0, v_toroidal, 0)", got=v2_,
                     v_toroidal=PS.vt.value(p))
        else:
            comps = (dot(v2_, t), dot(v2_, pv), dot(v2_, nv))
            exp = (PS.vt.value(p), PS.vp.value(p), PS.vn.value(p))
            # a prescribed speed of exactly 0: that component must vanish to rounding of the others (1e-13), and the
            # vector must be exactly the sum of the remaining parts
            for i, nm in enumerate(("toroidal", "poloidal", "normal")):
                if exp[i] == 0.0 and abs(comps[i]) > 1e-13 * scale:
                    fail("mapped velocity has a %s component although the prescribed %s speed is exactly 0" % (nm, nm),
                         components=comps, expected=exp)
            if exp[1] == 0.0 and exp[2] == 0.0 and (v2_[0] != 0.0 or v2_[2] != 0.0 or v2_[1] != exp[0]):
                fail("mapped velocity is not exactly (0, v_toroidal, 0) for zero poloidal and normal speeds", got=v2_, expected=(0.0, exp[0], 0.0))
            if exp[0] == 0.0 and v2_[1] != 0.0:
                fail("mapped velocity has a toroidal part although the prescribed toroidal speed is exactly 0", got=v2_)
            if exp[1] == 0.0 and exp[2] != 0.0 and max(abs(v2_[i] - (exp[2] * nv[i] + exp[0] * t[i])) for i in range(3)) > 1e-13 * scale:
                fail("mapped velocity is not v_toroidal * toroidal + v_normal * normal for a poloidal speed of exactly 0",
                     got=v2_, normal=nv, expected_speeds=exp)
            if exp[2] == 0.0 and exp[1] != 0.0 and max(abs(v2_[i] - (exp[1] * pv[i] + exp[0] * t[i])) for i in range(3)) > 1e-13 * scale:
                fail("mapped velocity is not v_toroidal * toroidal + v_poloidal * poloidal for a normal speed of exactly 0",
                     got=v2_, poloidal=pv, expected_speeds=exp)
            if max(abs(comps[i] - exp[i]) for i in range(3)) > TOL * scale:
                fail("mapped velocity does not have the prescribed (toroidal, poloidal, normal) components",
                     components=comps, expected=exp)
            resid = tuple(v2_[i] - (comps[0] * t[i] + comps[1] * pv[i] + comps[2] * nv[i]) for i in range(3))
            if max(abs(c) for c in resid) > TOL * scale:
                fail("mapped velocity has a part outside the span of the basis", residual=resid)
        # 3-D: rotated by the toroidal angle of (x, y)
        if r > 0:
            c, s = x / r, y / r
            v3_ = o["v3"]
            want3 = rotz(c, s, v2_)
            sc3 = scale if inside else (max(abs(k) for k in outv) + 1e-300)
            if max(abs(v3_[i] - want3[i]) for i in range(3)) > TOL * sc3:
                fail("map_vector3d is not map_vector2d rotated by the toroidal angle", got=v3_, expected=want3)
    return fails


def axisymmetry_failures(E, PS, fns, o, rng):
    """map3d / map_vector3d at the same (r, z) and other toroidal angles."""
    f2, f3, w2, w3 = fns
    fails = []
    r, z, p = o["r"], o["z"], o["psin"]
    inpoly, dist = point_in_polygon(E.poly, r, z)
    if dist < 1e-6 or abs(p - 1.0) < 1e-6 or not (E.r[0] + 1e-6 < r < E.r[-1] - 1e-6):
        return fails
    base = o["map3d"]
    for phi in (rng.uniform(-math.pi, math.pi), math.pi / 2, math.pi):
        c, s = math.cos(phi), math.sin(phi)
        val = float(f3(r * c, r * s, z))
        if abs(val - base) > 1e-7 * (abs(base) + 1e-3 * PS.scale):
            fails.append({"clause": "map3d is not axisymmetric", "phi": phi, "value": val, "at_given_point": base})
        vv = v3(w3(r * c, r * s, z))
        # cylindrical components must not depend on phi
        cyl = (c * vv[0] + s * vv[1], -s * vv[0] + c * vv[1], vv[2])
        cyl0 = o["v2"]
        sc = max(abs(k) for k in cyl0) + 1e-3 * PS.scale
        if max(abs(cyl[i] - cyl0[i]) for i in range(3)) > 1e-7 * sc:
            fails.append({"clause": "cylindrical components of map_vector3d depend on the toroidal angle", "phi": phi,
                          "components": cyl, "in_plane_y0": cyl0})
    return fails


def flux_surface_angles(E, o):
    """sin of the angle between the surface normal and grad(psi) of the implementation's interpolated
    psi (central differences), and |cos| of the angle between the in-plane field and grad(psi); None
    where grad(psi) is small or the point is at the edge of the domain."""
    eq = E.eq
    r, z = o["r"], o["z"]
    h = 1e-5
    if not (E.r[0] + 2 * h < r < E.r[-1] - 2 * h and E.z[0] + 2 * h < z < E.z[-1] - 2 * h):
        return None
    gr = (eq.psi(r + h, z) - eq.psi(r - h, z)) / (2 * h)
    gz = (eq.psi(r, z + h) - eq.psi(r, z - h)) / (2 * h)
    g = math.hypot(gr, gz)
    typical = abs(E.psi_lcfs - E.psi_axis) / (E.r[-1] - E.r[0])
    nv, b = o["nor"], o["b"]
    bin_ = math.hypot(b[0], b[2])
    if g < 0.3 * typical or norm(nv) == 0.0 or bin_ == 0.0:
        return None
    return {"sin_normal_gradpsi": abs(nv[0] * gz - nv[2] * gr) / g, "cos_field_gradpsi": abs(b[0] * gr + b[2] * gz) / (g * bin_),
            "grad_psi": (gr, gz), "normal": nv, "b": b, "r": r, "z": z}


def flux_surface_failures(E, angles):
    """The surface normal is perpendicular to the flux surface and the field lies in it.  The code's
    d psi comes from second-order differences of the grid, the reference from the cubic interpolant,
    so single points differ (measured: up to 0.8 at kinks of psi, median <= 0.025 on every grid); the
    claim checked is about the MEDIAN over the sampled points of one equilibrium (<= 0.1): sign or
    axis mix-ups give a median of order 1."""
    angles = [a for a in angles if a is not None]
    if len(angles) < 10:
        return []
    fails = []
    for key, clause in (("sin_normal_gradpsi", "surface normal is not perpendicular to the flux surface (not parallel to grad psi)"),
                        ("cos_field_gradpsi", "in-plane field is not tangent to the flux surface")):
        vals = sorted(a[key] for a in angles)
        med = vals[len(vals) // 2]
        if med > 0.1:
            worst = max(angles, key=lambda a: a[key])
            fails.append(dict(worst, clause=clause, median_over_points=med, points=len(vals)))
    return fails


# ---------------------------------------------------------------------------------------------
# histories on one live object, fresh objects, argument forms of the coordinates
# ---------------------------------------------------------------------------------------------
OUT_KEYS = ("psi", "psin", "inside", "map2d", "map3d", "b", "tor", "pol", "nor", "v2", "v3")


def _same(a, b):
    """bitwise-equal outputs (signed zeros included)"""
    ta = a if isinstance(a, tuple) else (a,)
    tb = b if isinstance(b, tuple) else (b,)
    return len(ta) == len(tb) and all(x is not None and y is not None and (x == y) and
                                      (math.copysign(1.0, x) == math.copysign(1.0, y)) for x, y in zip(ta, tb))


def history_failures(E, sets, built, evaluated, rng, rebuild, n=10):
    """`evaluated`: [(x, y, z, set index, outputs)] of this run, in evaluation order.  A sample of them
    (alternating inside / outside the LCFS, zero / non-zero field, clamped / unclamped where available)
    is evaluated again on the same live objects in another order, with numpy-scalar coordinates, and
    on an equilibrium built afresh from the same inputs (whose input arrays are overwritten after the
    construction): every output must be bitwise what the first evaluation gave."""
    if not evaluated:
        return [], 0
    ins = [e for e in evaluated if e[4]["inside"]]
    outs = [e for e in evaluated if not e[4]["inside"]]
    special = [e for e in evaluated if e[4]["psin"] in (0.0, 1.0) or (e[4]["b"][0] == 0.0 and e[4]["b"][2] == 0.0)]
    rng.shuffle(ins)
    rng.shuffle(outs)
    rng.shuffle(special)
    pick = []
    for a, b_ in zip(ins[:n // 2], outs[:n // 2]):
        pick += [a, b_]
    pick += special[:4]
    fails = []

    def compare(tag, fresh_E, fns_of, conv=float):
        for (x, y, z, k, o) in pick:
            o2 = evaluate_point(fresh_E, sets[k], fns_of(k), conv(x), conv(y), conv(z))
            if o2["errors"]:
                fails.append({"clause": "re-evaluation (%s) raised at a point that evaluated before" % tag,
                              "point": [x, y, z], "errors": o2["errors"]})
                continue
            bad = [key for key in OUT_KEYS if not _same(o[key], o2[key])]
            if bad:
                fails.append({"clause": "outputs depend on the evaluation history / object instance (%s)" % tag,
                              "point": [x.hex(), y.hex(), z.hex()], "differing_outputs": bad,
                              "first": {kk: o[kk] for kk in bad}, "again": {kk: o2[kk] for kk in bad}})
    compare("same objects, other order", E, lambda k: built[k])
    pick.reverse()
    compare("same objects, numpy.float64 coordinates", E, lambda k: built[k], np.float64)
    fresh = rebuild()
    fresh_built = {}

    def fns_of(k):
        if k not in fresh_built:
            fresh_built[k] = sets[k].build(fresh.eq)
        return fresh_built[k]
    compare("equilibrium and mapped functions built afresh, caller's arrays overwritten afterwards", fresh, fns_of)
    return fails, 3 * len(pick)


# ---------------------------------------------------------------------------------------------
# second-order call sites: the helper classes used directly, the readable attributes, defaults
# ---------------------------------------------------------------------------------------------
def direct_class_failures(E, sets, built, evaluated, rng, n=6):
    """EFITLCFSMask, MagneticField, PoloidalFieldVector, FluxSurfaceNormal and FluxCoordToCartesian built
    directly (as a user of efit.pyx may) must reproduce the equilibrium's own attributes bitwise; around
    plain Python callables they must give the documented vectors."""
    from raysect.core import Vector3D
    from cherab.tools.equilibrium import efit
    eq = E.eq
    fails = []
    mask = efit.EFITLCFSMask(E.poly, eq.psi_normalised)
    field = efit.MagneticField(eq.psi_normalised, E.dpsidr, E.dpsidz, E.f_ref, E.bvac_r, E.bvac_m, eq.inside_lcfs)
    pol, nor = efit.PoloidalFieldVector(eq.b_field), efit.FluxSurfaceNormal(eq.b_field)
    sample = list(evaluated)
    rng.shuffle(sample)
    count = 0
    for (x, y, z, k, o) in sample[:n]:
        r = o["r"]
        PS = sets[k]
        got = {"inside": float(mask(r, z)), "b": v3(field(r, z)), "pol": v3(pol(r, z)), "nor": v3(nor(r, z))}
        if o["inside"]:
            f2c = efit.FluxCoordToCartesian(eq.b_field, eq.psi_normalised, PS.vt.ref, PS.vp.ref, PS.vn.ref)
            got["v2"] = v3(f2c(r, z))
        count += len(got)
        bad = [key for key in got if not _same(o[key], got[key])]
        if bad:
            fails.append({"clause": "a helper class of efit.pyx used directly differs from the equilibrium's own attribute",
                          "point_rz": [r, z], "differing": bad, "attribute": {kk: o[kk] for kk in bad}, "direct": {kk: got[kk] for kk in bad}})
    # plain Python callables as the wrapped field
    S = 2.0 ** rng.randint(-60, 60)
    for bvec, want_p, want_n in (((3.0 * S, 7.0, 4.0 * S), (0.6, 0.0, 0.8), (-0.8, 0.0, 0.6)),
                                 ((0.0, 5.0, 0.0), (0.0, 0.0, 0.0), (0.0, 0.0, 0.0)),
                                 ((-2.0 * S, 1.0, 0.0), (-1.0, 0.0, 0.0), (0.0, 0.0, -1.0)),
                                 ((0.0, 0.0, -2.0 * S), (0.0, 0.0, -1.0), (1.0, 0.0, 0.0))):
        fld = lambda r, z, bvec=bvec: Vector3D(*bvec)
        gp, gn = v3(efit.PoloidalFieldVector(fld)(1.5, 0.25)), v3(efit.FluxSurfaceNormal(fld)(1.5, 0.25))
        gv = v3(efit.FluxCoordToCartesian(fld, lambda r, z: 0.5, lambda p: 2.0, lambda p: 10.0, lambda p: -5.0)(1.5, 0.25))
        wv = tuple(10.0 * want_p[i] - 5.0 * want_n[i] + (2.0 if i == 1 else 0.0) for i in range(3))
        count += 3
        for nm, g, w in (("PoloidalFieldVector", gp, want_p), ("FluxSurfaceNormal", gn, want_n), ("FluxCoordToCartesian", gv, wv)):
            if max(abs(g[i] - w[i]) for i in range(3)) > 1e-14 * 16:
                fails.append({"clause": "%s around a constant Python field does not give the documented vector" % nm,
                              "field": bvec, "got": g, "expected": w})
    return fails, count


def attribute_failures(E, rng):
    """Readable attributes against the constructor inputs: stored grids, ranges, axis values, f and q
    interpolants (2xN inputs), inside_limiter (independent point-in-polygon), psin_to_r (outboard
    mid-plane inverse of psi_n: 1e-3), toroidal vector."""
    eq, inp = E.eq, E.inputs
    fails = []
    count = 0

    def fail(clause, **kw):
        fails.append(dict(kw, clause=clause, equilibrium=E.describe()))
    for nm, stored, given in (("r_data", eq.r_data, E.r), ("z_data", eq.z_data, E.z), ("psi_data", eq.psi_data, E.psi_grid),
                              ("lcfs_polygon", eq.lcfs_polygon, E.poly)):
        count += 1
        if not np.array_equal(np.array(stored), given):
            fail("stored %s differs from the constructor input" % nm)
    count += 4
    if tuple(eq.r_range) != (E.r.min(), E.r.max()) or tuple(eq.z_range) != (E.z.min(), E.z.max()):
        fail("r_range / z_range are not the extent of the grid", r_range=tuple(eq.r_range), z_range=tuple(eq.z_range))
    if eq.psi_axis != E.psi_axis or eq.psi_lcfs != E.psi_lcfs:
        fail("psi_axis / psi_lcfs differ from the constructor inputs", got=(eq.psi_axis, eq.psi_lcfs))
    if (eq.magnetic_axis.x, eq.magnetic_axis.y) != tuple(E.axis):
        fail("magnetic_axis differs from the constructor input")
    for _ in range(6):
        p = rng.choice([0.0, 1.0, rng.random(), rng.random()])
        count += 2
        if float(eq.f_profile(p)) != float(E.f_ref(p)):
            fail("f_profile(psi_n) is not the cubic interpolant of the 2xN input", psi_n=p, got=float(eq.f_profile(p)), expected=float(E.f_ref(p)))
        if float(eq.q(p)) != float(E.q_ref(p)):
            fail("q(psi_n) is not the cubic interpolant of the 2xN input", psi_n=p, got=float(eq.q(p)), expected=float(E.q_ref(p)))
    lim = inp.get("limiter_polygon")
    if lim is None:
        count += 1
        if eq.inside_limiter is not None or eq.limiter_polygon is not None:
            fail("inside_limiter is not None although no limiter polygon was given")
    else:
        lp = np.ascontiguousarray(np.array(lim, dtype=float).T)
        for _ in range(25):
            r, z = rng.uniform(E.r[0], E.r[-1]), rng.uniform(E.z[0], E.z[-1])
            inside, dist = point_in_polygon(lp, r, z)
            if dist > 1e-7:
                count += 1
                if (float(eq.inside_limiter(r, z)) != 0.0) != inside:
                    fail("inside_limiter differs from an even-odd point-in-polygon test of the limiter polygon", point=[r, z],
                         got=float(eq.inside_limiter(r, z)), expected=inside)
    if eq.psin_to_r is not None and min(len(E.r), len(E.z)) >= 12:
        for _ in range(6):
            p = rng.uniform(0.05, 0.95)
            try:
                rr = float(eq.psin_to_r(p))
            except ValueError:
                continue
            if E.r[0] <= rr <= E.r[-1]:
                count += 1
                back = float(eq.psi_normalised(rr, E.axis[1]))
                if abs(back - p) > 1e-3:
                    fail("psin_to_r is not the outboard mid-plane inverse of psi_normalised (1e-3)", psi_n=p, r=rr, psi_n_back=back)
    return fails, count


def domain_edge_outcomes(E, PS, fns):
    """One ulp outside the (r, z) grid domain.  The documented interpolants have no extrapolation: psi,
    psi_normalised and b_field raise ValueError.  The mapped functions ask the LCFS mask first, which
    asks the polygon first: outside the polygon they return the outside value without touching the
    interpolants, inside it (polygon wider than the grid) they raise the interpolant's ValueError.
    Returns {call: (expected, observed)}."""
    eq = E.eq
    f2, f3, w2, w3 = fns
    r_out, z_in = math.nextafter(float(E.r[-1]), math.inf), float(E.z[len(E.z) // 2])
    inpoly, dist = point_in_polygon(E.poly, r_out, z_in)
    res = {}

    def run(name, fn, expected, conv):
        try:
            got = conv(fn())
        except Exception as e:
            got = type(e).__name__
        res[name] = (expected, got)
    for name, fn in (("psi", lambda: eq.psi(r_out, z_in)), ("psi_normalised", lambda: eq.psi_normalised(r_out, z_in)),
                     ("b_field", lambda: eq.b_field(r_out, z_in))):
        run(name, fn, "ValueError", lambda v: "accepted")
    if dist > 1e-7:
        es = "ValueError" if inpoly else "outside value"
        sc = lambda v: "outside value" if float(v) == PS.outside else "another value"
        vc = lambda v: "outside value" if v3(v) == tuple(PS.outv_t) else "another value"
        run("map2d", lambda: f2(r_out, z_in), es, sc)
        run("map3d", lambda: f3(r_out, 0.0, z_in), es, sc)
        run("map_vector2d", lambda: w2(r_out, z_in), es, vc)
        run("map_vector3d", lambda: w3(r_out, 0.0, z_in), es, vc)
    return res


def constructor_rejections():
    """x_points / strike_points that are not Point2D: the documented TypeError."""
    from raysect.core import Point2D
    from cherab.tools.equilibrium import EFITEquilibrium
    r = np.linspace(1.0, 2.0, 5)
    z = np.linspace(-1.0, 1.0, 6)
    psi = np.add.outer((r - 1.5) ** 2, z ** 2)
    prof = [[0.0, 1.0], [1.0, 2.0]]
    poly = [[1.2, 1.8, 1.5], [-0.5, -0.5, 0.5]]
    seen = {}
    for name, xp, sp in (("x_points tuple instead of Point2D", [(1.5, 0.0)], []), ("strike_points tuple instead of Point2D", [], [(1.5, 0.0)]),
                         ("valid Point2D lists", [Point2D(1.5, 0.0)], [Point2D(1.4, -0.4), Point2D(1.6, -0.4)])):
        try:
            e = EFITEquilibrium(r, z, psi, 0.0, 0.25, Point2D(1.5, 0.0), xp, sp, prof, prof, 1.5, 2.0, poly, None, 0.0)
            seen[name] = "accepted (%d x-points, %d strike points)" % (len(e.x_points), len(e.strike_points))
        except Exception as ex:
            seen[name] = type(ex).__name__
    return seen


def extreme_scale_failures():
    """psi scaled by 2^+-520 / 2^-540 on a small Solov'ev grid: the basis must still be orthonormal."""
    from raysect.core import Point2D
    from cherab.tools.equilibrium import EFITEquilibrium
    R0, a, k = 2.0, 0.5, 1.5
    r = np.linspace(R0 - 1.3 * a, R0 + 1.3 * a, 14)
    z = np.linspace(-1.4 * k * a, 1.4 * k * a, 15)
    R, Z = np.meshgrid(r, z, indexing="ij")
    u = ((R * R - R0 * R0) / (2 * a * R0)) ** 2 + (Z * R / (k * a * R0)) ** 2
    t = np.linspace(0, 2 * np.pi, 24, endpoint=False)
    Rp = np.sqrt(R0 * R0 + 2 * a * R0 * np.cos(t))
    poly = np.array([Rp, k * a * R0 * np.sin(t) / Rp])
    prof = [[0.0, 1.0], [1.0, 2.0]]
    fails = []
    for e_ in (520, -540):
        S = 2.0 ** e_
        x, zz = R0 + 0.3 * a, 0.1
        info = {"psi_scale": "2^%d" % e_, "grid": "Solov'ev R0=2 a=0.5 kappa=1.5, 14x15, psi = (0.5 + u) * scale, axis 0.5*scale, lcfs 1.5*scale",
                "point_rz": [x, zz]}
        try:
            eq = EFITEquilibrium(r, z, (0.5 + u) * S, 0.5 * S, 1.5 * S, Point2D(R0, 0.0), [], [], prof, prof, 1.0, 1.0, poly, None, 0.0)
            b, pv, nv = v3(eq.b_field(x, zz)), v3(eq.poloidal_vector(x, zz)), v3(eq.surface_normal(x, zz))
            vv = v3(eq.map_vector2d(lambda p: 1.0, lambda p: 2.0, lambda p: 3.0)(x, zz))
        except Exception as ex:
            fails.append(dict(info, clause="basis vectors raise for a flux map of extreme magnitude (b_r^2 + b_z^2 under/overflows)",
                              error="%s: %s" % (type(ex).__name__, str(ex)[:120])))
            continue
        if abs(norm(pv) - 1.0) > 1e-9 or abs(norm(nv) - 1.0) > 1e-9 or abs(dot(vv, pv) - 2.0) > 1e-8:
            fails.append(dict(info, clause="basis vectors are not of unit length for a flux map of extreme magnitude (b_r^2 + b_z^2 under/overflows)",
                              b_field=b, poloidal=pv, normal=nv, mapped_velocity=vv))
    return fails


def unit_basis_failures(E, evaluated, rng, n=6):
    """map_vector2d(1, 0, 0) == toroidal_vector, (0, 1, 0) == poloidal_vector, (0, 0, 1) == surface_normal
    inside the LCFS (to 1e-15; the outside vector elsewhere) and their 3-D counterparts rotated by the
    toroidal angle (1e-12), with the constants written as Python functions, cherab Constant1D objects
    and 2x2 arrays, at points of this run."""
    from cherab.core.math import Constant1D
    eq = E.eq
    fails = []
    count = 0

    def const(v):
        form = rng.choice(["function", "Constant1D", "2x2 array", "2x3 int list"])
        if form == "function":
            return (lambda p, v=v: v), form
        if form == "Constant1D":
            return Constant1D(float(v)), form
        if form == "2x2 array":
            return np.array([[0.0, 1.0], [v, v]]), form
        return [[-1, 0, 2], [int(v), int(v), int(v)]], form
    names = ("toroidal_vector", "poloidal_vector", "surface_normal")
    sample = [e for e in evaluated if e[4]["inside"]]
    rng.shuffle(sample)
    for which in range(3):
        args, forms = zip(*[const(1.0 if j == which else 0.0) for j in range(3)])
        w2, w3 = eq.map_vector2d(*args), eq.map_vector3d(*args)
        for (x, y, z, k, o) in sample[:n]:
            r = o["r"]
            want = (o["tor"], o["pol"], o["nor"])[which]
            got2, got3 = v3(w2(r, z)), v3(w3(x, y, z))
            count += 2
            info = {"unit_speeds(toroidal, poloidal, normal)": [1.0 if j == which else 0.0 for j in range(3)], "forms": list(forms),
                    "point": [x, y, z], "r": r, "equilibrium": E.describe()}
            if max(abs(got2[i] - want[i]) for i in range(3)) > 1e-15:
                fails.append(dict(info, clause="map_vector2d with unit %s speed and zero others is not the %s" % (("toroidal", "poloidal", "normal")[which], names[which]),
                                  got=got2, expected=want))
            want3 = rotz(x / r, y / r, want) if r > 0 else want
            if max(abs(got3[i] - want3[i]) for i in range(3)) > 1e-12:
                fails.append(dict(info, clause="map_vector3d with unit %s speed and zero others is not the rotated %s" % (("toroidal", "poloidal", "normal")[which], names[which]),
                                  got=got3, expected=want3))
    return fails, count


def coq_parg(obj):
    """The Coq term (Model/C12_Profile.v, type parg) describing a profile argument: callable, bare number,
    1-d array, rectangular 2-d array (row by row) or ragged nesting."""
    from common import qlist
    if callable(obj):
        return "AFun"
    try:
        a = np.array(obj, np.float64)
    except ValueError:
        return "ARagged"
    if a.ndim == 0:
        return "AScalar"
    if a.ndim == 1:
        return "(AVec %s)" % qlist([float(v) for v in a])
    assert a.ndim == 2, a.shape
    return "(AMat [%s])" % "; ".join(qlist([float(v) for v in row]) for row in a)


def interpolation_weights(E, r, z):
    """Weights of the running 2-D cubic interpolator at (r, z): the interpolants of unit-impulse grids on
    the equilibrium's axes (6 x 6 window of nodes around the cell; the rest of the grid must contribute
    exactly 0).  Returns (node index pairs, weights) or None when the window does not hold all the weight."""
    from raysect.core.math.function.float import Interpolator2DArray
    nr, nz = len(E.r), len(E.z)
    i = min(max(int(np.searchsorted(E.r, r, side="right")) - 1, 0), nr - 2)
    j = min(max(int(np.searchsorted(E.z, z, side="right")) - 1, 0), nz - 2)
    nodes = [(a, b) for a in range(max(0, i - 2), min(nr, i + 4)) for b in range(max(0, j - 2), min(nz, j + 4))]
    rest = np.ones((nr, nz))
    ws = []
    for (a, b) in nodes:
        g = np.zeros((nr, nz))
        g[a, b] = 1.0
        rest[a, b] = 0.0
        ws.append(float(Interpolator2DArray(E.r, E.z, g, "cubic", "none", 0, 0)(r, z)))
    if float(Interpolator2DArray(E.r, E.z, rest, "cubic", "none", 0, 0)(r, z)) != 0.0:
        return None
    return nodes, ws


# ---------------------------------------------------------------------------------------------
# sequences of calls on ONE long-lived equilibrium against fresh objects (history independence)
# ---------------------------------------------------------------------------------------------
def fresh_equilibrium(E):
    """A new EFITEquilibrium from the constructor inputs of E (nothing shared with E.eq)."""
    from raysect.core import Point2D
    from cherab.tools.equilibrium import EFITEquilibrium
    inp = E.inputs
    return EFITEquilibrium(np.array(inp["r"], float), np.array(inp["z"], float), np.array(inp["psi"], float),
                           float(inp["psi_axis"]), float(inp["psi_lcfs"]), Point2D(*inp["magnetic_axis"]), [], [],
                           np.array(inp["f_profile"], float), np.array(inp["q_profile"], float),
                           float(inp["b_vacuum_radius"]), float(inp["b_vacuum_magnitude"]),
                           np.array(inp["lcfs_polygon"], float), None, 0.0)


CALLS_2D = ("psi_normalised", "inside_lcfs", "b_field", "poloidal_vector", "surface_normal", "map2d", "map_vector2d")
CALLS_3D = ("map3d", "map_vector3d")


def _call(eq, fns, name, args):
    """value (float or 3-tuple) or the exception class name"""
    try:
        if name in ("map2d", "map3d", "map_vector2d", "map_vector3d"):
            v = fns[name](*args)
        else:
            v = getattr(eq, name)(*args)
        return float(v) if isinstance(v, float) or not hasattr(v, "x") else v3(v)
    except Exception as e:
        return "raised " + type(e).__name__


def call_sequence(E, rng, n_scan=7):
    """A sequence of (function, arguments) on points of the domain built to expose state kept between
    evaluations: repeated points; vertical scans at constant r and horizontal scans at constant z across the
    LCFS; coincidences of coordinates (z == r, z == -r, r == the previous z, hypot(x, y) == z in 3-D); every
    function at the same point alternately."""
    r0, r1, z0, z1 = float(E.r[0]), float(E.r[-1]), float(E.z[0]), float(E.z[-1])
    ax, az = E.axis
    seq = []

    def inbox(r, z):
        return r0 <= r <= r1 and z0 <= z <= z1

    def add2(name, r, z):
        if inbox(r, z):
            seq.append((name, (r, z)))

    def add3(name, x, y, z):
        r_s, r_v = mapper_radii(x, y, z)
        if inbox(r_s, z) and inbox(r_v, z):
            seq.append((name, (x, y, z)))

    def everything_at(r, z):
        names = list(CALLS_2D)
        rng.shuffle(names)
        for nm in names:
            add2(nm, r, z)
        phi = rng.choice([0.0, math.pi / 2, math.pi, rng.uniform(-math.pi, math.pi)])
        x, y = (r, 0.0) if phi == 0.0 else ((0.0, r) if phi == math.pi / 2 else ((-r, 0.0) if phi == math.pi else (r * math.cos(phi), r * math.sin(phi))))
        for nm in CALLS_3D:
            add3(nm, x, y, z)
    # coincidences: the diagonal z == r and the anti-diagonal z == -r, then the same r at other z (vertical scan), the
    # same z at other r, and a point whose r is the previous z
    diag = [d for d in (rng.uniform(max(r0, z0), min(r1, z1)) for _ in range(4)) if max(r0, z0) < min(r1, z1)]
    adiag = [d for d in (rng.uniform(max(r0, -z1), min(r1, -z0)) for _ in range(2)) if max(r0, -z1) < min(r1, -z0)]
    for d, sgn in [(d, 1.0) for d in diag[:3]] + [(d, -1.0) for d in adiag[:2]]:
        nm = rng.choice(CALLS_2D)
        add2(nm, d, sgn * d)
        add2(rng.choice(CALLS_2D), d, sgn * d)                       # repeated point, another function
        for k in range(n_scan):                                       # vertical scan at r == d across the LCFS
            zz = z0 + (z1 - z0) * (k + 0.5) / n_scan
            add2(rng.choice(("inside_lcfs", "map2d", "map_vector2d", "b_field", "inside_lcfs")), d, zz)
        add2("inside_lcfs", d, az)
        add2("map2d", d, az)
        add2("inside_lcfs", d, sgn * d)
        if z0 <= d <= z1:
            for k in range(n_scan):                                   # horizontal scan at z == d
                rr = r0 + (r1 - r0) * (k + 0.5) / n_scan
                add2(rng.choice(("inside_lcfs", "map2d", "psi_normalised")), rr, d)
        # 3-D: hypot(x, y) == z
        if z0 <= d <= z1:
            for (x, y) in ((d, 0.0), (0.0, d), (-d, 0.0), (d * math.cos(0.7), d * math.sin(0.7))):
                add3(rng.choice(CALLS_3D), x, y, d)
            for k in range(3):
                add3(rng.choice(CALLS_3D), d, 0.0, z0 + (z1 - z0) * rng.random())
    # scans through the magnetic axis, every function at a few points, repeated points
    for k in range(n_scan):
        add2(rng.choice(CALLS_2D), ax, z0 + (z1 - z0) * (k + 0.5) / n_scan)
    for k in range(n_scan):
        add2(rng.choice(CALLS_2D), r0 + (r1 - r0) * (k + 0.5) / n_scan, az)
    for _ in range(2):
        r, z = rng.uniform(r0, r1), rng.uniform(z0, z1)
        everything_at(r, z)
        add2("inside_lcfs", r, z)
    prev = None
    for _ in range(4):                                                # r == the previous z
        r, z = rng.uniform(r0, r1), rng.uniform(max(z0, r0), min(z1, r1)) if max(z0, r0) < min(z1, r1) else rng.uniform(z0, z1)
        if prev is not None and r0 <= prev <= r1:
            r = prev
        add2(rng.choice(CALLS_2D), r, z)
        prev = z
    return seq


def sequence_failures(E, PS, fns4, rng, max_calls=60):
    """Runs call_sequence on the long-lived E.eq and its mapped functions; every value must be bitwise what a
    FRESH equilibrium (built from the same inputs, nothing evaluated before) returns for that single call.
    Returns (failures, number of calls)."""
    live = dict(zip(("map2d", "map3d", "map_vector2d", "map_vector3d"), fns4))
    seq = call_sequence(E, rng)[:max_calls]
    fails = []
    for idx, (name, args) in enumerate(seq):
        got = _call(E.eq, live, name, args)
        feq = fresh_equilibrium(E)
        ffns = {name: PS.build_one(feq, name)} if name in live else {}
        want = _call(feq, ffns, name, args)
        same = (got == want) if isinstance(got, str) or isinstance(want, str) else _same(got, want)
        if not same:
            fails.append({"clause": "%s on a long-lived equilibrium differs from a fresh equilibrium: the result depends on the "
                                    "evaluation history" % name,
                          "call": [name, [a.hex() for a in args], list(args)], "long_lived_object": got, "fresh_object": want,
                          "sequence_before(function, arguments)": [[n_, list(a_)] for n_, a_ in seq[:idx]],
                          "equilibrium": E.describe()})
            break
    return fails, len(seq)
