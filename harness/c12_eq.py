"""C12 helpers: equilibria (bundled + synthetic Solov'ev-type), point sampling, profile sets and the
executable statement of property C12 evaluated on the real implementation (failing-input search).

Nothing here uses the Coq model; the reference computations (point in polygon, cubic 1-D profile
interpolation through raysect's own Interpolator1DArray, rotation by atan2) are independent of
cherab/tools/equilibrium/efit.pyx and cherab/core/math/{mappers,mask,clamp}.pyx."""
import math

import numpy as np


# ---------------------------------------------------------------------------------------------
# equilibria
# ---------------------------------------------------------------------------------------------
def solovev_params(rng, sign, idx):
    """Random Solov'ev-type flux map psi = psi_axis + sign*psi0*u(R, Z),
    u = ((R^2-R0^2)/(2 a R0))^2 + (Z R/(kappa a R0))^2, LCFS at u = 1."""
    from common import dyadic
    R0 = dyadic(rng, 1.5, 3.0, 4)
    p = {
        "sign": sign,
        # aspect ratio R0/a > 2.2 keeps R0^2 - 2 a R0 > 0 (the LCFS contour closed) and the grid at r > 0
        "R0": R0, "a": dyadic(rng, 0.4, min(0.9, 0.45 * R0), 4), "kappa": dyadic(rng, 1.0, 1.8, 3),
        "psi0": dyadic(rng, 0.25, 2.0, 4), "psi_axis_true": dyadic(rng, -1.0, 1.0, 4),
        "nr": rng.randint(9, 40), "nz": rng.randint(9, 40),
        # flat core: psi constant for u < u0 (the in-plane field vanishes exactly there)
        "u0": rng.choice([0.0, 0.0, 0.12]),
        # psi_axis handed to the constructor is off by axis_shift*psi0 towards the LCFS value:
        # the interpolated normalised flux is negative near the axis and the clamp at 0 acts
        "axis_shift": rng.choice([0.0, 0.04, -0.03]),
        "poly_scale": rng.choice([1.0, 0.9, 1.07]), "poly_n": rng.randint(12, 72),
        "nonuniform": rng.random() < 0.25,
        # psi held at the LCFS value wherever u >= 1: psi_n is exactly 1.0 there (boundary of psi_n <= 1)
        "plateau": rng.random() < 0.3,
        # z axis symmetric about 0 with a node at z = 0: d psi/dz is exactly 0 on the mid-plane
        "z_symmetric": rng.random() < 0.4,
        "bvac_r": dyadic(rng, 1.0, 3.0, 3), "bvac_m": rng.choice([-1, 1]) * dyadic(rng, 0.5, 3.0, 3),
        "nf": rng.randint(2, 12), "f0": dyadic(rng, 1.0, 4.0, 3), "f1": dyadic(rng, -1.0, 1.0, 3),
        "idx": idx,
    }
    return p


def solovev_u(p, R, Z):
    R0, a, k = p["R0"], p["a"], p["kappa"]
    return ((R * R - R0 * R0) / (2 * a * R0)) ** 2 + (Z * R / (k * a * R0)) ** 2


def build_solovev(p):
    from raysect.core import Point2D
    from cherab.tools.equilibrium import EFITEquilibrium
    R0, a, k, sign = p["R0"], p["a"], p["kappa"], p["sign"]
    r = np.linspace(R0 - 1.35 * a, R0 + 1.3 * a, p["nr"])
    z = np.linspace(-1.4 * k * a, 1.45 * k * a, p["nz"])
    if p.get("z_symmetric"):
        nz = p["nz"] | 1
        z = np.linspace(-1.4 * k * a, 1.4 * k * a, nz)
        z[nz // 2] = 0.0
    if p["nonuniform"]:
        r = r + 0.2 * (r[1] - r[0]) * np.sin(np.arange(p["nr"]) * 1.7)
        r[0], r[-1] = R0 - 1.35 * a, R0 + 1.3 * a
    R, Z = np.meshgrid(r, z, indexing="ij")
    u = solovev_u(p, R, Z)
    u0 = p["u0"]
    w = np.maximum(u - u0, 0.0) / (1.0 - u0)
    if p.get("plateau"):
        w = np.minimum(w, 1.0)
    psi = p["psi_axis_true"] + sign * p["psi0"] * w
    psi_axis = p["psi_axis_true"] + sign * p["axis_shift"] * p["psi0"]
    psi_lcfs = p["psi_axis_true"] + sign * p["psi0"]
    t = np.linspace(0, 2 * np.pi, p["poly_n"], endpoint=False)
    Rp = np.sqrt(R0 * R0 + 2 * a * R0 * np.cos(t))
    Zp = k * a * R0 * np.sin(t) / Rp
    sc = 1.4 if p.get("plateau") else p["poly_scale"]     # plateau: wide band inside the polygon where psi_n == 1.0 exactly
    poly = np.array([R0 + sc * (Rp - R0), sc * Zp])
    psin = np.linspace(0, 1, p["nf"])
    fprof = np.array([psin, p["f0"] + p["f1"] * psin ** 2])
    qprof = np.array([psin, 1 + 2 * psin ** 2])
    eq = EFITEquilibrium(r, z, psi, psi_axis, psi_lcfs, Point2D(R0, 0.0), [], [], fprof, qprof,
                         p["bvac_r"], p["bvac_m"], poly, None, 0.0)
    return eq, {"lcfs_polygon": poly, "f_profile": fprof, "b_vacuum_radius": p["bvac_r"], "b_vacuum_magnitude": p["bvac_m"]}


def bundled(name):
    """The two equilibria shipped with the package, built by the package's own loaders, plus the
    constructor inputs read independently from the JSON files."""
    import json
    import os
    from common import REPO
    if name == "example":
        from cherab.tools.equilibrium import example_equilibrium
        eq = example_equilibrium()
        d = json.load(open(os.path.join(REPO, "cherab/tools/equilibrium/example.json")))
    else:
        from cherab.generomak.equilibrium import load_equilibrium
        eq = load_equilibrium()
        d = json.load(open(os.path.join(REPO, "cherab/generomak/equilibrium/data/generomak_equilibrium.json")))
    return eq, {"lcfs_polygon": np.array(d["lcfs_polygon"], dtype=float), "f_profile": np.array(d["f_profile"], dtype=float),
                "b_vacuum_radius": float(d["b_vacuum_radius"]), "b_vacuum_magnitude": float(d["b_vacuum_magnitude"])}


class Eq:
    """An equilibrium of the implementation plus what the harness needs to know about it."""

    def __init__(self, name, eq, inputs, params=None):
        from cherab.core.math import PolygonMask2D
        from raysect.core.math.function.float import Interpolator1DArray
        self.name, self.eq, self.params = name, eq, params
        self.r = np.array(eq.r_data, dtype=float)
        self.z = np.array(eq.z_data, dtype=float)
        self.psi_grid = np.array(eq.psi_data, dtype=float)
        self.poly = np.ascontiguousarray(np.array(inputs["lcfs_polygon"], dtype=float).T)        # N x 2
        # the two functions the model takes as given, built from the constructor INPUTS
        self.poly_mask = PolygonMask2D(self.poly)
        fp = np.array(inputs["f_profile"], dtype=float)
        self.f_ref = Interpolator1DArray(fp[0, :], fp[1, :], "cubic", "none", 0)
        self.f_range = (float(fp[0, 0]), float(fp[0, -1]))
        self.axis = (eq.magnetic_axis.x, eq.magnetic_axis.y)
        self.psi_axis, self.psi_lcfs = eq.psi_axis, eq.psi_lcfs
        # the implementation's own derivative interpolators (same code path as in __init__)
        self.dpsidr, self.dpsidz = eq._calculate_differentials(eq.r_data, eq.z_data, eq.psi_data)
        self.bvac_r, self.bvac_m = float(inputs["b_vacuum_radius"]), float(inputs["b_vacuum_magnitude"])

    def describe(self):
        d = {"name": self.name, "nr": len(self.r), "nz": len(self.z), "psi_axis": self.psi_axis,
             "psi_lcfs": self.psi_lcfs, "sign": 1 if self.psi_lcfs > self.psi_axis else -1,
             "polygon_vertices": int(self.poly.shape[0])}
        if self.params:
            d["params"] = self.params
        return d


# ---------------------------------------------------------------------------------------------
# reference point-in-polygon (even-odd rule) with the distance to the nearest edge
# ---------------------------------------------------------------------------------------------
def point_in_polygon(poly, x, y):
    n = len(poly)
    inside = False
    dmin = float("inf")
    for i in range(n):
        x1, y1 = poly[i]
        x2, y2 = poly[(i + 1) % n]
        if (y1 > y) != (y2 > y):
            xc = x1 + (y - y1) * (x2 - x1) / (y2 - y1)
            if x < xc:
                inside = not inside
        ex, ey = x2 - x1, y2 - y1
        L2 = ex * ex + ey * ey
        tt = 0.0 if L2 == 0 else max(0.0, min(1.0, ((x - x1) * ex + (y - y1) * ey) / L2))
        d = math.hypot(x - (x1 + tt * ex), y - (y1 + tt * ey))
        dmin = min(dmin, d)
    return inside, dmin


# ---------------------------------------------------------------------------------------------
# points
# ---------------------------------------------------------------------------------------------
def _in_box(E, r, z, margin=1e-9):
    return E.r[0] + margin < r < E.r[-1] - margin and E.z[0] + margin < z < E.z[-1] - margin


def lcfs_crossing(E, rng):
    """A point with psi_n = 1 on a random ray from the magnetic axis (bisection on the implementation's
    psi_normalised), or None."""
    th = rng.uniform(-math.pi, math.pi)
    ax, az = E.axis
    tmax = 0.0
    step = 0.01 * (E.r[-1] - E.r[0])
    t = step
    prev = None
    while True:
        r, z = ax + t * math.cos(th), az + t * math.sin(th)
        if not _in_box(E, r, z):
            return None
        v = E.eq.psi_normalised(r, z)
        if v > 1.0 and prev is not None and prev <= 1.0:
            lo, hi = t - step, t
            for _ in range(50):
                mid = 0.5 * (lo + hi)
                if E.eq.psi_normalised(ax + mid * math.cos(th), az + mid * math.sin(th)) > 1.0:
                    hi = mid
                else:
                    lo = mid
            return th, 0.5 * (lo + hi)
        prev = v
        t += step


def sample_points(E, rng, n, dyadic_fraction=0.4):
    """n points (x, y, z, cls) of the 3-D domain whose (sqrt(x^2+y^2), z) lies in the (r, z) grid domain."""
    pts = []
    ax, az = E.axis
    guard = 0
    while len(pts) < n and guard < 50 * n:
        guard += 1
        u = rng.random()
        cls = "uniform"
        if u < 0.40:
            r, z = rng.uniform(E.r[0], E.r[-1]), rng.uniform(E.z[0], E.z[-1])
        elif u < 0.65:
            c = lcfs_crossing(E, rng)
            if c is None:
                continue
            th, t = c
            t = t * (1 + rng.choice([-1, 1]) * rng.choice([3e-2, 1e-3, 1e-5, 1e-7]))
            r, z = ax + t * math.cos(th), az + t * math.sin(th)
            cls = "near_lcfs"
        elif u < 0.80:
            rad = 0.25 * (E.r[-1] - E.r[0]) * rng.random() ** 2
            th = rng.uniform(-math.pi, math.pi)
            r, z = ax + rad * math.cos(th), az + rad * math.sin(th)
            cls = "near_axis"
        elif u < 0.88:
            i, j = rng.randrange(len(E.r)), rng.randrange(len(E.z))
            r, z = float(E.r[i]), float(E.z[j])
            cls = "grid_node"
        elif u < 0.96 and E.params and E.params.get("z_symmetric"):
            r, z = rng.uniform(E.r[0], E.r[-1]), 0.0
            cls = "midplane"
        else:
            # close to a polygon vertex / edge
            k = rng.randrange(len(E.poly))
            vx, vz_ = E.poly[k]
            wx, wz = E.poly[(k + 1) % len(E.poly)]
            s = rng.random()
            off = rng.choice([-1, 1]) * rng.choice([1e-2, 1e-4])
            r, z = vx + s * (wx - vx) + off * (wz - vz_), vz_ + s * (wz - vz_) - off * (wx - vx)
            cls = "near_polygon"
        if cls == "grid_node":
            phi = rng.choice([0.0, math.pi])
            x, y = (r, 0.0) if phi == 0.0 else (-r, 0.0)
        else:
            phi = rng.choice([rng.uniform(-math.pi, math.pi)] * 3 + [0.0, math.pi / 2, -math.pi / 2, math.pi, math.pi / 4])
            x, y = r * math.cos(phi), r * math.sin(phi)
            if phi == math.pi / 2 or phi == -math.pi / 2:
                x = 0.0
            if phi == math.pi:
                y = 0.0
            if rng.random() < dyadic_fraction:
                sc = float(1 << 20)
                x, y, z = round(x * sc) / sc, round(y * sc) / sc, round(z * sc) / sc
        if cls == "midplane":
            z = 0.0
        rr = math.sqrt(x * x + y * y)
        if not _in_box(E, rr, z, margin=1e-7 if cls != "grid_node" else -1e-12):
            continue
        if cls == "grid_node" and not (E.r[0] <= rr <= E.r[-1]):
            continue
        pts.append((x, y, z, cls))
    return pts


# ---------------------------------------------------------------------------------------------
# profiles
# ---------------------------------------------------------------------------------------------
# 2xN array profiles: every N from the smallest the interpolator accepts (2; N = 1 is rejected, see
# rejected_profile_outcomes) upwards, in every container form, with integer entries, with knots exactly
# 0 and 1 and with knots beyond [0, 1].  (n, container, flavour); the first twelve are what the quick tier
# is guaranteed to run through, the rest is the full product.
_NS = (2, 3, 4, 6, 11)
_CONTAINERS = ("ndarray", "list", "tuple")
_FLAVOURS = ("unit", "beyond", "int")
ARRAY_VARIANTS = [(2, "ndarray", "unit"), (3, "list", "unit"), (4, "tuple", "unit"), (2, "list", "int"),
                  (2, "tuple", "beyond"), (3, "ndarray", "beyond"), (3, "tuple", "int"), (4, "ndarray", "int"),
                  (4, "list", "beyond"), (2, "ndarray", "int"), (6, "list", "unit"), (11, "ndarray", "beyond")]
ARRAY_VARIANTS += [(n, c, f) for f in _FLAVOURS for c in _CONTAINERS for n in _NS if (n, c, f) not in ARRAY_VARIANTS]


def array_profile(rng, variant, scale):
    """A valid 2xN profile (first row psi_n knots, strictly increasing and covering [0, 1]; second row
    values, not monotone) in the requested container / dtype, and its description."""
    from common import dyadic
    n, container, flavour = variant
    if flavour == "int":
        # integer knots covering [0, 1]: ..., -1, 0, 1, 2, ...
        lo = -((n - 2) // 2)
        xs = [lo + k for k in range(n)]
        ys = [int(round(scale * rng.randint(-4, 4))) for _ in xs]
        if len(set(ys)) == 1:
            ys[0] += 3
    else:
        if flavour == "unit":
            ends, inner = [0.0, 1.0], n - 2
        elif n == 2:
            ends, inner = [-0.25, 1.5], 0
        elif n == 3:
            ends, inner = [-0.25, rng.choice([0.0, 1.0]), 1.5], 0
        else:
            ends, inner = [-0.25, 0.0, 1.0, 1.5], n - 4
        mid = set()
        while len(mid) < inner:
            mid.add(dyadic(rng, 0.02, 0.98, 6))
        xs = sorted(set(ends) | mid)
        ys = [scale * dyadic(rng, -4, 4, 4) for _ in xs]
    if container == "ndarray":
        arg = np.array([xs, ys], dtype=np.int64 if flavour == "int" else np.float64)
    elif container == "list":
        arg = [list(xs), list(ys)]
    else:
        arg = (tuple(xs), tuple(ys))
    desc = {"kind": "2xN array", "N": n, "container": container, "flavour": flavour,
            "dtype": "int" if flavour == "int" else "float", "x": list(xs), "y": list(ys)}
    return arg, desc


class Profile:
    """A 1-D profile in one of the forms the API accepts (Python function, Function1D object, 2xN
    array-like), with an independent evaluator: for an array the documented interpolant of the array AS
    GIVEN (first row psi_n, second row values; cubic, no extrapolation)."""

    def __init__(self, rng, scale=1.0, array_variant=None):
        from common import dyadic
        from raysect.core.math.function.float import Interpolator1DArray
        self.kind = "array" if array_variant is not None else rng.choice(["pyfunc", "function1d", "array", "array", "constant"])
        self.xmin, self.xmax = float("-inf"), float("inf")
        if self.kind == "pyfunc":
            a, b, c = (scale * dyadic(rng, -4, 4, 4) for _ in range(3))
            self.desc = {"kind": "pyfunc", "a": a, "b": b, "c": c}
            self.arg = lambda p, a=a, b=b, c=c: a + b * p + c * p * p
            self.ref = self.arg
        elif self.kind == "constant":
            a = scale * dyadic(rng, -4, 4, 4)
            self.desc = {"kind": "constant python function", "a": a}
            self.arg = lambda p, a=a: a
            self.ref = self.arg
        elif self.kind == "function1d":
            n = rng.randint(2, 12)
            xs = sorted({0.0, 1.0} | {dyadic(rng, 0.02, 0.98, 6) for _ in range(n - 2)})
            ys = [scale * dyadic(rng, -4, 4, 4) for _ in xs]
            xs = xs + [1.5, 40.0]
            ys = ys + [ys[-1], ys[-1]]
            self.arg = Interpolator1DArray(np.array(xs), np.array(ys), "cubic", "nearest", 1e6)
            self.ref = self.arg
            self.desc = {"kind": "Function1D (raysect Interpolator1DArray, cubic)", "x": xs, "y": ys}
        else:
            if array_variant is None:
                array_variant = ARRAY_VARIANTS[rng.randrange(len(ARRAY_VARIANTS))]
            self.arg, self.desc = array_profile(rng, array_variant, scale)
            given = np.array(self.arg, dtype=np.float64)
            assert given.shape == (2, array_variant[0]), given.shape
            self.ref = Interpolator1DArray(given[0, :].copy(), given[1, :].copy(), "cubic", "none", 0)
            self.xmin, self.xmax = float(given[0, 0]), float(given[0, -1])
        self.variant = array_variant

    def value(self, p):
        """reference value of the profile at p; 0.0 where the profile is not defined (never used there)"""
        if p > self.xmax or p < self.xmin:
            return 0.0
        return float(self.ref(p))


def rejected_profile_outcomes(eq):
    """N = 1 is below what the documented interpolant accepts: the expected outcome of every
    profile-taking entry point is the interpolant's own rejection (ValueError).  Returns
    (expected exception class name, {entry point: observed outcome})."""
    from raysect.core.math.function.float import Interpolator1DArray
    one = [[0.5], [1.0]]
    try:
        Interpolator1DArray(np.array(one[0]), np.array(one[1]), "cubic", "none", 0)
        expected = "accepted"
    except Exception as e:
        expected = type(e).__name__
    ok = lambda p: 1.0
    calls = {"map2d": lambda: eq.map2d(one), "map3d": lambda: eq.map3d(one),
             "map_vector2d(toroidal)": lambda: eq.map_vector2d(one, ok, ok),
             "map_vector2d(poloidal)": lambda: eq.map_vector2d(ok, one, ok),
             "map_vector2d(normal)": lambda: eq.map_vector2d(ok, ok, one),
             "map_vector3d(normal)": lambda: eq.map_vector3d(ok, ok, one)}
    seen = {}
    for name, fn in calls.items():
        try:
            fn()
            seen[name] = "accepted"
        except Exception as e:
            seen[name] = type(e).__name__
    return expected, seen


class ProfileSet:
    """One scalar profile + outside value and three velocity profiles + outside vector.  `index` is the
    running number of the set in this run: even sets force the scalar profile (map2d / map3d) and sets
    with index % 3 == 1 force all three velocity profiles (map_vector2d / 3d) to the next array variants
    of ARRAY_VARIANTS, so that every tier walks through the shapes deterministically; the other profiles
    are drawn at random (functions, Function1D objects, arrays of a random variant)."""

    def __init__(self, rng, index=None):
        from common import dyadic
        from raysect.core import Vector3D
        nv = len(ARRAY_VARIANTS)
        sv = ARRAY_VARIANTS[(index // 2) % nv] if index is not None and index % 2 == 0 else None
        vv = [ARRAY_VARIANTS[(index + k) % nv] for k in range(3)] if index is not None and index % 3 == 1 else [None] * 3
        self.scalar = Profile(rng, 1.0, sv)
        self.outside = rng.choice([0.0, dyadic(rng, -8, 8, 4), dyadic(rng, -8, 8, 4)])
        self.default_outside = self.outside == 0.0 and rng.random() < 0.5
        self.vt, self.vp, self.vn = Profile(rng, 4.0, vv[0]), Profile(rng, 1.0, vv[1]), Profile(rng, 1.0, vv[2])
        if rng.random() < 0.3:
            self.outv = None
            self.outv_t = (0.0, 0.0, 0.0)
        else:
            self.outv_t = tuple(dyadic(rng, -4, 4, 4) for _ in range(3))
            self.outv = Vector3D(*self.outv_t)

    def describe(self):
        return {"scalar": self.scalar.desc, "outside": self.outside, "default_outside_argument": self.default_outside,
                "toroidal": self.vt.desc, "poloidal": self.vp.desc, "normal": self.vn.desc,
                "outside_vector": None if self.outv is None else list(self.outv_t)}

    def build(self, eq):
        if self.default_outside:
            f2, f3 = eq.map2d(self.scalar.arg), eq.map3d(self.scalar.arg)
        else:
            f2, f3 = eq.map2d(self.scalar.arg, self.outside), eq.map3d(self.scalar.arg, self.outside)
        if self.outv is None:
            v2 = eq.map_vector2d(self.vt.arg, self.vp.arg, self.vn.arg)
            v3 = eq.map_vector3d(self.vt.arg, self.vp.arg, self.vn.arg)
        else:
            v2 = eq.map_vector2d(self.vt.arg, self.vp.arg, self.vn.arg, self.outv)
            v3 = eq.map_vector3d(self.vt.arg, self.vp.arg, self.vn.arg, self.outv)
        return f2, f3, v2, v3


# ---------------------------------------------------------------------------------------------
# running the implementation at one point
# ---------------------------------------------------------------------------------------------
def v3(v):
    return (float(v.x), float(v.y), float(v.z))


_PROBE = {}


def mapper_radii(x, y, z):
    """The radius the implementation's own AxisymmetricMapper / VectorAxisymmetricMapper hand to the
    2-D function at (x, y, z): read by wrapping a recording function (no assumption on how the
    radius is computed: sqrt(x*x + y*y), hypot(x, y), ...)."""
    if not _PROBE:
        from raysect.core import Vector3D
        from cherab.core.math import AxisymmetricMapper, VectorAxisymmetricMapper
        rec = []

        def fs(r, zz):
            rec.append(float(r))
            return 0.0

        def fv(r, zz):
            rec.append(float(r))
            return Vector3D(0, 0, 0)
        _PROBE.update(rec=rec, s=AxisymmetricMapper(fs), v=VectorAxisymmetricMapper(fv))
    rec = _PROBE["rec"]
    del rec[:]
    _PROBE["s"](x, y, z)
    _PROBE["v"](x, y, z)
    assert len(rec) == 2, rec
    return rec[0], rec[1]


def evaluate_point(E, PS, fns, x, y, z, which="scalar"):
    """Everything the implementation returns at (x, y, z) / (sqrt(x^2+y^2), z) plus the values of the
    functions the model takes as given.  An exception raised by the implementation at a point of the
    domain is recorded under o["errors"] (it is a finding, reported by the caller)."""
    eq = E.eq
    f2, f3, w2, w3 = fns
    # r is the radius the implementation's mapper really uses (last bit included); Coq validates it
    # against the exact x^2 + y^2.  If the scalar and the vector mapper ever disagree about it, the point
    # is evaluated once per mapper (`which`) and the other mapper's 3-D stage is skipped in that case.
    r_s, r_v = mapper_radii(x, y, z)
    r = r_s if which == "scalar" else r_v
    out = {"x": x, "y": y, "z": z, "r": r, "errors": {}, "r_scalar_mapper": r_s, "r_vector_mapper": r_v,
           "skip": 0 if r_s == r_v else (10 if which == "scalar" else 4)}

    from fractions import Fraction
    a2 = Fraction(x) ** 2 + Fraction(y) ** 2
    bad = [rr for rr in (r_s, r_v) if not (math.isfinite(rr) and rr >= 0 and abs(Fraction(rr) ** 2 - a2) <= a2 / 2 ** 49)]
    if bad:
        # not a last-bit matter: the mapper evaluates the 2-D function at a radius that is not sqrt(x^2+y^2)
        out["errors"]["mapper_radius"] = "radius %r handed to the 2-D function is not sqrt(x^2+y^2) = %r within 2^-50" % (
            bad[0], math.sqrt(float(a2)))
        out.update(psin=None, inside=None)
        return out

    def call(name, fn, conv):
        try:
            out[name] = conv(fn())
        except Exception as e:       # reported as a violation with this point as the failing input
            out[name] = None
            out["errors"][name] = "%s: %s" % (type(e).__name__, str(e)[:200])

    call("psi", lambda: eq.psi(r, z), float)
    call("psin", lambda: eq.psi_normalised(r, z), float)
    out["poly"] = float(E.poly_mask(r, z))
    call("inside", lambda: eq.inside_lcfs(r, z), float)
    out["dr"] = float(E.dpsidr(r, z))
    out["dz"] = float(E.dpsidz(r, z))
    call("b", lambda: eq.b_field(r, z), v3)
    call("tor", lambda: eq.toroidal_vector(r, z), v3)
    call("pol", lambda: eq.poloidal_vector(r, z), v3)
    call("nor", lambda: eq.surface_normal(r, z), v3)
    call("map2d", lambda: f2(r, z), float)
    call("map3d", lambda: f3(x, y, z), float)
    call("v2", lambda: w2(r, z), v3)
    call("v3", lambda: w3(x, y, z), v3)
    p = out["psin"]
    if p is not None:
        out["f"] = float(E.f_ref(p)) if E.f_range[0] <= p <= E.f_range[1] else 0.0
        out["prof"] = PS.scalar.value(p)
        out["vt"], out["vp"], out["vn"] = PS.vt.value(p), PS.vp.value(p), PS.vn.value(p)
    phi = math.atan2(y, x) / math.pi * 180
    ang = math.pi * phi / 180.0
    out["cs"] = (math.cos(ang), math.sin(ang))
    return out


# ---------------------------------------------------------------------------------------------
# the executable statement of the property on the implementation
# ---------------------------------------------------------------------------------------------
def dot(a, b):
    return a[0] * b[0] + a[1] * b[1] + a[2] * b[2]


def cross(a, b):
    return (a[1] * b[2] - a[2] * b[1], a[2] * b[0] - a[0] * b[2], a[0] * b[1] - a[1] * b[0])


def norm(a):
    return math.sqrt(dot(a, a))


def rotz(c, s, v):
    return (c * v[0] - s * v[1], s * v[0] + c * v[1], v[2])


TOL = 1e-9


def property_failures(E, PS, fns, o, poly_mask_value=None):
    """List of clauses of C12 that fail at the evaluated point `o` (empty list: the property holds
    there).  Everything is checked against the implementation's own outputs only."""
    eq = E.eq
    f2, f3, w2, w3 = fns
    fails = []
    x, y, z, r = o["x"], o["y"], o["z"], o["r"]
    p = o["psin"]

    def fail(clause, **kw):
        fails.append(dict(kw, clause=clause))

    # normalised flux is never negative, and it is the normalised interpolated flux
    if not p >= 0.0:
        fail("normalised flux is negative", psi_n=p)
    want = max(0.0, (o["psi"] - E.psi_axis) / (E.psi_lcfs - E.psi_axis))
    ptol = 1e-10 * (1 + (abs(o["psi"]) + abs(E.psi_axis)) / abs(E.psi_lcfs - E.psi_axis))
    if abs(p - want) > ptol:
        fail("psi_normalised is not (psi - psi_axis)/(psi_lcfs - psi_axis) clamped at 0", psi_n=p, expected=want)
    # inside the LCFS: inside the polygon (independent even-odd test) and psi_n <= 1
    inpoly, dist = point_in_polygon(E.poly, r, z)
    decided = dist > 1e-7 and (abs(p - 1.0) > 1e-9 or (p == 1.0 and o["psi"] == E.psi_lcfs))
    inside = inpoly and p <= 1.0
    if decided:
        if (o["inside"] != 0.0) != inside or o["inside"] not in (0.0, 1.0):
            fail("inside_lcfs differs from (inside polygon and psi_n <= 1)", inside_lcfs=o["inside"], expected=inside,
                 in_polygon=inpoly, psi_n=p)
        exp2 = PS.scalar.value(p) if inside else PS.outside
        if not (o["map2d"] == exp2 or abs(o["map2d"] - exp2) <= 1e-12 * abs(exp2)):
            fail("map2d is not profile(psi_n) inside the LCFS / the outside value elsewhere", got=o["map2d"], expected=exp2,
                 inside=inside, psi_n=p)
        if not (o["map3d"] == exp2 or abs(o["map3d"] - exp2) <= 1e-12 * abs(exp2)):
            fail("map3d(x, y, z) is not the mapped value at (sqrt(x^2+y^2), z)", got=o["map3d"], expected=exp2, inside=inside)
    # basis
    b, t, pv, nv = o["b"], o["tor"], o["pol"], o["nor"]
    bin_ = math.hypot(b[0], b[2])
    degenerate = bin_ == 0.0
    if t != (0.0, 1.0, 0.0):
        fail("toroidal vector is not (0, 1, 0) in the poloidal plane", got=t)
    if not degenerate:
        for nm, a, c in (("toroidal.poloidal", t, pv), ("toroidal.normal", t, nv), ("poloidal.normal", pv, nv)):
            if abs(dot(a, c)) > TOL:
                fail("basis vectors are not orthogonal: " + nm, dot=dot(a, c))
        for nm, a in (("poloidal", pv), ("normal", nv)):
            if abs(norm(a) - 1.0) > TOL:
                fail("basis vector is not of unit length: " + nm, length=norm(a))
        cr = cross(pv, t)
        if max(abs(cr[i] - nv[i]) for i in range(3)) > TOL:
            fail("normal is not poloidal x toroidal", normal=nv, cross=cr)
        along = (b[0] / bin_, 0.0, b[2] / bin_)
        if max(abs(along[i] - pv[i]) for i in range(3)) > TOL:
            fail("poloidal vector is not along the in-plane field", poloidal=pv, field_direction=along)
        if abs(dot(b, nv)) > TOL * norm(b):
            fail("field has a component along the surface normal", b_dot_n=dot(b, nv))
    # mapped velocity, 2-D
    outv = PS.outv_t
    if decided:
        v2_ = o["v2"]
        scale = abs(PS.vt.value(p)) + abs(PS.vp.value(p)) + abs(PS.vn.value(p)) + 1e-300
        if not inside:
            if max(abs(v2_[i] - outv[i]) for i in range(3)) > 0.0:
                fail("map_vector2d outside the LCFS is not the outside vector", got=v2_, expected=outv)
        elif not degenerate:
            comps = (dot(v2_, t), dot(v2_, pv), dot(v2_, nv))
            exp = (PS.vt.value(p), PS.vp.value(p), PS.vn.value(p))
            if max(abs(comps[i] - exp[i]) for i in range(3)) > TOL * scale:
                fail("mapped velocity does not have the prescribed (toroidal, poloidal, normal) components",
                     components=comps, expected=exp)
            resid = tuple(v2_[i] - (comps[0] * t[i] + comps[1] * pv[i] + comps[2] * nv[i]) for i in range(3))
            if max(abs(c) for c in resid) > TOL * scale:
                fail("mapped velocity has a part outside the span of the basis", residual=resid)
        # 3-D: rotated by the toroidal angle of (x, y)
        if r > 0:
            c, s = x / r, y / r
            v3_ = o["v3"]
            want3 = rotz(c, s, v2_)
            sc3 = scale if inside else (max(abs(k) for k in outv) + 1e-300)
            if max(abs(v3_[i] - want3[i]) for i in range(3)) > TOL * sc3:
                fail("map_vector3d is not map_vector2d rotated by the toroidal angle", got=v3_, expected=want3)
    return fails


def axisymmetry_failures(E, PS, fns, o, rng):
    """map3d / map_vector3d at the same (r, z) and other toroidal angles."""
    f2, f3, w2, w3 = fns
    fails = []
    r, z, p = o["r"], o["z"], o["psin"]
    inpoly, dist = point_in_polygon(E.poly, r, z)
    if dist < 1e-6 or abs(p - 1.0) < 1e-6 or not (E.r[0] + 1e-6 < r < E.r[-1] - 1e-6):
        return fails
    base = o["map3d"]
    for phi in (rng.uniform(-math.pi, math.pi), math.pi / 2, math.pi):
        c, s = math.cos(phi), math.sin(phi)
        val = float(f3(r * c, r * s, z))
        if abs(val - base) > 1e-7 * (abs(base) + 1e-3):
            fails.append({"clause": "map3d is not axisymmetric", "phi": phi, "value": val, "at_given_point": base})
        vv = v3(w3(r * c, r * s, z))
        # cylindrical components must not depend on phi
        cyl = (c * vv[0] + s * vv[1], -s * vv[0] + c * vv[1], vv[2])
        cyl0 = o["v2"]
        sc = max(abs(k) for k in cyl0) + 1e-3
        if max(abs(cyl[i] - cyl0[i]) for i in range(3)) > 1e-7 * sc:
            fails.append({"clause": "cylindrical components of map_vector3d depend on the toroidal angle", "phi": phi,
                          "components": cyl, "in_plane_y0": cyl0})
    return fails


def flux_surface_angles(E, o):
    """sin of the angle between the surface normal and grad(psi) of the implementation's interpolated
    psi (central differences), and |cos| of the angle between the in-plane field and grad(psi); None
    where grad(psi) is small or the point is at the edge of the domain."""
    eq = E.eq
    r, z = o["r"], o["z"]
    h = 1e-5
    if not (E.r[0] + 2 * h < r < E.r[-1] - 2 * h and E.z[0] + 2 * h < z < E.z[-1] - 2 * h):
        return None
    gr = (eq.psi(r + h, z) - eq.psi(r - h, z)) / (2 * h)
    gz = (eq.psi(r, z + h) - eq.psi(r, z - h)) / (2 * h)
    g = math.hypot(gr, gz)
    typical = abs(E.psi_lcfs - E.psi_axis) / (E.r[-1] - E.r[0])
    nv, b = o["nor"], o["b"]
    bin_ = math.hypot(b[0], b[2])
    if g < 0.3 * typical or norm(nv) == 0.0 or bin_ == 0.0:
        return None
    return {"sin_normal_gradpsi": abs(nv[0] * gz - nv[2] * gr) / g, "cos_field_gradpsi": abs(b[0] * gr + b[2] * gz) / (g * bin_),
            "grad_psi": (gr, gz), "normal": nv, "b": b, "r": r, "z": z}


def flux_surface_failures(E, angles):
    """The surface normal is perpendicular to the flux surface and the field lies in it.  The code's
    d psi comes from second-order differences of the grid, the reference from the cubic interpolant,
    so single points differ (measured: up to 0.8 at kinks of psi, median <= 0.025 on every grid); the
    claim checked is about the MEDIAN over the sampled points of one equilibrium (<= 0.1): sign or
    axis mix-ups give a median of order 1."""
    angles = [a for a in angles if a is not None]
    if len(angles) < 10:
        return []
    fails = []
    for key, clause in (("sin_normal_gradpsi", "surface normal is not perpendicular to the flux surface (not parallel to grad psi)"),
                        ("cos_field_gradpsi", "in-plane field is not tangent to the flux surface")):
        vals = sorted(a[key] for a in angles)
        med = vals[len(vals) // 2]
        if med > 0.1:
            worst = max(angles, key=lambda a: a[key])
            fails.append(dict(worst, clause=clause, median_over_points=med, points=len(vals)))
    return fails
