"""Translator for C13: regenerates the routing table of Model/C13_Table.v from the CURRENT .pyx sources.

For every `cdef class` of the anchored wrapper files the body of its `evaluate` method is parsed (it is Python syntax once
the `cdef` declarations are dropped) and executed symbolically into the small language of Model/C13_Table.v.
Fail-closed: any statement or expression outside the recognised shapes raises TranslateError, which the check reports
as a failed tie."""
import ast
import os
import re
import textwrap

FILES = ["cherab/core/math/mappers.pyx", "cherab/core/math/clamp.pyx", "cherab/core/math/slice.pyx", "cherab/core/math/mask.pyx",
         "cherab/core/math/transform/periodic.pyx", "cherab/core/math/transform/cylindrical.pyx"]
NOT_IN_TABLE = []


class TranslateError(Exception):
    pass


def _classes(text):
    """[(class name, text of the class body)]"""
    out = []
    ms = list(re.finditer(r"^cdef class (\w+)\(.*\):\s*$", text, re.M))
    for i, m in enumerate(ms):
        out.append((m.group(1), text[m.end():ms[i + 1].start() if i + 1 < len(ms) else len(text)]))
    return out


def _evaluate_body(cls_text, cname):
    m = re.search(r"^(\s+)cdef\s+\w+\s+evaluate\(self,\s*([^)]*)\)[^\n]*:\s*\n", cls_text, re.M)
    if not m:
        raise TranslateError("%s: no evaluate method found" % cname)
    ind = len(m.group(1))
    params = [p.split()[-1] for p in m.group(2).split(",")]
    lines = []
    for ln in cls_text[m.end():].split("\n"):
        if ln.strip() and (len(ln) - len(ln.lstrip())) <= ind:
            break
        lines.append(ln)
    # drop cdef declarations: "cdef double r, phi" and the block form "cdef:" + deeper lines
    kept, skip_ind = [], None
    for ln in lines:
        st = ln.strip()
        cur = len(ln) - len(ln.lstrip())
        if skip_ind is not None:
            if st == "" or cur > skip_ind:
                continue
            skip_ind = None
        if st == "cdef:":
            skip_ind = cur
            continue
        if st.startswith("cdef "):
            continue
        kept.append(ln)
    return params, textwrap.dedent("\n".join(kept))


def _term(e, env, cname):
    if isinstance(e, ast.Name):
        if e.id in env:
            return env[e.id]
        raise TranslateError("%s: unknown name %s" % (cname, e.id))
    if (isinstance(e, ast.Subscript) and isinstance(e.value, ast.Name) and isinstance(e.slice, ast.Constant)
            and "%s[%s]" % (e.value.id, e.slice.value) in env):
        return env["%s[%s]" % (e.value.id, e.slice.value)]
    if isinstance(e, ast.Attribute) and isinstance(e.value, ast.Name) and e.value.id == "self":
        return 'RAttr "%s"' % e.attr
    if isinstance(e, ast.Call) and isinstance(e.func, ast.Name) and not e.keywords:
        a = [_term(t, env, cname) for t in e.args]
        if e.func.id == "clamp" and len(a) == 3:
            return "RClamp (%s) (%s) (%s)" % tuple(a)
        if e.func.id == "remainder" and len(a) == 2:
            return "RRem (%s) (%s)" % tuple(a)
        if e.func.id == "hypot" and len(a) == 2:
            return "RHypot (%s) (%s)" % tuple(a)
        if e.func.id == "atan2" and len(a) == 2:
            return "RAtan2 (%s) (%s)" % tuple(a)
    # t / M_PI * 180
    if (isinstance(e, ast.BinOp) and isinstance(e.op, ast.Mult) and isinstance(e.right, ast.Constant) and e.right.value == 180
            and isinstance(e.left, ast.BinOp) and isinstance(e.left.op, ast.Div)
            and isinstance(e.left.right, ast.Name) and e.left.right.id == "M_PI"):
        return "RDeg (%s)" % _term(e.left.left, env, cname)
    raise TranslateError("%s: expression not recognised: %s" % (cname, ast.dump(e)[:200]))


def _is_inner_call(e):
    return (isinstance(e, ast.Call) and isinstance(e.func, ast.Attribute) and e.func.attr == "evaluate" and not e.keywords
            and isinstance(e.func.value, ast.Attribute) and isinstance(e.func.value.value, ast.Name) and e.func.value.value.id == "self")


def _inner_call(e, env, cname):
    """self.<fn>.evaluate(args) -> (fn, [terms])"""
    if _is_inner_call(e):
        return e.func.value.attr, [_term(a, env, cname) for a in e.args]
    return None


def _return(e, env, cname):
    # g(f(x)): self.<outer>.evaluate(self.<inner>.evaluate(...))
    if _is_inner_call(e) and len(e.args) == 1 and _is_inner_call(e.args[0]):
        inner = _inner_call(e.args[0], env, cname)
        return 'RCall "%s" [%s] (PIso "%s")' % (inner[0], "; ".join(inner[1]), e.func.value.attr)
    ic = _inner_call(e, env, cname)
    if ic:
        return 'RCall "%s" [%s] PNone' % (ic[0], "; ".join(ic[1]))
    # clamp(self._f.evaluate(...), self._min, self._max)
    if isinstance(e, ast.Call) and isinstance(e.func, ast.Name) and e.func.id == "clamp" and len(e.args) == 3:
        inner = _inner_call(e.args[0], env, cname)
        if inner:
            return 'RCall "%s" [%s] (PClampOut (%s) (%s))' % (inner[0], "; ".join(inner[1]), _term(e.args[1], env, cname), _term(e.args[2], env, cname))
    # <call>.transform(rotate_z(t))
    if (isinstance(e, ast.Call) and isinstance(e.func, ast.Attribute) and e.func.attr == "transform" and len(e.args) == 1
            and isinstance(e.args[0], ast.Call) and isinstance(e.args[0].func, ast.Name) and e.args[0].func.id == "rotate_z"
            and len(e.args[0].args) == 1):
        inner = _inner_call(e.func.value, env, cname)
        if inner:
            return 'RCall "%s" [%s] (PRotZ (%s))' % (inner[0], "; ".join(inner[1]), _term(e.args[0].args[0], env, cname))
    raise TranslateError("%s: return expression not recognised: %s" % (cname, ast.dump(e)[:300]))


def _swizzle_loop(st, env, cname):
    """exactly:  for i in range(3): if self.shape[i] == 0: d[i] = <arg 0> elif ... == 1: d[i] = <arg 1> elif ... == 2: d[i] = <arg 2>
    else: raise ValueError(...)      ->  env['d[k]'] = RPick k"""
    def shape_test(t, k):
        return (isinstance(t, ast.Compare) and len(t.ops) == 1 and isinstance(t.ops[0], ast.Eq)
                and ast.dump(t.left) == ast.dump(ast.parse("self.shape[i]", mode="eval").body)
                and isinstance(t.comparators[0], ast.Constant) and t.comparators[0].value == k)

    def assigns(body, k):
        return (len(body) == 1 and isinstance(body[0], ast.Assign) and len(body[0].targets) == 1
                and ast.dump(body[0].targets[0]) == ast.dump(ast.parse("d[i]", mode="eval").body).replace("Load()", "Store()", 1).replace(
                    "ctx=Load()), ctx=Store", "ctx=Load()), ctx=Store")
                and isinstance(body[0].value, ast.Name) and env.get(body[0].value.id) == "RArg %d" % k)
    ok = (isinstance(st.target, ast.Name) and st.target.id == "i" and not st.orelse
          and ast.dump(st.iter) == ast.dump(ast.parse("range(3)", mode="eval").body) and len(st.body) == 1 and isinstance(st.body[0], ast.If))
    node, k = (st.body[0] if ok else None), 0
    while ok and k < 3:
        tgt = node.body[0].targets[0] if (len(node.body) == 1 and isinstance(node.body[0], ast.Assign)) else None
        ok = (shape_test(node.test, k) and tgt is not None and isinstance(tgt, ast.Subscript) and isinstance(tgt.value, ast.Name)
              and tgt.value.id == "d" and isinstance(tgt.slice, ast.Name) and tgt.slice.id == "i"
              and isinstance(node.body[0].value, ast.Name) and env.get(node.body[0].value.id) == "RArg %d" % k)
        if k < 2:
            ok = ok and len(node.orelse) == 1 and isinstance(node.orelse[0], ast.If)
            node = node.orelse[0] if ok else None
        else:
            ok = (ok and len(node.orelse) == 1 and isinstance(node.orelse[0], ast.Raise) and isinstance(node.orelse[0].exc, ast.Call)
                  and isinstance(node.orelse[0].exc.func, ast.Name) and node.orelse[0].exc.func.id == "ValueError")
        k += 1
    if not ok:
        raise TranslateError("%s: loop not recognised: %s" % (cname, ast.dump(st)[:300]))
    for k in range(3):
        env["d[%d]" % k] = "RPick %d" % k


def _block(stmts, env, cname):
    env = dict(env)
    for i, st in enumerate(stmts):
        if isinstance(st, ast.Expr) and isinstance(st.value, ast.Constant) and isinstance(st.value.value, str):
            continue                                           # docstring
        if isinstance(st, ast.Assign) and len(st.targets) == 1:
            tg = st.targets[0]
            if isinstance(tg, ast.Name):
                env[tg.id] = _term(st.value, env, cname)
                continue
            if isinstance(tg, ast.Tuple) and isinstance(st.value, ast.Tuple) and len(tg.elts) == len(st.value.elts) \
                    and all(isinstance(t, ast.Name) for t in tg.elts):
                vals = [_term(v, env, cname) for v in st.value.elts]
                for t, v in zip(tg.elts, vals):
                    env[t.id] = v
                continue
        if isinstance(st, ast.Return) and st.value is not None:
            return _return(st.value, env, cname)
        if isinstance(st, ast.For):
            _swizzle_loop(st, env, cname)
            continue
        if isinstance(st, ast.If):
            t = st.test
            if (isinstance(t, ast.Compare) and len(t.ops) == 1 and isinstance(t.ops[0], ast.Eq)
                    and isinstance(t.left, ast.Attribute) and isinstance(t.left.value, ast.Name) and t.left.value.id == "self"
                    and t.left.attr == "axis" and isinstance(t.comparators[0], ast.Constant) and isinstance(t.comparators[0].value, int)):
                yes = _block(st.body, env, cname)
                no = _block(st.orelse if st.orelse else stmts[i + 1:], env, cname)
                return "RIfAxis %d (%s) (%s)" % (t.comparators[0].value, yes, no)
        raise TranslateError("%s: statement not recognised: %s" % (cname, ast.dump(st)[:300]))
    raise TranslateError("%s: evaluate does not end with a return" % cname)


def translate(repo):
    """-> (Coq text of Gen/C13/Table.v, [class names], [skipped])"""
    entries, skipped = [], []
    for f in FILES:
        text = open(os.path.join(repo, f)).read()
        for cname, ctext in _classes(text):
            if cname in NOT_IN_TABLE:
                skipped.append(cname)
                continue
            params, body = _evaluate_body(ctext, cname)
            try:
                tree = ast.parse(body)
            except SyntaxError as e:
                raise TranslateError("%s: evaluate body is not parseable: %s" % (cname, e))
            env = {p: "RArg %d" % i for i, p in enumerate(params)}
            entries.append((cname, _block(tree.body, env, cname)))
    txt = ("(* generated by harness/c13_translate.py from the current sources of %s *)\n"
           "Require Import Cherab.Common.Qx Cherab.Model.C13_Table.\nFrom Coq Require Import String.\nOpen Scope string_scope.\n"
           "Definition generated_table : list (string * rbody) := [\n  %s\n].\n"
           "Definition generated_not_in_table : list string := [%s].\n"
           % (", ".join(os.path.basename(f) for f in FILES),
              ";\n  ".join('("%s", %s)' % (n, b) for n, b in entries), "; ".join('"%s"' % s for s in skipped)))
    return txt, [n for n, _ in entries], skipped


# ---------------------------------------------------------------------------------------------------------------------
# samplers.pyx: the loop nest, index order, argument order, axis construction, range checks and return order of each of
# the 14 sampling functions, as a descriptor (Model/C13_Table.v: sdesc)
# ---------------------------------------------------------------------------------------------------------------------
SAMPLER_FILE = "cherab/core/math/samplers.pyx"


def _strip_cdef(lines):
    kept, skip_ind = [], None
    for ln in lines:
        st = ln.strip()
        cur = len(ln) - len(ln.lstrip())
        if skip_ind is not None:
            if st == "" or cur > skip_ind:
                continue
            skip_ind = None
        if st == "cdef:":
            skip_ind = cur
            continue
        if st.startswith("cdef "):
            continue
        kept.append(ln)
    return kept


def _src(e):
    return ast.unparse(e)


def _sampler_desc(name, params, body):
    tree = ast.parse(body)
    defs, checks, loops, ret = {}, [], None, None
    for st in tree.body[0].body:
        if isinstance(st, ast.Expr) and isinstance(st.value, ast.Constant):
            continue
        if isinstance(st, ast.If) and len(st.body) == 1 and isinstance(st.body[0], ast.Raise) and not st.orelse \
                and isinstance(st.body[0].exc, ast.Call) and _src(st.body[0].exc.func) == "ValueError":
            t = _src(st.test)
            m = (re.fullmatch(r"len\((\w+)\) != 3", t) or re.fullmatch(r"(\w+)\[0\] > \1\[1\]", t) or re.fullmatch(r"(\w+)\[2\] < 1", t))
            if m and m.group(1) in params:
                kind = "len" if t.startswith("len") else "order" if ">" in t else "count"
                checks.append((params.index(m.group(1)) - 1, kind))
                continue
            m = re.fullmatch(r"points\.ndim != 2 or points\.shape\[1\] != (\d)", t)
            if m:
                checks.append((int(m.group(1)), "points_shape"))
                continue
            m = re.fullmatch(r"(\w+)\.ndim != 1", t)
            if m and m.group(1) in params:
                checks.append((params.index(m.group(1)) - 1, "ndim"))
                continue
            raise TranslateError("%s: check not recognised: %s" % (name, t))
        if isinstance(st, ast.Assign) and len(st.targets) == 1 and isinstance(st.targets[0], ast.Name):
            defs.setdefault(st.targets[0].id, []).append(_src(st.value))
            continue
        if isinstance(st, ast.For):
            if loops is not None:
                raise TranslateError("%s: more than one loop nest" % name)
            loops = st
            continue
        if isinstance(st, ast.Return):
            ret = [_src(e) for e in (st.value.elts if isinstance(st.value, ast.Tuple) else [st.value])]
            continue
        raise TranslateError("%s: statement not recognised: %s" % (name, _src(st)[:120]))
    if loops is None or ret is None:
        raise TranslateError("%s: no loop nest / return" % name)
    # the loop nest
    lvars, lbounds, node = [], [], loops
    while True:
        if not (isinstance(node.target, ast.Name) and re.fullmatch(r"range\(\w+\)", _src(node.iter)) and not node.orelse):
            raise TranslateError("%s: loop header not recognised: %s" % (name, _src(node.iter)))
        lvars.append(node.target.id)
        lbounds.append(_src(node.iter)[6:-1])
        if len(node.body) == 1 and isinstance(node.body[0], ast.For):
            node = node.body[0]
        else:
            break
    inner = node.body
    # scalar:  v_view[i, j, k] = f.evaluate(x_view[i], ...)      vector: vector = f.evaluate(...); v_view[i, j, k, c] = vector.<comp>
    comps = []
    if len(inner) == 1:
        m = re.fullmatch(r"v_view\[(.*)\] = \w+\.evaluate\((.*)\)", _src(inner[0]))
        if not m:
            raise TranslateError("%s: loop body not recognised: %s" % (name, _src(inner[0])))
        store, call = m.group(1), m.group(2)
    elif len(inner) == 4 and re.fullmatch(r"vector = \w+\.evaluate\((.*)\)", _src(inner[0])):
        call = re.fullmatch(r"vector = \w+\.evaluate\((.*)\)", _src(inner[0])).group(1)
        store = None
        for st in inner[1:]:
            m = re.fullmatch(r"v_view\[(.*), (\d)\] = vector\.([xyz])", _src(st))
            if not m or (store is not None and m.group(1) != store):
                raise TranslateError("%s: vector store not recognised: %s" % (name, _src(st)))
            store = m.group(1)
            comps.append((int(m.group(2)), "xyz".index(m.group(3))))
    else:
        raise TranslateError("%s: loop body not recognised" % name)
    store = [lvars.index(t.strip()) for t in store.split(",")]
    # the arrays behind the views
    axes, axis_of_array, args = [], {}, []
    for a in [t.strip() for t in call.split(",")]:
        m = re.fullmatch(r"(\w+)_view\[(\w+)\]", a)
        if not m or m.group(2) not in lvars:
            raise TranslateError("%s: evaluate argument not recognised: %s" % (name, a))
        view = m.group(1) + "_view"
        if len(defs.get(view, [])) != 1:
            raise TranslateError("%s: view %s is not assigned exactly once" % (name, view))
        arr = defs[view][0]
        if arr not in axis_of_array:
            d = defs.get(arr, [])
            if len(d) != 1:
                raise TranslateError("%s: array %s is not assigned exactly once" % (name, arr))
            m2 = re.fullmatch(r"linspace\((\w+)\[0\], \1\[1\], (\w+)\)", d[0])
            m3 = re.fullmatch(r"ascontiguousarray\((\w+), dtype=float\)", d[0])
            m4 = re.fullmatch(r"ascontiguousarray\(points\[:, (\d)\], dtype=float\)", d[0])
            if m2 and m2.group(1) in params and defs.get(m2.group(2)) == ["%s[2]" % m2.group(1)]:
                src = "AxLin %d" % (params.index(m2.group(1)) - 1)
                lens = [m2.group(2)]
            elif m3 and m3.group(1) in params:
                src = "AxGiven %d" % (params.index(m3.group(1)) - 1)
                lens = [k for k, v in defs.items() if v in (["%s.shape[0]" % arr], ["len(%s)" % arr])]
            elif m4:
                src = "AxColumn %s" % m4.group(1)
                lens = [k for k, v in defs.items() if v == ["points.shape[0]"]]
            else:
                raise TranslateError("%s: construction of %s not recognised: %s" % (name, arr, d[0]))
            axis_of_array[arr] = (len(axes), lens)
            axes.append(src)
        args.append((axis_of_array[arr][0], lvars.index(m.group(2))))
    bounds = []
    for b in lbounds:
        hit = [ix for arr, (ix, lens) in axis_of_array.items() if b in lens]
        if not hit:
            raise TranslateError("%s: loop bound %s is not the length of a coordinate array" % (name, b))
        bounds.append(min(hit))
    rnames = []
    for r in ret:
        if r == "v":
            rnames.append("v")
        elif r in axis_of_array:
            rnames.append("axis%d" % axis_of_array[r][0])
        else:
            raise TranslateError("%s: returned name not recognised: %s" % (name, r))
    vshape = defs.get("v", [""])[0]
    return ('{| sd_axes := [%s]; sd_bounds := [%s]; sd_store := [%s]; sd_args := [%s]; sd_comps := [%s]; sd_checks := [%s]; sd_return := [%s] |}'
            % ("; ".join(axes), "; ".join("%d%%nat" % b for b in bounds), "; ".join("%d%%nat" % s for s in store),
               "; ".join("(%d%%nat, %d%%nat)" % a for a in args), "; ".join("(%d%%nat, %d%%nat)" % c for c in comps),
               "; ".join('(%d%%Z, "%s")' % c for c in checks), "; ".join('"%s"' % r for r in rnames))), vshape


def translate_samplers(repo):
    text = open(os.path.join(repo, SAMPLER_FILE)).read()
    ms = list(re.finditer(r"^cpdef [\w.]+ (\w+)\(([^)]*)\):\s*$", text, re.M))
    entries = []
    for i, m in enumerate(ms):
        name = m.group(1)
        params = [p.split()[-1] for p in m.group(2).split(",")]
        chunk = text[m.end():ms[i + 1].start() if i + 1 < len(ms) else len(text)]
        lines = [ln for ln in chunk.split("\n") if not ln.startswith("@")]
        body = "def _f():\n" + "\n".join(_strip_cdef(lines))
        try:
            desc, _ = _sampler_desc(name, params, body)
        except SyntaxError as e:
            raise TranslateError("%s: body is not parseable: %s" % (name, e))
        entries.append((name, desc))
    txt = ("Definition generated_samplers : list (string * sdesc) := [\n  %s\n].\n"
           % ";\n  ".join('("%s", %s)' % e for e in entries))
    return txt, [n for n, _ in entries]


# ---------------------------------------------------------------------------------------------------------------------
# periodic.pxd: the inline function remainder(x1, x2) as a program of Model/C13_Table.v (fstmt)
# ---------------------------------------------------------------------------------------------------------------------
PXD_FILE = "cherab/core/math/transform/periodic.pxd"


def _fexpr(e):
    if isinstance(e, ast.Name):
        return 'FVar "%s"' % e.id
    if isinstance(e, ast.Constant) and e.value == 0 and not isinstance(e.value, bool):
        return "FZero"
    if isinstance(e, ast.Call) and isinstance(e.func, ast.Name) and not e.keywords:
        if e.func.id == "fmod" and len(e.args) == 2:
            return "FFmod (%s) (%s)" % (_fexpr(e.args[0]), _fexpr(e.args[1]))
        if (e.func.id == "nextafter" and len(e.args) == 2 and isinstance(e.args[1], ast.Constant) and e.args[1].value == 0):
            return "FNextafter0 (%s)" % _fexpr(e.args[0])
    if isinstance(e, ast.BinOp) and isinstance(e.op, ast.Add):
        return "FAdd (%s) (%s)" % (_fexpr(e.left), _fexpr(e.right))
    raise TranslateError("remainder: expression not recognised: %s" % ast.unparse(e))


def _fcond(t):
    if isinstance(t, ast.Compare) and len(t.ops) == 1 and len(t.comparators) == 1:
        if isinstance(t.ops[0], ast.Eq):
            return "FEq (%s) (%s)" % (_fexpr(t.left), _fexpr(t.comparators[0]))
        if isinstance(t.ops[0], ast.Lt):
            return "FLt (%s) (%s)" % (_fexpr(t.left), _fexpr(t.comparators[0]))
    raise TranslateError("remainder: condition not recognised: %s" % ast.unparse(t))


def _fstmts(stmts, top):
    out = []
    for st in stmts:
        if isinstance(st, ast.Assign) and len(st.targets) == 1 and isinstance(st.targets[0], ast.Name):
            out.append('FAssign "%s" (%s)' % (st.targets[0].id, _fexpr(st.value)))
        elif isinstance(st, ast.Return) and st.value is not None and top:
            out.append("FReturn (%s)" % _fexpr(st.value))
        elif isinstance(st, ast.If) and not st.orelse:
            if top and len(st.body) == 1 and isinstance(st.body[0], ast.Return) and st.body[0].value is not None:
                out.append("FIfReturn (%s) (%s)" % (_fcond(st.test), _fexpr(st.body[0].value)))
            else:
                out.append("FIf (%s) [%s]" % (_fcond(st.test), "; ".join(_fstmts(st.body, False))))
        else:
            raise TranslateError("remainder: statement not recognised: %s" % ast.unparse(st)[:120])
    return out


def translate_remainder(repo):
    text = open(os.path.join(repo, PXD_FILE)).read()
    m = re.search(r"^cdef inline double remainder\(double (\w+), double (\w+)\) nogil:\s*\n((?:[ \t]+.*\n|\s*\n)+)", text, re.M)
    if not m or (m.group(1), m.group(2)) != ("x1", "x2"):
        raise TranslateError("remainder: header not recognised")
    tree = ast.parse(textwrap.dedent(m.group(3)))
    return "Definition generated_remainder : list fstmt := [\n  %s\n].\n" % ";\n  ".join(_fstmts(tree.body, True))


# ---------------------------------------------------------------------------------------------------------------------
# __init__ of every wrapper class: the argument checks in source order (Model/C13_Table.v ctor_table)
# ---------------------------------------------------------------------------------------------------------------------
def _init_body(cls_text, cname):
    m = re.search(r"^(\s+)def __init__\(self,\s*([^)]*)\):\s*\n", cls_text, re.M)
    if not m:
        raise TranslateError("%s: no __init__ found" % cname)
    ind = len(m.group(1))
    lines = []
    for ln in cls_text[m.end():].split("\n"):
        if ln.strip() and (len(ln) - len(ln.lstrip())) <= ind:
            break
        lines.append(ln)
    return "def _f():\n" + "\n".join(lines)


def _zlist(e):
    if isinstance(e, ast.List) and all(isinstance(t, ast.Constant) and isinstance(t.value, int) for t in e.elts):
        return "[%s]%%Z" % "; ".join(str(t.value) for t in e.elts)
    return None


def _raise_name(st):
    if isinstance(st, ast.Raise) and isinstance(st.exc, ast.Call) and isinstance(st.exc.func, ast.Name):
        return st.exc.func.id
    return None


def _harmless(st):
    """assignments that only store / convert arguments"""
    return (isinstance(st, ast.Assign) or (isinstance(st, ast.Expr) and isinstance(st.value, ast.Constant))
            or (isinstance(st, ast.For) and all(isinstance(t, ast.Assign) for t in st.body) and not st.orelse))


def _ctor_checks(stmts, cname):
    out = []
    for st in stmts:
        if _harmless(st):
            continue
        if isinstance(st, ast.If) and not st.orelse and len(st.body) == 1 and _raise_name(st.body[0]):
            exc, t = _raise_name(st.body[0]), ast.unparse(st.test)
            m = re.fullmatch(r"not callable\((\w+)\)", t)
            if m:
                out.append('(CNotCallable ["%s"], "%s")' % (m.group(1), exc))
                continue
            m = re.fullmatch(r"not \(callable\((\w+)\) and callable\((\w+)\)\)", t)
            if m:
                out.append('(CNotCallable ["%s"; "%s"], "%s")' % (m.group(1), m.group(2), exc))
                continue
            m = re.fullmatch(r"(\w+) (>=|<=|<) (\w+)", t)
            if m and (m.group(3) == "0" or m.group(3).isidentifier()):
                out.append('(CCmp "%s" "%s" "%s", "%s")' % (m.group(2), m.group(1), m.group(3), exc))
                continue
            if (isinstance(st.test, ast.Compare) and len(st.test.ops) == 1 and isinstance(st.test.ops[0], ast.NotIn)
                    and isinstance(st.test.left, ast.Name) and st.test.left.id == "axis" and _zlist(st.test.comparators[0])):
                out.append('(CAxisNotIn %s, "%s")' % (_zlist(st.test.comparators[0]), exc))
                continue
            raise TranslateError("%s: check not recognised: %s" % (cname, t))
        # for i in shape: if i not in [0, 1, 2]: raise ValueError
        if (isinstance(st, ast.For) and ast.unparse(st.iter) == "shape" and len(st.body) == 1 and isinstance(st.body[0], ast.If)
                and not st.body[0].orelse and len(st.body[0].body) == 1 and _raise_name(st.body[0].body[0])
                and isinstance(st.body[0].test, ast.Compare) and isinstance(st.body[0].test.ops[0], ast.NotIn)
                and ast.unparse(st.body[0].test.left) == st.target.id and _zlist(st.body[0].test.comparators[0])):
            out.append('(CShapeEntry %s, "%s")' % (_zlist(st.body[0].test.comparators[0]), _raise_name(st.body[0].body[0])))
            continue
        # if isinstance(shape, tuple) and len(shape) == 3: <store> else: raise TypeError
        if (isinstance(st, ast.If) and ast.unparse(st.test) == "isinstance(shape, tuple) and len(shape) == 3"
                and all(_harmless(t) for t in st.body) and len(st.orelse) == 1 and _raise_name(st.orelse[0])):
            out.append('(CShapeNotTuple3, "%s")' % _raise_name(st.orelse[0]))
            continue
        # if isinstance(axis, str): map = {...}; try: axis = map[axis.lower()] except KeyError: raise ValueError
        if (isinstance(st, ast.If) and ast.unparse(st.test) == "isinstance(axis, str)" and not st.orelse and len(st.body) == 2
                and isinstance(st.body[0], ast.Assign) and isinstance(st.body[0].value, ast.Dict) and isinstance(st.body[1], ast.Try)):
            d, tr = st.body[0].value, st.body[1]
            ok = (all(isinstance(k, ast.Constant) and isinstance(k.value, str) and isinstance(v, ast.Constant) and isinstance(v.value, int)
                      for k, v in zip(d.keys, d.values))
                  and len(tr.body) == 1 and ast.unparse(tr.body[0]) == "axis = %s[axis.lower()]" % st.body[0].targets[0].id
                  and len(tr.handlers) == 1 and ast.unparse(tr.handlers[0].type) == "KeyError" and len(tr.handlers[0].body) == 1
                  and _raise_name(tr.handlers[0].body[0]) and not tr.orelse and not tr.finalbody)
            if ok:
                out.append('(CAxisName [%s]%%Z, "%s")' % ("; ".join('("%s", %d)' % (k.value, v.value) for k, v in zip(d.keys, d.values)),
                                                          _raise_name(tr.handlers[0].body[0])))
                continue
        raise TranslateError("%s.__init__: statement not recognised: %s" % (cname, ast.unparse(st)[:160]))
    return out


def translate_ctors(repo):
    entries = []
    for f in FILES:
        text = open(os.path.join(repo, f)).read()
        for cname, ctext in _classes(text):
            try:
                tree = ast.parse(_init_body(ctext, cname))
            except SyntaxError as e:
                raise TranslateError("%s.__init__ is not parseable: %s" % (cname, e))
            entries.append((cname, _ctor_checks(tree.body[0].body, cname)))
    return ("Definition generated_ctors : list (string * list (ccond * string)) := [\n  %s\n].\n"
            % ";\n  ".join('("%s", [%s])' % (n, "; ".join(c)) for n, c in entries)), [n for n, _ in entries]
