"""C11: what is read back from the CURRENT source / running system on every run and tied to the model by the kernel.

1. translate_defaults(): parameter names (order) and default values of the five entry points, parsed from
   sart.pyx (cpdef signatures, regular expression, fail-closed) and nnls.py / lstsq.py / svd.py (ast) ->
   a Coq record compared with Model/C11_Forms.model_defaults by `defaults_eqb ... = true` (vm_compute, Qed).
2. probe_policy(): the complete table of which argument forms each entry point accepts / how it rejects them
   (behavioural probe: every combination in the policy function's domain is called once on a small valid system)
   -> compared with the policy functions of Model/C11_Forms.v by `forallb ... = true` (vm_compute, Qed).
"""
import ast
import os
import re
import warnings
from fractions import Fraction

import numpy as np

from common import REPO, qlit, zlit, coq_string
import c11_forms as F

INV = os.path.join(REPO, "cherab", "tools", "inversions")


class TranslationError(Exception):
    pass


def _pyx_signature(text, name):
    m = re.search(r"^cpdef\s+%s\s*\((.*?)\)\s*:" % re.escape(name), text, re.S | re.M)
    if not m:
        raise TranslationError("cpdef %s(...) not found" % name)
    params = []
    for part in m.group(1).replace("\n", " ").split(","):
        part = part.strip()
        if not part:
            continue
        if "=" in part:
            decl, default = [t.strip() for t in part.split("=", 1)]
        else:
            decl, default = part, None
        pname = decl.split()[-1]
        if not re.fullmatch(r"[A-Za-z_]\w*", pname):
            raise TranslationError("cannot parse parameter %r of %s" % (part, name))
        params.append((pname, default))
    return params


def _py_signature(path, name):
    tree = ast.parse(open(path).read())
    for node in tree.body:
        if isinstance(node, ast.FunctionDef) and node.name == name:
            args = node.args
            if args.vararg or args.kwonlyargs or args.posonlyargs:
                raise TranslationError("unexpected argument kinds in %s" % name)
            names = [a.arg for a in args.args]
            defaults = [None] * (len(names) - len(args.defaults)) + [ast.unparse(d) for d in args.defaults]
            return list(zip(names, defaults)), (args.kwarg.arg if args.kwarg else None)
    raise TranslationError("def %s not found in %s" % (name, path))


def _number(text, what):
    if text is None:
        raise TranslationError("%s has no default" % what)
    try:
        return float(ast.literal_eval(text))
    except Exception:
        raise TranslationError("default of %s is not a number: %r" % (what, text))


def translate_defaults():
    """returns the text of a Coq term of type `defaults` built from the current source"""
    pyx = open(os.path.join(INV, "sart.pyx")).read()
    sart = _pyx_signature(pyx, "invert_sart")
    csart = _pyx_signature(pyx, "invert_constrained_sart")
    nnls, nnls_kw = _py_signature(os.path.join(INV, "nnls.py"), "invert_regularised_nnls")
    lstsq, _ = _py_signature(os.path.join(INV, "lstsq.py"), "invert_regularised_lstsq")
    svd, _ = _py_signature(os.path.join(INV, "svd.py"), "invert_svd")
    ds, dc, dn, dl = dict(sart), dict(csart), dict(nnls), dict(lstsq)
    # both SART functions must declare the same defaults for the shared arguments
    for k in ("initial_guess", "max_iterations", "relaxation", "conv_tol"):
        if ds.get(k) != dc.get(k):
            raise TranslationError("invert_sart and invert_constrained_sart differ in the default of %s" % k)
    if dn.get("alpha") != dl.get("alpha") or dn.get("tikhonov_matrix") != dl.get("tikhonov_matrix"):
        raise TranslationError("nnls and lstsq wrappers differ in their defaults")
    maxit = _number(ds.get("max_iterations"), "max_iterations")
    if maxit != int(maxit):
        raise TranslationError("max_iterations default is not an integer")
    seeds = re.findall(r"if initial_guess is None:\s*\n\s*solution = np\.zeros\(n_sources\) \+ np\.exp\(-1\)\s*\n", pyx)

    def strs(params):
        return "[" + "; ".join(coq_string(p) for p, _ in params) + "]"

    def b(x):
        return "true" if x else "false"

    return ("{| sart_params := %s; csart_params := %s; nnls_params := %s; lstsq_params := %s; svd_params := %s;\n"
            "   default_max_iterations := %s; default_relaxation := %s; default_conv_tol := %s;\n"
            "   default_beta_laplace := %s; default_alpha := %s;\n"
            "   guess_default_is_none := %s; tikhonov_default_is_none := %s; seed_is_exp_minus_one := %s |}" % (
                strs(sart), strs(csart), strs(nnls), strs(lstsq), strs(svd),
                zlit(int(maxit)), qlit(_number(ds.get("relaxation"), "relaxation")), qlit(_number(ds.get("conv_tol"), "conv_tol")),
                qlit(_number(dc.get("beta_laplace"), "beta_laplace")), qlit(_number(dn.get("alpha"), "alpha")),
                b(ds.get("initial_guess") == "None"), b(dn.get("tikhonov_matrix") == "None"), b(len(seeds) == 2)))


def defaults_tie_text():
    return ("Require Import Cherab.Common.Qx Cherab.Model.C11_Forms.\nFrom Coq Require Import String.\n"
            "Open Scope string_scope.\nOpen Scope Q_scope.\n"
            "(* regenerated from sart.pyx, nnls.py, lstsq.py, svd.py of the current working tree *)\n"
            "Definition source_defaults : defaults :=\n  %s.\n"
            "Lemma defaults_tie : defaults_eqb source_defaults model_defaults = true.\n"
            "Proof. vm_compute. reflexivity. Qed.\n" % translate_defaults())


# ---------------------------------------------------------------------------------------------------------------
GUESS_FORMS = ["GNone", "GPyFloat", "GPyInt", "GPyBool", "GNpFloat64", "GNpFloat32", "GNpInt64", "G0d"]
ALPHA_FORMS = ["SPyFloat", "SPyInt", "SNpFloat64", "SNpFloat32", "SNpInt64", "S0d"]


def _outcome(fn):
    with warnings.catch_warnings():
        warnings.simplefilter("ignore")
        try:
            fn()
            return "Accept"
        except ZeroDivisionError:
            return "Accept"
        except Exception as ex:
            return F.outcome_of_exception(ex)


def probe_policy(inv):
    """complete enumeration of the domain of the policy functions; returns (list of Coq terms of type Z, count)"""
    W = np.array([[1.0, 1.0, 0.0, 0.0], [0.0, 1.0, 1.0, 0.0], [0.0, 0.0, 1.0, 1.0]])
    b = np.array([2.0, 3.0, 2.0])
    L = np.array([[1.0, 1.0, 0.0, 0.0], [1.0, 2.0, 1.0, 0.0], [0.0, 1.0, 2.0, 1.0], [0.0, 0.0, 1.0, 1.0]])
    g = np.array([1.0, 0.0, 2.0, 1.0])
    terms = []
    v = [0]

    def arr(a, f):
        v[0] += 1
        return F.present(F.cast_values(a, f), f, v[0])

    def guess(gf):
        if gf == "GNone":
            return None
        if gf.startswith("(GArr"):
            return arr(g, gf.split()[1].rstrip(")"))
        return F.present_scalar(1.0, F.GUESS_SCALAR[gf])

    gforms = GUESS_FORMS + ["(GArr %s)" % f for f in F.ARRAY_FORMS]
    for fW in F.ARRAY_FORMS:
        for fb in F.ARRAY_FORMS:
            for gf in gforms:
                o1 = _outcome(lambda: inv.invert_sart(arr(W, fW), arr(b, fb), initial_guess=guess(gf), max_iterations=2))
                terms.append("check_sart_forms %s %s %s %s" % (fW, fb, gf, o1))
                if fb in ("F64", "FList", "I32") or fW in ("F64", "FList", "FReadonly"):
                    # the constrained variant has the same argument handling; the Laplacian's form varies alongside
                    fL = F.ARRAY_FORMS[(len(terms)) % len(F.ARRAY_FORMS)]
                    o2 = _outcome(lambda: inv.invert_constrained_sart(arr(W, fW), arr(L, fL), arr(b, fb), initial_guess=guess(gf),
                                                                      max_iterations=2))
                    terms.append("check_sart_forms %s %s %s %s" % (fW, fb, gf, o2))
    for fn in (inv.invert_regularised_nnls, inv.invert_regularised_lstsq):
        for fW in F.ARRAY_FORMS:
            for fL in [None] + F.ARRAY_FORMS:
                for fa in ALPHA_FORMS:
                    fb = F.ARRAY_FORMS[len(terms) % len(F.ARRAY_FORMS)]
                    o = _outcome(lambda: fn(arr(W, fW), arr(b, fb), alpha=F.present_scalar(2.0, fa),
                                            tikhonov_matrix=None if fL is None else arr(L, fL)))
                    terms.append("check_lsq_forms %s %s %s %s" % (fW, "None" if fL is None else "(Some %s)" % fL, fa, o))
    for fW in F.ARRAY_FORMS:
        for fb in F.ARRAY_FORMS:
            o = _outcome(lambda: inv.invert_svd(arr(W, fW), arr(b, fb)))
            terms.append("check_svd_forms %s %s %s" % (fW, fb, o))
    return terms


def policy_tie_text(inv):
    terms = probe_policy(inv)
    chunks = [terms[i:i + 400] for i in range(0, len(terms), 400)]
    txt = ("Require Import Cherab.Common.Qx Cherab.Model.C11_Forms.\n"
           "(* behavioural probe of the current implementation: every combination in the domain of the policy functions *)\n")
    for i, ch in enumerate(chunks):
        txt += "Definition probed_%d : list Z := [\n  %s].\n" % (i, ";\n  ".join(ch))
    allp = " ++ ".join("probed_%d" % i for i in range(len(chunks)))
    txt += ("Eval vm_compute in (failing (map (Z.eqb 0) (%s))).\n"
            "Lemma policy_tie : forallb (Z.eqb 0) (%s) = true.\nProof. vm_compute. reflexivity. Qed.\n" % (allp, allp))
    return txt, terms
