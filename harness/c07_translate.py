"""C07 -- fail-closed reader of cherab/openadas/openadas.py (Python ast).  For every rate accessor of class OpenADAS
it extracts what the Coq policy model assumes about it: how many species parameters, that every species argument of
the repository call is the ELEMENT of the parameter, that the call sits in try/except RuntimeError with the
null-rate-or-re-raise handler, which parameter reaches self.wavelength unreduced, and that the rate class is given
extrapolate=self._permit_extrapolation.  Anything it does not recognise makes the row false (never guessed)."""
import ast


def _src(n):
    return ast.unparse(n)


def _is_isotope_test(t):
    """isinstance(X, Isotope) -> X"""
    if (isinstance(t, ast.Call) and _src(t.func) == "isinstance" and len(t.args) == 2 and _src(t.args[1]) == "Isotope"
            and isinstance(t.args[0], ast.Name)):
        return t.args[0].id
    return None


def read_accessor(fn):
    params = [a.arg for a in fn.args.args if a.arg != "self"]
    reduced_in_place, alias = set(), {}        # X = X.element ; Y = X.element if isinstance(X, Isotope) else X
    kept = {}                                  # Y = X written BEFORE X is reduced in place: Y holds the requested species
    unknown = []
    get_call = handler_ok = None
    in_try = False
    wl_arg = None
    permit = False
    wl_used = False
    body = list(fn.body)
    if body and isinstance(body[0], ast.Expr) and isinstance(body[0].value, ast.Constant):
        body = body[1:]
    for st in body:
        if isinstance(st, ast.If) and _is_isotope_test(st.test) and not st.orelse and len(st.body) == 1:
            x = _is_isotope_test(st.test)
            if _src(st.body[0]) == "%s = %s.element" % (x, x):
                reduced_in_place.add(x)
                continue
        if isinstance(st, ast.Assign) and len(st.targets) == 1 and isinstance(st.targets[0], ast.Name):
            tgt, val = st.targets[0].id, st.value
            if isinstance(val, ast.IfExp) and _is_isotope_test(val.test):
                x = _is_isotope_test(val.test)
                if _src(val.body) == x + ".element" and _src(val.orelse) == x:
                    alias[tgt] = x
                    continue
            if isinstance(val, ast.Name) and val.id in params and val.id not in reduced_in_place and tgt not in params:
                kept[tgt] = val.id
                continue
            if tgt == "wavelength" and isinstance(val, ast.Call) and _src(val.func) == "self.wavelength" and val.args:
                wl_arg = _src(val.args[0])
                continue
            if tgt == "rates" and _src(val) == "[]":
                continue
        if isinstance(st, ast.Try) and len(st.body) == 1 and len(st.handlers) == 1 and not st.orelse and not st.finalbody:
            a = st.body[0]
            if (isinstance(a, ast.Assign) and isinstance(a.value, ast.Call) and _src(a.value.func).startswith("repository.get_")
                    and _src(a.targets[0]) == "data"):
                get_call = a.value
                in_try = True
                h = st.handlers[0]
                hb = h.body
                handler_ok = (h.type is not None and _src(h.type) == "RuntimeError" and len(hb) == 2
                              and isinstance(hb[0], ast.If) and _src(hb[0].test) == "self._missing_rates_return_null"
                              and not hb[0].orelse and len(hb[0].body) == 1 and isinstance(hb[0].body[0], ast.Return)
                              and "Null" in _src(hb[0].body[0].value)
                              and isinstance(hb[1], ast.Raise) and hb[1].exc is None)
                continue
        rets = []
        if isinstance(st, ast.Return):
            rets = [st.value]
        elif isinstance(st, ast.For) and _src(st.iter) == "data" and len(st.body) == 1 and _src(st.body[0]).startswith("rates.append("):
            rets = [st.body[0].value.args[0]]
        if rets and isinstance(rets[0], ast.Call):
            c = rets[0]
            kw = {k.arg: _src(k.value) for k in c.keywords}
            permit = kw.get("extrapolate") == "self._permit_extrapolation"
            wl_used = any(_src(a) == "wavelength" for a in c.args)
            continue
        if isinstance(st, ast.Return) and _src(st.value) == "rates":
            continue
        unknown.append(_src(st)[:80])
    species = [p for p in params if p in reduced_in_place or p in alias.values()]
    ok_reduce = False
    if get_call is not None:
        names = [_src(a) for a in get_call.args]
        used = [n for n in names if n in reduced_in_place or n in alias]
        raw = [n for n in names if n in alias.values() and n not in reduced_in_place]      # an unreduced species handed to the repository
        ok_reduce = len(used) == len(species) and not raw
    wlslot = 0
    if wl_arg is not None:
        # must be a species parameter that still holds the requested species
        if wl_arg in species and wl_arg not in reduced_in_place:
            wlslot = species.index(wl_arg) + 1
        elif wl_arg in kept and kept[wl_arg] in species:
            wlslot = species.index(kept[wl_arg]) + 1
        else:
            wlslot = -1
    return {"photon": wl_arg is not None and wl_used, "two": len(species) == 2, "wlslot": wlslot,
            "reduce": ok_reduce and not unknown and len(species) in (1, 2), "catch": bool(in_try and handler_ok is not None),
            "null": bool(handler_ok), "permit": permit, "unknown": unknown, "species": species}


def read_wavelength(fn):
    """wavelength(): own species first; the element's only for an isotope AND with the fallback flag, after RuntimeError"""
    body = [s for s in fn.body if not (isinstance(s, ast.Expr) and isinstance(s.value, ast.Constant))]
    if len(body) != 2 or not isinstance(body[0], ast.If) or not isinstance(body[1], ast.Return):
        return False
    t = _src(body[0].test)
    if t != "isinstance(ion, Isotope) and self._wavelength_element_fallback":
        return False
    tr = body[0].body
    ok = (len(tr) == 1 and isinstance(tr[0], ast.Try) and len(tr[0].handlers) == 1 and _src(tr[0].handlers[0].type) == "RuntimeError"
          and _src(tr[0].body[0]).startswith("return repository.get_wavelength(ion, charge, transition")
          and _src(tr[0].handlers[0].body[0]).startswith("return repository.get_wavelength(ion.element, charge, transition"))
    return ok and _src(body[1]).startswith("return repository.get_wavelength(ion, charge, transition")


def translate(path, accs):
    """accs: [(python name, Coq constructor)].  Returns (coq text of rows, wavelength_ok, details)"""
    tree = ast.parse(open(path).read())
    cls = [n for n in tree.body if isinstance(n, ast.ClassDef) and n.name == "OpenADAS"][0]
    fns = {n.name: n for n in cls.body if isinstance(n, ast.FunctionDef)}
    b = lambda v: "true" if v else "false"
    rows, details = [], {}
    for name, coq in accs:
        if name == "wavelength":
            continue
        if name not in fns:
            details[name] = "method not found"
            continue
        r = read_accessor(fns[name])
        details[name] = r
        rows.append("mksrc %s %s %s (%d) %s %s %s %s" % (coq, b(r["photon"]), b(r["two"]), r["wlslot"], b(r["reduce"]),
                                                        b(r["catch"]), b(r["null"]), b(r["permit"])))
    extra = sorted(set(fns) - {n for n, _ in accs} - {"__init__", "data_path"})
    wl_ok = "wavelength" in fns and read_wavelength(fns["wavelength"]) and not extra
    details["unmodelled_methods"] = extra
    return "[" + ";\n  ".join(rows) + "]", wl_ok, details
