import importlib
import json
import os
import sys
import traceback

sys.path.insert(0, os.path.dirname(os.path.abspath(__file__)))
import common

# The editable install pins sys.modules['cherab'].__path__ to /repo/cherab; a scratch copy of the
# repository (VERIF_REPO=/some/copy, used only to try the checks on seeded changes) must be
# selected before anything under cherab is imported.
_m = sys.modules.get("cherab")
if _m is None:
    import cherab as _m
_m.__path__ = [os.path.join(common.REPO, "cherab")]


def main():
    args = sys.argv[1:]
    if len(args) < 1:
        print("usage: bin/check Cxx quick|thorough [--replay file]")
        return 2
    pid = args[0]
    tier = args[1] if len(args) > 1 and not args[1].startswith("--") else os.environ.get("VERIF_TIER", "quick")
    replay = None
    if "--replay" in args:
        replay = args[args.index("--replay") + 1]
    seed = int(os.environ.get("VERIF_SEED", "0"))
    replay_key = None
    if replay:
        # generic replay: a replay file records the seed and tier of the run that produced it; the check is
        # deterministic in (seed, tier, tree), so re-running with them re-examines the recorded failing case.
        # Exit 1 iff a violation with the recorded key (or, failing that, any violation) is reported again.
        try:
            rj = json.load(open(replay))
            seed = int(rj.get("seed", seed))
            tier = rj.get("tier", tier)
            replay_key = rj.get("key")
            print("[replay] property=%s seed=%d tier=%s key=%s" % (pid, seed, tier, replay_key))
        except Exception as e:
            print("[replay] cannot read %s: %s" % (replay, e))
    # two runs of the same property share coq/Gen/<id>: serialise them
    os.makedirs(os.path.join(common.COQ, "Gen"), exist_ok=True)
    import fcntl
    _lock = open(os.path.join(common.COQ, "Gen", ".%s.lock" % pid), "w")
    fcntl.flock(_lock, fcntl.LOCK_EX)
    ctx = common.Ctx(pid, tier, seed, replay)
    sys.stdout.flush()
    # The property module runs in a child process: the implementation is compiled code with bounds
    # checks switched off, and a change to it can crash the interpreter (segmentation fault).  Such a
    # crash must be reported as a violation, with the case that was running (ctx.crumb) as replay.
    child = os.fork()
    if child == 0:
        code = 3
        try:
            code = run_inner(ctx, pid, replay_key)
        finally:
            sys.stdout.flush()
            sys.stderr.flush()
            os._exit(code)
    _, status = os.waitpid(child, 0)
    if os.WIFEXITED(status) and os.WEXITSTATUS(status) in (0, 1, 2):
        return os.WEXITSTATUS(status)
    what = ("killed by signal %d" % os.WTERMSIG(status)) if os.WIFSIGNALED(status) else ("exit status %d" % os.WEXITSTATUS(status))
    crumb = None
    try:
        crumb = json.load(open(os.path.join(ctx.gen, "breadcrumb.json")))
    except Exception:
        pass
    ctx.obligation("check ran to completion", "harness", False, what)
    ctx.coverage.update({"evaluations": 1, "distinct_nontrivial": 0, "rule": "the run was cut short: " + what})
    ctx.violation("crash:" + what, "the implementation crashed the interpreter while the check was running (%s)" % what,
                  {"last_case_started": crumb}, found=crumb is not None)
    return ctx.finish()


def run_inner(ctx, pid, replay_key=None):
    try:
        mod = importlib.import_module(pid.lower())
        mod.run(ctx)
    except Exception:
        tb = traceback.format_exc()
        ctx.log("check raised:\n" + tb)
        ctx.obligation("check ran to completion", "harness", False, tb)
        if not ctx.violations:
            ctx.violation("crash:" + tb.strip().splitlines()[-1][:80],
                          "the check could not run to completion on this tree (correspondence broken): "
                          + tb.strip().splitlines()[-1][:200], {"traceback": tb}, found=False)
    code = ctx.finish()
    if replay_key is not None:
        again = [v for v in ctx.violations if v["key"] == replay_key]
        print("[replay] recorded violation %s %s" % (replay_key, "REPRODUCED" if again else
              ("not reproduced (other violations: %d)" % len(ctx.violations))))
    return code


if __name__ == "__main__":
    sys.exit(main())
