import importlib
import json
import os
import sys
import traceback

sys.path.insert(0, os.path.dirname(os.path.abspath(__file__)))
import common

# The editable install pins sys.modules['cherab'].__path__ to /repo/cherab; a scratch copy of the
# repository (VERIF_REPO=/some/copy, used only to try the checks on seeded changes) must be
# selected before anything under cherab is imported.
_m = sys.modules.get("cherab")
if _m is None:
    import cherab as _m
_m.__path__ = [os.path.join(common.REPO, "cherab")]


def main():
    args = sys.argv[1:]
    if len(args) < 1:
        print("usage: bin/check Cxx quick|thorough [--replay file]")
        return 2
    pid = args[0]
    tier = args[1] if len(args) > 1 and not args[1].startswith("--") else os.environ.get("VERIF_TIER", "quick")
    replay = None
    if "--replay" in args:
        replay = args[args.index("--replay") + 1]
    seed = int(os.environ.get("VERIF_SEED", "0"))
    ctx = common.Ctx(pid, tier, seed, replay)
    try:
        mod = importlib.import_module(pid.lower())
        mod.run(ctx)
    except Exception:
        tb = traceback.format_exc()
        ctx.log("check raised:\n" + tb)
        ctx.obligation("check ran to completion", "harness", False, tb)
        if not ctx.violations:
            ctx.violation("crash:" + tb.strip().splitlines()[-1][:80],
                          "the check could not run to completion on this tree (correspondence broken): "
                          + tb.strip().splitlines()[-1][:200], {"traceback": tb}, found=False)
    return ctx.finish()


if __name__ == "__main__":
    sys.exit(main())
