"""C01, Notifier part: random histories of add / remove / garbage collection / notify on the real
cherab.core.utility.Notifier, compared operation by operation with the Gallina model
(coq/Model/C01_Notifier.v) evaluated by Coq.

Objects are numbered; the kind of object number i is i % 3:
  0: instance of a plain Python class with methods m0, m1 (bound methods, MethodType; calls are logged in order)
  1: instance of a deque subclass; the callback is its builtin method `rotate` (BuiltinMethodType, the kind of callback
     the cdef classes of cherab register); the number of calls is read off the rotation
  2: a plain function (weakref to the callable itself; calls are logged in order)
"""
import gc
import subprocess
import weakref
from collections import deque

from common import COQ, parse_evals


class _Obj:
    def __init__(self, log, i):
        self._log, self._i = log, i

    def m0(self):
        self._log.append(("M", self._i, 0))

    def m1(self):
        self._log.append(("M", self._i, 1))


class _Deq(deque):
    pass


def _tlit(t):
    return "Meth %d %d" % (t[1], t[2]) if t[0] == "M" else "Fun %d" % t[1]


def gen_history(rng, n_ops, n_ids):
    """(ops, observations) of one random history executed on a real Notifier"""
    from cherab.core.utility import Notifier
    log = []
    pool = {}          # id -> live object
    dead = set()
    nt = Notifier()
    nxt = [0]

    def new_obj(kind=None):
        i = nxt[0]
        while kind is not None and i % 3 != kind:
            i += 1
        nxt[0] = i + 1
        k = i % 3
        if k == 0:
            pool[i] = _Obj(log, i)
        elif k == 1:
            pool[i] = _Deq(range(1000 * i, 1000 * i + 64))      # distinct content: deque equality is by content
        else:
            def f(i=i):
                log.append(("F", i))
            pool[i] = f
        return i

    def callback(t):
        o = pool[t[1]]
        if t[0] == "F":
            return o
        return getattr(o, {0: "m0", 1: "m1", 2: "rotate"}[t[2]])

    def targets_of(i):
        k = i % 3
        return [("M", i, 0), ("M", i, 1)] if k == 0 else [("M", i, 2)] if k == 1 else [("F", i)]
    ops, obs = [], []
    added = []       # targets ever added (to make removes / re-adds likely)
    for _ in range(n_ops):
        r = rng.random()
        live_ids = sorted(pool)
        if r < 0.40 or not live_ids:
            if not live_ids or (len(live_ids) < n_ids and rng.random() < 0.5):
                i = new_obj()
            else:
                i = rng.choice(live_ids)
            t = rng.choice(targets_of(i))
            if added and rng.random() < 0.25:
                cand = [a for a in added if a[1] in pool]
                if cand:
                    t = rng.choice(cand)          # duplicate add
            op = ("Add", t)
        elif r < 0.55:
            cand = [a for a in added if a[1] in pool]
            if cand and rng.random() < 0.8:
                t = rng.choice(cand)
            else:
                t = rng.choice(targets_of(rng.choice(live_ids)))     # never added: a no-op
            op = ("Remove", t)
        elif r < 0.75:
            op = ("Kill", rng.choice(live_ids))
        else:
            op = ("Notify",)
        # ---- execute on the implementation
        del log[:]
        rot_before = {i: pool[i][0] for i in pool if i % 3 == 1}
        if op[0] == "Add":
            nt.add(callback(op[1]))
            added.append(op[1])
        elif op[0] == "Remove":
            nt.remove(callback(op[1]))
        elif op[0] == "Kill":
            # the objects of this harness are in no reference cycle: dropping the last reference frees them at once
            # (a full gc.collect() per operation made the thorough tier take an hour)
            wr = weakref.ref(pool[op[1]])
            del pool[op[1]]
            dead.add(op[1])
            if wr() is not None:
                gc.collect()
            assert wr() is None
        else:
            nt.notify()
        py = list(log)
        # builtin callbacks: number of calls = how far the deque was rotated (64 elements: at most one call per
        # notification is expected; up to 63 would be seen)
        bc = []
        for i, first in sorted(rot_before.items()):
            if i in pool:
                bc.append((("M", i, 2), list(pool[i]).index(first)))
        ops.append(op)
        obs.append((py, bc, len(nt._callbacks_refs)))
    return ops, obs


def oplit(op):
    if op[0] == "Add":
        return "Add (%s)" % _tlit(op[1])
    if op[0] == "Remove":
        return "Remove (%s)" % _tlit(op[1])
    if op[0] == "Kill":
        return "Kill %d" % op[1]
    return "Notify"


def obslit(o):
    py, bc, n = o
    return "([%s], [%s], %d)" % ("; ".join(_tlit(t) for t in py), "; ".join("(%s, %d)" % (_tlit(t), c) for t, c in bc), n)


def run_notifier(ctx):
    rng = ctx.rng
    n_hist = 300 if ctx.quick else 4000
    hists = []
    stats = {"ops": {}, "lengths": [], "notifies_with_dead_refs": 0, "calls": 0}
    for h in range(n_hist):
        n_ops = rng.randint(1, 40) if ctx.quick else rng.randint(1, 80)
        ops, obs = gen_history(rng, n_ops, rng.randint(1, 9))
        hists.append((ops, obs))
        stats["lengths"].append(n_ops)
        held = 0
        for op, o in zip(ops, obs):
            stats["ops"][op[0]] = stats["ops"].get(op[0], 0) + 1
            if op[0] == "Notify":
                stats["calls"] += len(o[0]) + sum(c for _, c in o[1])
                if o[2] < held:
                    stats["notifies_with_dead_refs"] += 1
            held = o[2]
    per_file = 150
    bad = []
    n_files = 0
    for k in range(0, len(hists), per_file):
        chunk = hists[k:k + per_file]
        body = ["From Coq Require Import List Arith.", "Import ListNotations.", "Require Import Cherab.Model.C01_Notifier.",
                "Definition cases : list (list nop * list obs) := ["]
        body.append(";\n".join("  ([%s],\n   [%s])" % ("; ".join(oplit(o) for o in ops), "; ".join(obslit(o) for o in obs))
                               for ops, obs in chunk))
        body.append("].")
        body.append("Fixpoint failing (i : nat) (l : list (list nop * list obs)) : list (nat * nat) :=\n"
                    "  match l with [] => [] | (ops, os) :: t => match check_history ops os with None => failing (S i) t "
                    "| Some j => (i, j) :: failing (S i) t end end.")
        body.append("Eval vm_compute in (failing 0 cases).")
        name = "notifier_%03d.v" % (k // per_file)
        ctx.write_gen(name, "\n".join(body) + "\n")
        n_files += 1
        p = subprocess.run(["coqc", "-Q", COQ, "Cherab", "-Q", ctx.gen, "", name], cwd=ctx.gen, stdout=subprocess.PIPE,
                           stderr=subprocess.STDOUT, text=True, timeout=900)
        vals = parse_evals(p.stdout) if p.returncode == 0 else None
        if vals is None or len(vals) != 1:
            bad.append({"file": name, "coqc": p.stdout[-400:]})
            continue
        txt = vals[0].strip()
        if txt != "[]":
            import re
            for m in re.finditer(r"\((\d+),\s*(\d+)\)", txt):
                i, j = int(m.group(1)), int(m.group(2))
                ops, obs = chunk[i]
                bad.append({"history": [list(map(str, o)) for o in ops[:j + 1]], "first_differing_operation": j,
                            "implementation_observed": {"python_calls_in_order": [list(t) for t in obs[j][0]],
                                                        "builtin_call_counts": [[list(t), c] for t, c in obs[j][1]],
                                                        "references_held": obs[j][2]}})
    ctx.obligation("correspondence Notifier: %d histories (%d operations) on cherab.core.utility.Notifier = model trace (calls in order, "
                   "builtin call counts, references held), evaluated by Coq in %d files" % (n_hist, sum(stats["lengths"]), n_files),
                   "correspondence", not bad, str(bad[:2]))
    for b in bad[:3]:
        if "history" in b:
            # the executable statement of the property on the implementation: a live subscriber that is not called by a
            # notification keeps its cache -> stale state; decide from the trace itself
            ctx.violation("c01-notifier:%s" % b["history"][-1][0],
                          "Notifier: after %s the implementation's trace differs from the model (a subscriber missed or called "
                          "twice, or a dead reference kept)" % b["history"], b, found=True)
    ctx.coverage["notifier"] = {"histories": n_hist, "operations": sum(stats["lengths"]), "op_mix": stats["ops"],
                                "max_length": max(stats["lengths"]), "callbacks_called": stats["calls"],
                                "notifications_that_purged_dead_references": stats["notifies_with_dead_refs"],
                                "compared": "per operation: ordered list of Python-level callbacks called, call count per builtin-method "
                                            "callback, len(_callbacks_refs); exact"}
    return not bad
