"""C04 -- Beam density conserves particles, decays monotonically, follows its envelope.

Anchors: cherab/core/beam/node.pyx (Beam.density, Beam.direction),
         cherab/core/model/attenuator/singleray.pyx, cherab/core/utility/conversion.py.

Theorems: coq/Properties/C04.v (any species functions, any node list, any divergence).
Tie: correspondence -- a real Beam + SingleRayAttenuator + Plasma (stub species and stopping rates that
log their arguments) is built in its final placement; node count, every argument triple handed to
every stopping rate at every axis node, every coefficient value, Beam.density at probe points
(zero-set exactly, values under 2^-36) and Beam.direction are compared inside Coq with the model.
Search: the executable statement of the property on the implementation (cross-section quadrature,
monotonicity along z, zero-set, unit direction, streamline integration).
"""
import math
import os

import numpy as np

from common import qlit, zlit, dyadic, coqc_many, parse_evals, parse_zlist, frac
import c04_impl as impl

THEOREMS = [
    "C04_stopping_is_documented_sum",
    "C04_attenuation_exponent_exact_for_linear_stopping",
    "C04_attenuation_exponent_monotone",
    "C04_no_stopping_line_density_is_source_density",
    "C04_line_density_nonincreasing",
    "C04_on_axis_density_nonincreasing",
    "C04_zero_outside",
    "C04_density_factorises",
    "C04_flux_partial",
    "C04_line_density_formula",
    "C04_flux_no_stopping_partial",
    "C04_direction_unit",
    "C04_streamline_algebraic",
    "C04_streamline_invariant",
    "C04_streamline_constant",
    "C04_attenuation_exponent_is_trapezoid_sum",
    "C04_line_density_at_nodes",
    "C04_stopping_order_independent",
    "C04_nodes_span_beam_within_step",
    "C04_density_nonneg_peaks_on_axis",
    "C04_flux_clamped_partial",
    "C04_settings_valid_over_all_histories",
    "C04_code_facts_are_the_model",
    "C04_direction_model_is_real_field",
    "C04_rounded_exponent_within_exact",
    "C04_gaussian_radial_integral",
    "C04_gaussian_normalisation_rate",
]

CODES = {201: "bit-exact replay: speed is not the correctly rounded root", 202: "bit-exact replay: an argument of np.exp differs",
         203: "bit-exact replay: a node value of the interpolator differs in the last bits", 204: "bit-exact replay: shape",
         7: "source density", 8: "SingleRayAttenuator.density called directly", 0: "agree", 100: "ambiguous", 9: "constants", 1: "number of axis nodes", 2: "stopping-rate arguments",
         3: "stopping coefficient values", 5: "oracle table miss / negative line density", 4: "density", 6: "direction"}


# ---------------------------------------------------------------------------------------------
# Coq text of one case
# ---------------------------------------------------------------------------------------------
def prof_txt(p):
    if p[0] == "u":
        return "(PUniform %s)" % qlit(p[1])
    if p[0] == "l":
        return "(PLinear %s)" % " ".join(qlit(v) for v in p[1:])
    return "(PStep %s)" % " ".join(qlit(v) for v in p[1:])


def rate_txt(r):
    if r[0] == "c":
        return "(RConst %s)" % qlit(r[1])
    return "(RAffine %s)" % " ".join(qlit(v) for v in r[1:])


def vec_txt(v):
    return "(mkvec %s %s %s)" % tuple(qlit(x) for x in v)


def tree_txt(items, fmt):
    """balanced search tree literal of a sorted list"""
    if not items:
        return "Leaf"
    m = len(items) // 2
    return "(Node %s %s %s)" % (tree_txt(items[:m], fmt), fmt(items[m]), tree_txt(items[m + 1:], fmt))


def case_parts(case, out):
    stubs = "[" + ";\n    ".join(
        "mkstub %s %s %s %s %s %s %s" % (qlit(s["charge"]), prof_txt(s["dens"]), prof_txt(s["temp"]),
                                         prof_txt(s["vel"][0]), prof_txt(s["vel"][1]), prof_txt(s["vel"][2]),
                                         rate_txt(s["rate"])) for s in case["species"]) + "]"
    k = out["const"]
    cfg = "(mkcfg %s %s %s %s %s %s %s %s %s %s %s %s [] %s %s %s)" % (
        qlit(case["energy"]), qlit(case["power"]), qlit(out["mass"]), qlit(case["sigma"]), qlit(out["tx"]), qlit(out["ty"]),
        qlit(case["length"]), qlit(case["step"]), "true" if case["clamp"] else "false", qlit(case["clamp_sigma"]),
        vec_txt(out["axis"]), vec_txt(out["origin"]), qlit(k["cf"]), qlit(k["ec"]), qlit(k["pi"]))
    stab = tree_txt(out["sqrt_tab"], qlit)
    etab = tree_txt(out["exp_tab"], lambda av: "(%s, %s)" % (qlit(av[0]), qlit(av[1])))
    args = "[" + "; ".join("(%s, %s, %s)" % (qlit(a), qlit(b), qlit(c)) for a, b, c in out["args"]) + "]"
    coef = "[" + "; ".join(qlit(v) for v in out["coef"]) + "]"
    dens = "[" + "; ".join("(%s, %s, %s, %s)" % tuple(qlit(v) for v in p) for p in out["dens"]) + "]"
    dirs = "[" + "; ".join("(%s, %s, %s, (%s, %s, %s))" % tuple(qlit(v) for v in p) for p in out["dirs"]) + "]"
    return {"stubs": stubs, "cfg": cfg, "amu": qlit(k["amu"]), "stab": stab, "etab": etab, "n": zlit(out["n_nodes"]),
            "args": args, "coef": coef, "dens": dens, "dirs": dirs, "src": qlit(out["src"]),
            "adens": "[" + "; ".join("(%s, %s, %s, %s)" % tuple(qlit(v) for v in p) for p in out["adens"]) + "]"}


def exact_txt(ex):
    terms = "[" + ";\n     ".join("[" + "; ".join("(%s, %s, %s)" % (qlit(a), qlit(b), qlit(c)) for a, b, c in row) + "]" for row in ex["terms"]) + "]"
    etab = "[" + "; ".join("(%s, %s)" % (qlit(a), qlit(v)) for a, v in ex["etab"]) + "]"
    ys = "[" + "; ".join(qlit(y) for y in ex["ys"]) + "]"
    return "check_nodes_exact %s %s %s %s %s %s %s %s\n    %s\n    %s\n    %s" % (
        qlit(ex["L"]), zlit(ex["n"]), qlit(ex["P"]), qlit(ex["E"]), qlit(ex["m"]), qlit(ex["ec"]), qlit(ex["cf"]), qlit(ex["speed"]),
        terms, etab, ys)


def case_txt(case, out):
    p = case_parts(case, out)
    return "check_case\n   %s\n   %s %s\n   %s\n   %s\n   %s %s %s\n   %s\n   %s\n   %s\n   %s" % (
        p["stubs"], p["cfg"], p["amu"], p["stab"], p["etab"], p["n"], p["src"], p["args"], p["coef"], p["adens"], p["dens"], p["dirs"])


# ---------------------------------------------------------------------------------------------
def run(ctx):
    ctx.trusted += [
        "Coq 8.16.1 kernel, vm_compute (no native_compute)",
        "Coq standard-library real-number axioms (ClassicalDedekindReals.sig_forall_dec, sig_not_dec, "
        "functional_extensionality_dep, classic) under C04_streamline_invariant / C04_streamline_constant / C04_direction_model_is_real_field only (Coquelicot, Coq.Reals); every other theorem is "
        "closed under the global context",
        "Coq.Reals axioms + classic + functional extensionality also under C04_gaussian_radial_integral / "
        "C04_gaussian_normalisation_rate (Coquelicot RInt); Proofs/C04_GaussInterval.v (CoqInterval: 5-sigma tail 3.7266531720786709e-6, "
        "1-D mass inside +-8 sigma to 1e-12; PrimInt63/Uint63 primitives) is compiled on every run but is not a property theorem "
        "(coqchk over the Interval library takes > 50 min)",
        "Proofs/C16_Round.v round53_rel (relative error 2^-53 of round53) is imported by Proofs/C04_Float.v; Model/C04_Float.v keeps a verbatim "
        "copy of round53 (proved equal by reflexivity) so that generated files depend on C04 files only",
        "bit-exact replay: numpy linspace / diff / cumsum / exp element order as modelled in Model/C04_Float.v; np.exp values are libm's "
        "(keyed by the exact double argument, which the model must reproduce bit for bit); np.sqrt is checked to be correctly rounded",
        "harness/c04_translate.py (fail-closed regex translator of node.pyx / singleray.pyx, 90 lines); harness/c04.py + c04_impl.py: scene builder, stub species/rates (uniform, linear, step profiles; constant/affine rates), "
        "Q literal printer, comparator Model/C04_Check.v",
        "libm exp/tan/sqrt, numpy linspace/exp, scipy cumulative_trapezoid, raysect Interpolator1DArray, AffineMatrix3D and "
        "Node.to() (beam-to-plasma matrix is read from raysect), IEEE double rounding: compared under 2^-40 (arguments, "
        "coefficients, direction) and 2^-36 (density); sqrt table entries are verified in Coq, exp table entries are libm values",
    ]
    ctx.assumptions += [
        "plasma species are ions (charge >= 1), densities, temperatures and stopping coefficients are >= 0",
        "the integral of S along the axis is the cumulative trapezoid on the attenuator's nodes (the documented discretisation); "
        "it is proved exact for stopping coefficients that are linear along the axis",
        "the Gaussian normalisation (integral of exp(-(u^2+v^2)/2)/(2 pi) over the plane = 1) and the change of variables of the "
        "cross-section integral are hypotheses of C04_flux_partial (analytic facts, not proved in Coq)",
        "with clamp_to_zero the cross-section integral loses the documented tail exp(-clamp_sigma^2/2); the search accounts for it",
    ]
    ctx.rebuild()
    ctx.proofs("Properties.C04", THEOREMS, extra_modules=("Model.C04_Check", "Model.C04_Policy", "Proofs.C04_GaussInterval"))

    import cherab
    from common import REPO
    assert list(cherab.__path__) == [REPO + "/cherab"], cherab.__path__

    from common import coqc
    import c04_translate as tr
    # ---- (T) code facts regenerated from the current source, tied to the model by a kernel-checked lemma ----
    try:
        facts = tr.facts(REPO)
        ok, o = coqc(ctx.write_gen("Source.v", tr.coq_text(facts)), timeout=300)
        ctx.obligation("source_tie: setter guards, constructor guards, defaults, node-count formula, zero-set / axis / clamp "
                       "comparisons, Gaussian constants and extrapolation range read from node.pyx + singleray.pyx equal the "
                       "model's (coq/Gen/C04/Source.v)", "tie", ok, o)
    except tr.TranslateError as e:
        ctx.obligation("source_tie: translator of node.pyx + singleray.pyx (fail-closed)", "tie", False, str(e))

    rng = ctx.rng
    # ---- setter histories on live objects vs the state machine of Model/C04_Policy.v (evaluated by Coq) ----
    n_sets = 6 if ctx.quick else 60
    set_hist = [impl.gen_sets(rng, rng.choice([1, 2, 5, 20] if ctx.quick else [1, 2, 5, 20, 40])) for _ in range(n_sets)]
    items = []
    bools = lambda bs: "[" + "; ".join("true" if b else "false" for b in bs) + "]"
    for ops in set_hist:
        oks, finals = impl.run_sets(ops)
        items.append("check_sets [%s] %s [%s]" % ("; ".join("(%s, %s)" % (o_["field"], qlit(o_["value"])) for o_ in ops), bools(oks),
                                                   "; ".join("(%s, %s)" % (f, qlit(v)) for f, v in finals)))
    ok, o = coqc(ctx.write_gen("sets_000.v", "Require Import Cherab.Common.Qx Cherab.Model.C04_Beam Cherab.Model.C04_Policy "
                               "Cherab.Model.C04_Check.\nOpen Scope Q_scope.\nEval vm_compute in (failing [\n  "
                               + ";\n  ".join(items) + "]).\n"), timeout=600)
    vals = parse_evals(o) if ok else []
    bad_sets = parse_zlist(vals[0]) if ok and len(vals) == 1 else [-1]
    ctx.obligation("setter histories: which of %d setter calls raise ValueError (exactly) and the getters afterwards, %d histories "
                   "on live Beam / SingleRayAttenuator objects vs run_sets" % (sum(len(h) for h in set_hist), n_sets),
                   "correspondence", ok and not bad_sets, o if not ok else "DIFF at histories %s" % bad_sets)
    for i in [b for b in bad_sets if b >= 0][:1]:
        oks, finals = impl.run_sets(set_hist[i])
        ctx.violation("c04-setters", "a setter of Beam / SingleRayAttenuator accepts or rejects a value against the documented guard, "
                      "or a getter does not return what was set", {"ops": set_hist[i], "raised": [not k for k in oks],
                                                                     "getters": finals}, found=True)
    n_cases = 28 if ctx.quick else 400
    cases = impl.corpus_cases() + [impl.gen_case(rng, i) for i in range(n_cases)]
    if ctx.replay:
        # re-run the single configuration stored in a replay file (correspondence + thorough search)
        import json
        rp = json.load(open(ctx.replay))["replay"]
        rc = rp.get("case", rp)
        rc.setdefault("classes", ["replay"])
        cases = [rc]
    outs = []
    key_fail = []
    for i, case in enumerate(cases):
        ctx.crumb(case)
        out = impl.run_case(case)
        outs.append(out)
        if out["keys"] != out["keys_expected"]:
            key_fail.append({"case": case, "requested": out["keys"], "expected": out["keys_expected"]})
    inter_fail = [{"case": c, "intermediates": o["intermediates"]} for c, o in zip(cases, outs) if not o["intermediates_ok"]]
    ctx.obligation("attenuator intermediates (_tanxdiv, _tanydiv = libm tan of the divergences, _step, _clamp_sigma_sqr) (%d cases)"
                   % len(cases), "correspondence", not inter_fail, str(inter_fail[:1]))
    for kf in inter_fail[:1]:
        ctx.violation("c04-intermediates", "a value cached by the attenuator (tan of a divergence, step, clamp_sigma^2) is not the one "
                      "of the beam / attenuator settings", kf, found=True)
    ctx.obligation("stopping-rate lookups: (beam element, species element, charge) per species, in composition order "
                   "(%d cases)" % len(cases), "correspondence", not key_fail, str(key_fail[:2]))

    ctx.log("implementation run on %d cases" % len(cases))
    # ---- correspondence inside Coq --------------------------------------------------------------
    per_file = 3 if ctx.quick else 12
    files = []
    for fi in range(0, len(cases), per_file):
        ids = list(range(fi, min(fi + per_file, len(cases))))
        body = ";\n  ".join("(%s)" % case_txt(cases[i], outs[i]) for i in ids)
        txt = ("Require Import Cherab.Common.Qx Cherab.Model.C04_Beam Cherab.Model.C04_Check.\nOpen Scope Q_scope.\n"
               "Definition results : list Z := [\n  " + body + "].\nEval vm_compute in results.\n")
        files.append((ctx.write_gen("cases_%03d.v" % (fi // per_file), txt), ids))
    # bit-exact replay of the attenuation loop (round53), one file per ~10 cases
    ex_ids = [i for i in range(len(cases)) if outs[i].get("exact")]
    ex_files = []
    for fi in range(0, len(ex_ids), 10):
        ids = ex_ids[fi:fi + 10]
        txt = ("Require Import Cherab.Common.Qx Cherab.Model.C04_Float Cherab.Model.C04_Check.\nOpen Scope Q_scope.\n"
               "Eval vm_compute in [\n  " + ";\n  ".join("(%s)" % exact_txt(outs[i]["exact"]) for i in ids) + "].\n")
        ex_files.append((ctx.write_gen("exact_%03d.v" % (fi // 10), txt), ids))
    res = coqc_many([f for f, _ in files] + [f for f, _ in ex_files], timeout=1200)
    ex_bad = []
    for f, ids in ex_files:
        ok, o = res[f]
        vals = parse_evals(o) if ok else []
        zs = parse_zlist(vals[0]) if ok and len(vals) == 1 else []
        good = ok and len(zs) == len(ids)
        bad = [(i, z) for i, z in zip(ids, zs) if z != 0]
        ctx.obligation("bit-exact replay of the attenuation loop %s (%d cases: every double of linspace, the stopping sum, the "
                       "cumulative trapezoid, the source density and the node values)" % (os.path.basename(f), len(ids)),
                       "correspondence", good and not bad, o if not good else "DIFF (case, code): %s" % bad)
        if not good:
            ctx.broken.append("coqc failed on %s: %s" % (f, o[-800:]))
        ex_bad += bad
    codes = {}
    for f, ids in files:
        ok, o = res[f]
        vals = parse_evals(o) if ok else []
        good = ok and len(vals) == 1
        zs = parse_zlist(vals[0]) if good else []
        good = good and len(zs) == len(ids)
        bad = [(i, z) for i, z in zip(ids, zs) if z % 1000 not in (0, 100)]
        ctx.obligation("correspondence %s (%d cases)" % (os.path.basename(f), len(ids)), "correspondence", good and not bad,
                       o if not good else "DIFF (case, code): %s" % bad)
        if not good:
            ctx.broken.append("coqc failed on %s: %s" % (f, o[-800:]))
        for i, z in zip(ids, zs):
            codes[i] = z
    diff = [i for i in sorted(codes) if codes[i] % 1000 not in (0, 100)] + [i for i, _ in ex_bad if codes.get(i, 0) % 1000 in (0, 100)]
    for i, z in ex_bad:
        if codes.get(i, 0) % 1000 in (0, 100):
            codes[i] = 200 + z
    amb_cases = [i for i in codes if codes[i] % 1000 == 100]
    amb_probes = sum(codes[i] // 1000 for i in codes)
    ctx.log("correspondence: %d cases, %d disagree, %d ambiguous cases, %d ambiguous probes" %
            (len(codes), len(diff), len(amb_cases), amb_probes))

    # ---- failing-input search: the property itself on the implementation --------------------------
    search_fails = []
    n_search = 0
    order = diff + [i for i in range(len(cases)) if i not in diff]
    budget = len(cases) if not ctx.quick else max(len(diff), 30)
    for i in order[:budget]:
        ctx.crumb(cases[i])
        n_search += 1
        search_fails += impl.search_case(cases[i], thorough=(i in diff) or not ctx.quick)
    ctx.log("search on %d configurations: %d failures" % (n_search, len(search_fails)))
    skey = lambda sf: sf.get("key") or "c04:" + sf["claim"][:60]
    new_fails = [sf for sf in search_fails if skey(sf) not in ctx.known]
    ctx.obligation("executable property on the implementation (%d configurations; %d failures are recorded known findings)"
                   % (n_search, len(search_fails) - len(new_fails)), "search", not new_fails, str(new_fails[:3]))
    seen = set()
    for sf in search_fails:
        if sf["claim"] in seen:
            continue
        seen.add(sf["claim"])
        ctx.violation(sf.get("key") or "c04:" + sf["claim"][:60], sf["claim"], sf, found=True)
    stale = [dict(h, case_id=c["id"], classes=c["classes"]) for c, o in zip(cases, outs) for h in o["history_fail"]]
    n_hist = sum(1 for c in cases if c.get("history"))
    ctx.obligation("histories on one live object: after every mutation (all setters, rejected values, attenuator / species / "
                   "atomic data replacement, transforms) the live beam equals a freshly built one, twice (%d histories, %d steps)"
                   % (n_hist, sum(len(c.get("history") or []) + 1 for c in cases if c.get("history"))), "search", not stale, str(stale[:2]))
    for h in stale[:2]:
        ctx.violation("c04-history:%s" % str(h.get("mutation", h.get("step"))).replace(" ", "-")[:40], "a beam that was evaluated, reconfigured through the public setters and "
                      "evaluated again differs from a freshly built beam of the same configuration", h, found=True)
    raised = [dict(e, case=c) for c, o in zip(cases, outs) for e in o["errors"]]
    ctx.obligation("Beam.density / Beam.direction raise nothing on valid inputs (%d cases)" % len(cases), "search", not raised,
                   str(raised[:2]))
    for e in raised[:1]:
        ctx.violation("c04-raise:%s" % e["call"], "Beam.%s raised %s at the point %s" % (e["call"], e["exception"], e["point"]),
                      e, found=True)
    for kf in key_fail[:1]:
        ctx.violation("c04-keys", "the attenuator asked the atomic data source for the wrong stopping rate", kf, found=True)
    if diff and not new_fails and not key_fail and not raised and not stale:
        for i in diff[:3]:
            ctx.violation("c04-diff:%s" % CODES.get(codes[i] % 1000, codes[i]),
                          "model and implementation differ (%s); the executable property found no failing input"
                          % CODES.get(codes[i] % 1000, codes[i]),
                          {"case": cases[i], "code": codes[i], "correspondence": "coq/Gen/C04/cases_*.v"}, found=False)

    # ---- coverage ----------------------------------------------------------------------------------
    dist = {}
    for c, o in zip(cases, outs):
        for k in c["classes"]:
            dist[k] = dist.get(k, 0) + 1
    n_probe = sum(len(o["dens"]) for o in outs)
    zero_probes = sum(1 for o in outs for p in o["dens"] if p[3] == 0.0)
    ctx.coverage.update({
        "evaluations": len(cases),
        "distinct_nontrivial": sum(1 for c in cases if "stopping>0" in c["classes"] and
                                   ("placement:rotated" in c["classes"] or "profile:varying" in c["classes"])),
        "rule": "one case = one beam/attenuator/plasma configuration in its final placement: node count, all rate argument "
                "triples and coefficient values at all axis nodes, ~25 density probes (nodes, between nodes, off axis, z<0, z=0, "
                "z=length, z>length, z=-0.0, inside/outside/at the clamp radius) and 8 direction probes; non-trivial = stopping > 0 and "
                "(rotated placement or spatially varying profile).  Regular extra classes in both tiers: every third case is a HISTORY on "
                "one live beam (fresh -> single public mutations: each beam/attenuator setter incl. rejected values, attenuator "
                "replacement, transforms, re-parenting, composition set/clear/add-replace, new atomic data; zero power/energy/divergence/"
                "density/temperature/rates/empty composition in between; after every mutation live == freshly built, twice; the final "
                "state goes through the Coq tie and the search); argument forms (int, numpy int/float32/float64 scalars, 0/1 flag); exact "
                "power-of-two rescaling of power, densities and lengths over 2^-40..2^30; node counts for length/step = 2, 3 exactly and "
                "99-101 nodes; empty composition; default-constructed attenuator; in the search: getters, attenuator.density directly, "
                "calculate_attenuation(), conversion round trips, every construction route, reversed species order, ulp steps across "
                "the clamp radius, direction at z where z*z under/overflows (known finding)",
        "distribution": dict(dist, cases=len(cases), density_probes=n_probe, density_probes_zero=zero_probes,
                             direction_probes=sum(len(o["dirs"]) for o in outs),
                             rate_calls=sum(len(o["args"]) for o in outs),
                             nodes_min=min(o["n_nodes"] for o in outs), nodes_max=max(o["n_nodes"] for o in outs),
                             histories=n_hist, history_mutations_observed=sum(o.get("n_micro", 0) for o in outs),
                             ambiguous_cases=len(amb_cases), ambiguous_probes=amb_probes, search_configurations=n_search),
        "tolerance": {"rate arguments / coefficients": "2^-40 relative", "density": "2^-36 relative + 2^-46 of the larger node value of the interpolation segment (cancellation in raysect's y0+(y1-y0)t, measured 3.9e-11 relative at the end of a segment with optical depth 13); zero-set exact",
                      "direction": "unit length 2^-45, parallel 2^-40", "sqrt table": "verified in Coq to 2^-48",
                      "exp table key": "2^-46 (1+|x|)", "ambiguity margin": "2^-30 (clamp radius, step profile), 2^-40 (node count)",
                      "search": "flux 1e-7 + discretisation allowance; monotone 1e-12; streamline 1e-7; live vs fresh object and "
                                "construction routes: bit-identical; species order 1e-10 (+1e-15 of the on-axis maximum)"},
        "compared": ["attenuation loop replayed in double precision (round53): linspace nodes, stopping sum, cumulative trapezoid, "
                     "source density, every argument of np.exp and every node value of the interpolator except the last: BIT-EXACT",
                     "source facts = model facts (kernel, exact)", "setter outcomes ValueError/ok (exact) and getters (2^-52)",
                     "lookup keys (exact)", "node count (exact)", "rate arguments and coefficients per node (2^-40)",
                     "attenuator._source_density (2^-40)", "_tanxdiv/_tanydiv/_step (exact), _clamp_sigma_sqr (1 ulp)",
                     "attenuator.density direct: ValueError domain (exact), values (2^-36 + interpolation allowance)",
                     "Beam.density zero-set (exact), values (2^-36 + interpolation allowance)", "Beam.direction (2^-45 unit, 2^-40 parallel)",
                     "live vs fresh object after every mutation (bit-identical)"],
        "partial": ["the passage from the plane integral to polar coordinates (Fubini + Jacobian) is the one analytic step left between "
                    "C04_gaussian_radial_integral / C04_gaussian_normalisation_rate (proved over R) and the two numbers assumed in "
                    "C04_flux_partial and C04_flux_clamped_partial",
                    "C04_flux_clamped_partial: same integral laws without the Gaussian normalisation; the value of the cut-off Gaussian "
                    "integral, 1 - exp(-clamp_sigma^2/2), is a hypothesis of its second conjunct",
                    "C04_flux_partial / C04_flux_no_stopping_partial: the cross-section integral is an abstract functional with "
                    "the change-of-variables law and the Gaussian normalisation as hypotheses (analytic facts not proved)",
                    "C04_streamline_invariant / C04_streamline_constant are stated over R for the direction formula transcribed from the model "
                    "(C04_streamline_algebraic is the same fact over the model in Q)",
                    "the integral of S is the trapezoid sum on the attenuator's nodes; between nodes raysect's linear "
                    "interpolation is modelled, not verified"],
    })
    ctx.coverage["samples"] = [cases[min(len(impl.corpus_cases()), len(cases) - 1)], cases[-1]]
    ctx.grep_gate()
