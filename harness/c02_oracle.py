"""C02: builds the finite oracle tables (erf, sqrt, pow, log, exp, Stark bin integral) for one case.

The Coq model (coq/Model/C02_LineShape.v) asks its oracles for values at exact rational
arguments.  This module walks the same formulas over `fractions.Fraction` ONLY to learn which
arguments will be asked for, evaluates libm / the closed-form Stark CDF there, and returns the
tables.  Nothing computed here is compared with the implementation: the comparison is done by Coq
on the Coq model.  If this walk ever deviates from the model, the model's look-up misses, returns
2^200, and the case fails (fail-closed)."""
import math
from fractions import Fraction as F

from scipy.special import hyp2f1


def fr(x):
    if isinstance(x, F):
        return x
    if isinstance(x, int):
        return F(x)
    return F(*float(x).as_integer_ratio())


class Tabs:
    def __init__(self):
        self.E, self.S, self.Ln, self.Ex = {}, {}, {}, {}
        self.P = {}
        self.I = {}      # (lam, w) -> {a: (b, value)}

    def erf(self, x):
        if x not in self.E:
            self.E[x] = fr(math.erf(float(x)))
        return self.E[x]

    def sqrt(self, x):
        if x not in self.S:
            self.S[x] = fr(math.sqrt(float(x))) if x >= 0 else F(-1)
        return self.S[x]

    def pow(self, x, y):
        if (x, y) not in self.P:
            self.P[(x, y)] = fr(float(x) ** float(y))
        return self.P[(x, y)]

    def ln(self, x):
        if x not in self.Ln:
            self.Ln[x] = fr(math.log(float(x)))
        return self.Ln[x]

    def exp(self, x):
        if x not in self.Ex:
            self.Ex[x] = fr(math.exp(float(x)))
        return self.Ex[x]

    def stark(self, lam, w, a, b):
        d = self.I.setdefault((lam, w), {})
        if a not in d:
            d[a] = (b, fr(stark_bin_integral(float(lam), float(w), float(a), float(b))))
        return d[a][1]


# ---- closed form of the normalised Stark profile's integral (independent of the code's quadrature) ----
_H100 = 100.0 * hyp2f1(0.4, 1.0, 1.4, -(100.0 ** 2.5))


def _G(t):
    """int_0^t ds / (1 + |s|^2.5), odd in t"""
    a = abs(t)
    v = a * hyp2f1(0.4, 1.0, 1.4, -(a ** 2.5))
    return math.copysign(v, t)


def stark_cdf_diff(lam, w, a, b):
    """integral over [a, b] of StarkFunction(lam, w): C0 w^1.5 / (|x - lam|^2.5 + (w/2)^2.5), normalised on +-50 w"""
    h = 0.5 * w
    ta, tb = (a - lam) / h, (b - lam) / h
    if ta * tb > 0 and min(abs(ta), abs(tb)) > 5.0:
        # far wing: avoid the cancellation in G(tb) - G(ta) with a 20-point Gauss-Legendre rule on the smooth tail
        return _gl(lambda t: 1.0 / (1.0 + abs(t) ** 2.5), ta, tb) / (2.0 * _H100)
    return (_G(tb) - _G(ta)) / (2.0 * _H100)


_GLX, _GLW = None, None


def _gl(f, a, b, pieces=4):
    global _GLX, _GLW
    if _GLX is None:
        import numpy as np
        _GLX, _GLW = np.polynomial.legendre.leggauss(20)
    tot = 0.0
    step = (b - a) / pieces
    for k in range(pieces):
        lo = a + k * step
        c, d = lo + 0.5 * step, 0.5 * step
        tot += d * sum(wi * f(c + d * xi) for xi, wi in zip(_GLX, _GLW))
    return tot


def stark_bin_integral(lam, w, a, b):
    return stark_cdf_diff(lam, w, a, b)


# ---- the walk (same structure as the Coq model) ----
class Grid:
    def __init__(self, gmin, gmax, bins, delta):
        self.gmin, self.gmax, self.bins, self.delta = fr(gmin), fr(gmax), int(bins), fr(delta)

    def edge(self, i):
        return self.gmin + self.delta * i


def walk_gaussian(T, sqrt2, R, lam, sig, g):
    if sig <= 0:
        return
    cl, cu = lam - 10 * sig, lam + 10 * sig
    if g.gmax < cl or cu < g.gmin:
        return
    st = max(0, math.floor((cl - g.gmin) / g.delta))
    en = min(g.bins, math.ceil((cu - g.gmin) / g.delta))
    temp = 1 / (sqrt2 * sig)
    for i in range(st, max(en, st) + 1):
        T.erf((g.edge(i) - lam) * temp)
    return st, en


def walk_lorentzian(T, R, lam, w, g):
    if w <= 0:
        return
    cl, cu = lam - 50 * w, lam + 50 * w
    if g.gmax < cl or cu < g.gmin:
        return
    st = max(0, math.floor((cl - g.gmin) / g.delta))
    en = min(g.bins, math.ceil((cu - g.gmin) / g.delta))
    for i in range(st, en):
        T.stark(lam, w, g.edge(i), g.edge(i + 1))


def walk_comps(T, sqrt2, comps, g):
    for kind, R, lam, width in comps:
        if kind == "G":
            walk_gaussian(T, sqrt2, R, lam, width, g)
        else:
            walk_lorentzian(T, R, lam, width, g)


def dot(a, b):
    return a[0] * b[0] + a[1] * b[1] + a[2] * b[2]


def cross(a, b):
    return (a[1] * b[2] - a[2] * b[1], a[2] * b[0] - a[0] * b[2], a[0] * b[1] - a[1] * b[0])


def vscale(a, m):
    return (a[0] * m, a[1] * m, a[2] * m)


class Walk:
    """mirror of Section Gauss's class models; K = dict of Fractions amu, e, c, muB, hc"""

    def __init__(self, T, K, s2f):
        self.T, self.K, self.s2f = T, K, s2f

    def vlength(self, a):
        return self.T.sqrt(a[0] * a[0] + a[1] * a[1] + a[2] * a[2])

    def normalise(self, a):
        t = 1 / self.T.sqrt(a[0] * a[0] + a[1] * a[1] + a[2] * a[2])
        return vscale(a, t)

    def doppler(self, w, d, v):
        od = self.normalise(d)
        pv = dot(v, od)
        return w * (1 + pv / self.K["c"])

    def thermal(self, w, t, m):
        return self.T.sqrt(t * self.K["e"] / (m * self.K["amu"])) * w / self.K["c"]

    def cos_sqr(self, b, d, b_magn):
        c = dot(b, self.normalise(d)) / b_magn
        return c * c

    def gaussian_line(self, w, m, ts, vel, R, d):
        if ts <= 0:
            return []
        return [("G", R, self.doppler(w, d, vel), self.thermal(w, ts, m))]

    def multiplet_line(self, w, m, mult, ts, vel, R, d):
        if ts <= 0:
            return []
        sigma = self.thermal(w, ts, m)
        return [("G", R * r, self.doppler(wl, d, vel), sigma) for wl, r in mult]

    def _b0(self, pol, R, shifted, sigma):
        return [("G", R if pol == "no" else F(1, 2) * R, shifted, sigma)]

    def zeeman_triplet(self, pol, w, m, ts, vel, b, R, d):
        if ts <= 0:
            return []
        shifted = self.doppler(w, d, vel)
        sigma = self.thermal(w, ts, m)
        b_magn = self.vlength(b)
        if b_magn == 0:
            return self._b0(pol, R, shifted, sigma)
        cs = self.cos_sqr(b, d, b_magn)
        sn = 1 - cs
        out = []
        if pol != "sigma":
            out.append(("G", F(1, 2) * sn * R, shifted, sigma))
        if pol != "pi":
            cr = (F(1, 4) * sn + F(1, 2) * cs) * R
            pe = self.K["hc"] / w
            out.append(("G", cr, self.doppler(self.K["hc"] / (pe - self.K["muB"] * b_magn), d, vel), sigma))
            out.append(("G", cr, self.doppler(self.K["hc"] / (pe + self.K["muB"] * b_magn), d, vel), sigma))
        return out

    def param_zeeman_triplet(self, pol, alpha, beta, gamma, w, m, ts, vel, b, R, d):
        if ts <= 0:
            return []
        shifted = self.doppler(w, d, vel)
        sigma0 = self.thermal(w, ts, m)
        sigma = sigma0 * self.T.sqrt(1 + beta * beta * self.T.pow(ts, 2 * gamma))
        b_magn = self.vlength(b)
        if b_magn == 0:
            return self._b0(pol, R, shifted, sigma)
        cs = self.cos_sqr(b, d, b_magn)
        sn = 1 - cs
        out = []
        if pol != "sigma":
            out.append(("G", F(1, 2) * sn * R, shifted, sigma))
        if pol != "pi":
            cr = (F(1, 4) * sn + F(1, 2) * cs) * R
            out.append(("G", cr, self.doppler(w + F(1, 2) * alpha * b_magn, d, vel), sigma))
            out.append(("G", cr, self.doppler(w - F(1, 2) * alpha * b_magn, d, vel), sigma))
        return out

    @staticmethod
    def zs_evaluate(raw):
        s = F(0)
        for _, r in raw:
            s = s + r
        if s > 0:
            return [(wl, r / s) for wl, r in raw]
        return list(raw)

    def zeeman_multiplet(self, pol, raw_pi, raw_sp, raw_sm, w, m, ts, vel, b, R, d):
        if ts <= 0:
            return []
        sigma = self.thermal(w, ts, m)
        b_magn = self.vlength(b)
        if b_magn == 0:
            return self._b0(pol, R, self.doppler(w, d, vel), sigma)
        cs = self.cos_sqr(b, d, b_magn)
        sn = 1 - cs

        def group(cr, raw):
            return [("G", cr * r, self.doppler(wl, d, vel), sigma) for wl, r in self.zs_evaluate(raw)]
        out = []
        if pol != "sigma":
            out += group(F(1, 2) * sn * R, raw_pi)
        if pol != "pi":
            cr = (F(1, 4) * sn + F(1, 2) * cs) * R
            out += group(cr, raw_sp) + group(cr, raw_sm)
        return out

    POLY_G = [F(1), F(0), F(57575, 100000), F(37902, 100000), F(-42519, 100000), F(-31525, 100000), F(31718, 100000)]
    POLY_L = [F(1), F(15882, 100000), F(104388, 100000), F(-138281, 100000), F(46251, 100000), F(82325, 100000),
              F(-58026, 100000)]
    POLY_W = [F(514820, 1000000000), F(138821, 100000), F(-960424, 10000000), F(-383995, 10000000),
              F(-740042, 100000000), F(-547626, 1000000000)]

    @staticmethod
    def poly(cs, x):
        xi, acc = F(1), F(0)
        terms = []
        for c in cs:
            terms.append(c * xi)
            xi = xi * x
        for t in reversed(terms):
            acc = t + acc
        return acc

    def stark_widths(self, cij, aij, bij, w, m, ne, te, ts):
        fl = cij * self.T.pow(ne, aij) / self.T.pow(te, bij) if (ne > 0 and te > 0) else F(0)
        fg = self.s2f * self.thermal(w, ts, m) if ts > 0 else F(0)
        if fl == 0 and fg == 0:
            return None
        if fg <= fl:
            full = self.poly(self.POLY_G, fg / fl) * fl
        else:
            full = self.poly(self.POLY_L, fl / fg) * fg
        sigma = full / self.s2f
        l2t = fl / full
        if l2t < F(1, 100):
            return F(0), F(1), sigma, F(0)
        if l2t > F(999, 1000):
            return F(1), F(0), F(0), full
        lw = self.T.exp(self.poly(self.POLY_W, self.T.ln(l2t)))
        return lw, 1 - lw, sigma, full

    def stark_line(self, pol, cij, aij, bij, w, m, ne, te, ts, vel, b, R, d):
        sw = self.stark_widths(cij, aij, bij, w, m, ne, te, ts)
        if sw is None:
            return []
        lw, gw, sigma, full = sw

        def pair(cr, lam):
            return [("G", gw * cr, lam, sigma), ("L", lw * cr, lam, full)]
        shifted = self.doppler(w, d, vel)
        b_magn = self.vlength(b)
        if b_magn == 0:
            return pair(R * F(1, 2) if pol != "no" else R, shifted)
        cs = self.cos_sqr(b, d, b_magn)
        sn = 1 - cs
        out = []
        if pol != "sigma":
            out += pair(F(1, 2) * sn * R, shifted)
        if pol != "pi":
            cr = (F(1, 4) * sn + F(1, 2) * cs) * R
            pe = self.K["hc"] / w
            out += pair(cr, self.doppler(self.K["hc"] / (pe - self.K["muB"] * b_magn), d, vel))
            out += pair(cr, self.doppler(self.K["hc"] / (pe + self.K["muB"] * b_magn), d, vel))
        return out

    def mse_multiplet(self, w, bmass, btemp, benergy, s2p, s1s0, p2p3, p4p3, ne, te, b, R, bdir, odir):
        if te <= 0 or ne <= 0:
            return []
        speed = self.T.sqrt(2 * benergy * self.K["e"] * (1 / self.K["amu"]))
        bv = vscale(self.normalise(bdir), speed)
        e_field = self.vlength(cross(bv, b))
        split = abs(F(277, 10000000000) * e_field)
        central = self.doppler(w, odir, bv)
        sigma = self.thermal(w, btemp, bmass)
        d = 1 / (1 + s2p)
        isig = s2p * d * R
        ipi = F(1, 2) * d * R
        s0 = 1 / (s1s0 + 1)
        s1 = F(1, 2) * s1s0 * s0
        p3 = 1 / (1 + p2p3 + p4p3)
        p2 = p2p3 * p3
        p4 = p4p3 * p3
        return [("G", isig * s0, central, sigma), ("G", isig * s1, central + split, sigma),
                ("G", isig * s1, central - split, sigma),
                ("G", ipi * p2, central + 2 * split, sigma), ("G", ipi * p2, central - 2 * split, sigma),
                ("G", ipi * p3, central + 3 * split, sigma), ("G", ipi * p3, central - 3 * split, sigma),
                ("G", ipi * p4, central + 4 * split, sigma), ("G", ipi * p4, central - 4 * split, sigma)]


# ---- Coq text of the tables ----
def _q(x):
    x = fr(x)
    return "(Qmake %s %d)" % (("(%d)" % x.numerator) if x.numerator < 0 else str(x.numerator), x.denominator)


def tree_text(items):
    """items: sorted list of (key, v, v2) -> balanced qtree literal"""
    if not items:
        return "QLeaf"
    mid = len(items) // 2
    k, v, v2 = items[mid]
    return "(QNode %s %s %s %s %s)" % (tree_text(items[:mid]), _q(k), _q(v), _q(v2), tree_text(items[mid + 1:]))


def tabs_text(T):
    e = tree_text(sorted((k, v, F(0)) for k, v in T.E.items()))
    s = tree_text(sorted((k, v, F(0)) for k, v in T.S.items()))
    ln = tree_text(sorted((k, v, F(0)) for k, v in T.Ln.items()))
    ex = tree_text(sorted((k, v, F(0)) for k, v in T.Ex.items()))
    p = "[" + "; ".join("(%s, %s, %s)" % (_q(x), _q(y), _q(v)) for (x, y), v in T.P.items()) + "]"
    i = "[" + "; ".join("(%s, %s, %s)" % (_q(lam), _q(w), tree_text(sorted((a, v, b) for a, (b, v) in d.items())))
                        for (lam, w), d in T.I.items()) + "]"
    return "{| tE := %s; tS := %s; tP := %s; tLn := %s; tEx := %s; tI := %s |}" % (e, s, p, ln, ex, i)
