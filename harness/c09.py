"""C09 -- Ionisation balance solves the steady-state equations, conserves particles/charge
(cherab/tools/plasmas/ionisation_balance.py).

Theorems: coq/Properties/C09.v (every Z >= 1, all positive rate tables, every n_e > 0, n_D >= 0).
Tie: correspondence -- every public entry point of the module is run on a stub AtomicData whose rate
tables are arbitrary positive functions of (n_e, t_e); the matrix and right-hand side handed to
lsq_linear are captured and compared entry by entry with the model's matrix, and every returned point
value (fractions, densities, neutrality densities, interpolator / mapper values) is compared inside Coq
(vm_compute) with the model's closed form.
Search: the statement of the property itself, in exact rational arithmetic, on the implementation's
outputs.
"""
import json
import os
import time
from fractions import Fraction as F

import numpy as np

from common import qlit, qlist, coqc_many, parse_evals, parse_zlist, VERIF
import c09_impl as impl

THEOREMS = ["C09_fractions_in_unit_interval", "C09_fractions_sum_to_one", "C09_pairwise_balance",
            "C09_closed_form_solves_code_matrix", "C09_exact_solution_unique", "C09_lsq_minimiser_is_closed_form",
            "C09_density_scaling", "C09_neutrality", "C09_donor_matters", "C09_zero_donor_is_no_donor",
            "C09_entry_points_agree_partial", "C09_checker_evaluates_model",
            "C09_matrix_solution_unique", "C09_scale_covariant", "C09_neutral_fraction_monotone_in_donor",
            "C09_densities_satisfy_balance", "C09_neutrality_shape", "C09_species_order_irrelevant",
            "C09_interpolant_through_knots", "C09_interpolant_is_blend", "C09_interpolated_fractions_conserve",
            "C09_interpolated_densities_conserve",
            "C09_matrix_solution_exists_unique", "C09_interpolated_profile_conserves", "C09_equilibrium_mapped_profile_conserves",
            "C09_bilinear_through_knots", "C09_bilinear_is_blend", "C09_bilinear_fractions_conserve",
            "C09_objective_scaling", "C09_cost_along_ray_partial"]

KNOWN_KEY = "c09:lsq-illconditioned"


def qll(rows):
    return "[" + "; ".join(qlist(r) for r in rows) + "]"


def point_def(name, pt):
    cx = "None" if pt["cx"] is None else "(Some %s)" % qlist(pt["cx"])
    return ("Definition %s : point := {| pZ := %d%%nat; p_ion := %s; p_rec := %s; p_cx := %s; p_ne := %s; p_nd := %s |}."
            % (name, len(pt["ion"]), qlist(pt["ion"]), qlist(pt["rec"]), cx, qlit(pt["n_e"]), qlit(pt["n_d"])))


def out_term(o, interp, ztol):
    slack = "tol_interp" if interp else "0"
    if o["kind"] == "frac":
        return "OFrac %s %s" % (slack, qlist(o["values"]))
    if o["kind"] == "dens":
        return "ODens %s %s %s" % (slack, qlit(o["n_el"]), qlist(o["values"]))
    if o["kind"] == "neut":
        return "ONeut %s %s %s %s" % (slack, qlit(ztol if interp else 0), qll(o["species"]), qlist(o["values"]))
    raise AssertionError(o["kind"])


def ztol_of(case):
    """rounding noise of linear interpolation at a knot: relative 1e-12 of the largest density scale of the case"""
    return 1e-12 * 2.0 * 10.0 ** case["ne_decade"]


def plan_cases(ctx):
    rng = ctx.rng
    quick = ctx.quick
    reps = (["scalar"] * 4 + ["array1d"] * 6 + ["array2d"] * 6 + ["fun1d"] * 5 + ["fun1d_scalar"] * 3 + ["fun2d"] * 4
            + ["mixed1d"] * 4 + ["interp1d"] * 5 + ["interp2d"] * 3 + ["eqmap"] * 4)
    if not quick:
        reps = reps * 12
    cases = []
    # every Z of the property at least once per run
    zs = list(range(1, 19))
    rng.shuffle(zs)
    n_multi = n_2d = n_lay1 = n_lay2 = 0
    for i, rep in enumerate(reps):
        stream = "well" if rng.random() < 0.6 else "wide"
        # profile structures (shared n_e/t_e with different donor, shared n_e, shared t_e, constant donor, 2-D separable)
        # are dealt round-robin over the multi-point cases so that every class occurs in every run of both tiers
        structure = "indep"
        if rep in ("array2d", "fun2d", "interp2d"):
            structure = ["sep2d", "indep", "same_net", "sep2d", "const_net", "indep", "same_ne", "const_donor", "same_te"][n_2d % 9]
            n_2d += 1
        elif rep not in ("scalar", "fun1d_scalar"):
            structure = ["same_net", "indep", "const_net", "same_ne", "indep", "same_te", "const_donor", "indep"][n_multi % 8]
            n_multi += 1
        # memory layouts of array arguments, dealt round-robin so that every class occurs in every run
        layout = "C"
        if rep == "array2d":
            layout = ["all_F", "all_R", "alone", "all_T", "mixed", "all_S", "C"][n_lay2 % 7]
            n_lay2 += 1
        elif rep in ("array1d", "mixed1d"):
            layout = ["all_R", "C", "alone", "all_S", "mixed", "C"][n_lay1 % 6]
            n_lay1 += 1
        cases.append(impl.gen_case(rng, i, rep, stream, layout=layout, z=None,
                                   force_donor=rep in ("eqmap", "interp1d", "interp2d") and i % 2 == 0, structure=structure))
    # every Z of the property at least once per run, on the cases with the fewest points (the Coq cost of a point grows
    # like Z^3); cases with five or more points keep Z <= 12
    order = sorted(range(len(cases)), key=lambda q: (int(np.prod(cases[q]["shape"])), q))
    for rank, q in enumerate(order[:18]):
        cases[q]["Z"] = zs[rank]
    for c in cases:
        if int(np.prod(c["shape"])) >= 5 and c["Z"] > 12:
            c["Z"] -= 8
    return cases


ILL_TABLES = [  # (stub tag, Z, n_e, t_e): rate tables rate_value(tag, ., 1e-20, 7 decades, n_e, t_e), found by a random scan
    ("ill201", 16, 2.7814231298640183e+19, 645.0),
    ("ill230", 18, 1.734786576463115e+19, 952.0),
    ("ill120", 18, 7.371491870080028e+19, 429.5),
]


SCALE_PROBES = []


def ill_conditioned_probe(ctx, ib):
    """Positive rate tables spanning 7 decades (1e-20 .. 1e-13 m^3/s, the magnitudes of real ADAS data) with
    non-monotone S_z/R_(z+1): the bounded least-squares solve of line 240 is ill-conditioned there and returns
    fractions far from the unique solution of the balance equations.  Reported under one stable key (a genuine
    numerical defect of the solver choice, see known_findings.txt).  Fixed tables only: random scans of this
    regime occasionally make lsq_linear iterate for minutes."""
    worst = None
    for tag, z, n_e, t_e in ILL_TABLES:
        case = {"Z": z, "tag": tag, "scale": 1e-20, "span": 7.0, "donor": None}
        ad = impl.make_stub(tag, 1e-20, 7.0)
        out = ib.fractional_abundance(ad, impl.element(z), n_e, t_e)
        f = [float(out[c][0]) for c in range(z + 1)]
        ion, rec, cx = impl.point_rates(case, n_e, t_e)
        ex, reff = impl.closed_form(ion, rec, None, n_e, 0.0)
        dev = max(abs(F(a) - b) for a, b in zip(f, ex))
        rel_bal = max(abs(F(f[k]) * F(ion[k]) - F(f[k + 1]) * reff[k]) / max(F(f[k]) * F(ion[k]), F(f[k + 1]) * reff[k], F(1, 10 ** 300))
                      for k in range(z))
        if worst is None or dev > worst[0]:
            worst = (dev, {"Z": z, "n_e": n_e, "t_e": t_e, "ion": ion, "rec": rec, "impl_fractions": f,
                           "exact_fractions": [float(v) for v in ex], "sum_impl": float(sum(f)),
                           "max_abs_deviation": float(dev), "worst_pairwise_relative_imbalance": float(rel_bal),
                           "stub_tag": tag, "stub_scale": 1e-20, "stub_span_decades": 7.0,
                           "entry_point": "fractional_abundance(scalar n_e, t_e), no donor"})
    # the same root cause seen through scale covariance: the balance is invariant under rates -> rates * 2^k, the result of
    # the n_e-weighted least-squares solve is not.  Well-conditioned tables (1 decade), fixed.
    for tag, z, n_e, t_e, scale in (("scaleA", 6, 1.5, 10.0, 2.0 ** -60), ("scaleB", 6, 3e18, 10.0, 1e-14 * 2.0 ** 40)):
        case = {"Z": z, "tag": tag, "scale": scale, "span": 1.0, "donor": None}
        out = ib.fractional_abundance(impl.make_stub(tag, scale, 1.0), impl.element(z), n_e, t_e)
        f = [float(out[c][0]) for c in range(z + 1)]
        ion, rec, cx = impl.point_rates(case, n_e, t_e)
        ex, _ = impl.closed_form(ion, rec, None, n_e, 0.0)
        SCALE_PROBES.append({"table": tag, "rates_scale": scale, "n_e": n_e, "sum_impl": float(sum(f)),
                             "max_abs_deviation": float(max(abs(F(a) - b) for a, b in zip(f, ex)))})
    return len(ILL_TABLES), worst


def run(ctx):
    ctx.trusted += [
        "Coq 8.16.1 kernel, vm_compute (no native_compute)",
        "harness/c09.py, harness/c09_impl.py: stub AtomicData, case generator, read-back of Function1D/2D point values, "
        "Q literal printer, comparator Model/C09_Check.v (its evaluator cf_fast is proved equal to the model)",
        "scipy.optimize.lsq_linear, NumPy and IEEE double rounding: validated per output against the unique exact solution "
        "under the stated stream tolerance; raysect Interpolator1DArray/2DArray, AxisymmetricMapper, EFITEquilibrium.map3d/"
        "psi_normalised (outside the model: compared at knots and by linear interpolation between model values)",
    ]
    ctx.assumptions += [
        "rate tables are positive (CX table non-negative), n_e > 0, donor density >= 0 (rates_ok); the theorems are about "
        "exact rational arithmetic",
        "lsq_linear is accurate only while every charge state is populated above ~1e-12 of the total: the tie uses rate tables "
        "within 1 and 2 decades, tolerance 1e-7 on resolved points; unresolved points are ambiguous (solver output not compared; class decided by the model); "
        "wider tables are a recorded finding (key %s)" % KNOWN_KEY,
        "equilibrium_map3d_match_plasma_neutrality interpolates cubically between knots: compared on the knots' flux "
        "surfaces only, relative 1e-3",
    ]
    ctx.rebuild()
    ctx.proofs("Properties.C09", THEOREMS, extra_modules=("Model.C09_Check", "Proofs.C09_Check", "Model.C09_Interp", "Proofs.C09_More", "Proofs.C09_More2", "Model.C09_Fill"))

    # ---- translator tie: the matrix-filling statements of the CURRENT source, as data, against Model.entry ---------------
    import c09_fill
    from common import REPO, coqc
    try:
        ups = c09_fill.translate(os.path.join(REPO, "cherab", "tools", "plasmas", "ionisation_balance.py"))
        fok, fout = coqc(ctx.write_gen("Fill.v", c09_fill.to_coq(ups)), timeout=600)
        ctx.obligation("Gen tie lemma source_fill_is_model_entry (%d statements of _fractional_abundance_point, Z = 1..18)" % len(ups),
                       "tie", fok and "Closed under the global context" in fout, fout[-1500:])
        ctx.coverage["translated_statements"] = [{"line": u["line"], "source": u["src"]} for u in ups]
    except c09_fill.TranslateError as ex:
        ctx.obligation("translator: _fractional_abundance_point has the recognised shape", "tie", False, str(ex))
    import cherab
    assert list(cherab.__path__) == [REPO + "/cherab"], cherab.__path__
    from cherab.tools.plasmas import ionisation_balance as ib
    assert os.path.realpath(ib.__file__).startswith(os.path.realpath(REPO)), ib.__file__
    rec = impl.Recorder(ib)
    ib.lsq_linear = rec
    eq_cache = {}

    def equilibrium():
        if "eq" not in eq_cache:
            from cherab.tools.equilibrium import example_equilibrium
            eq_cache["eq"] = example_equilibrium()
        return eq_cache["eq"]

    # ---- corpus first (minimised past disagreements), then generated cases -------------------------
    cases = []
    corpus_dir = os.path.join(VERIF, "corpus", "C09")
    if os.path.isdir(corpus_dir):
        for fn in sorted(os.listdir(corpus_dir)):
            if fn.endswith(".json"):
                c = json.load(open(os.path.join(corpus_dir, fn)))
                c["donor"] = tuple(c["donor"]) if c.get("donor") else None
                c["shape"] = tuple(c["shape"])
                c["idx"] = "corpus:" + fn
                cases.append(c)
    n_corpus = len(cases)
    cases += plan_cases(ctx)
    t0 = time.time()
    all_points = []          # (case, k, pt)
    dist = {"rep": {}, "stream": {}, "Z": {}, "donor_mode": {}, "species": {}, "infeasible_neutrality": 0,
            "zero_donor_points": 0, "matrix_captured_points": 0, "lerp_values": 0}
    search_fails = []
    lsq_unseen = 0
    crashed = []
    for case in cases:
        try:
            pts = impl.run_case(ib, rec, case, {"equilibrium": equilibrium})
        except impl.GeneratorDomainError as ex:     # a fault of the generator: BROKEN-CHECK, never a property violation
            rec.on = False
            ctx.broken.append("generator produced an input outside the property's domain (case %s, %s, structure %s): %s"
                              % (case["idx"], case["rep"], case.get("structure"), str(ex)[:400]))
            continue
        except Exception as ex:      # an exception (or a non-finite result) on a valid input is a finding, not a harness fault
            import traceback
            rec.on = False
            kind = "non-finite" if isinstance(ex, impl.NonFinite) else type(ex).__name__
            crashed.append(case)
            ctx.obligation("case %s (%s, Z=%d) ran" % (case["idx"], case["rep"], case["Z"]), "correspondence", False, traceback.format_exc())
            if len(crashed) <= 3:
              ctx.violation("c09:exception:%s:%s" % (kind, case["rep"]),
                            "entry points raised %s / returned a non-finite value on a valid input (%s case, Z=%d, donor %s): %s"
                            % (kind, case["rep"], case["Z"], case["donor_mode"], str(ex)[:300]),
                            {"case": {kk: vv for kk, vv in case.items() if kk not in ("points", "lerp", "lerp2", "eq_neut", "fv")},
                             "traceback": traceback.format_exc()[-1500:],
                             "how": "harness/c09_impl.py run_case(case) rebuilds the inputs from case['sub'] (seeded) and calls the entry points"},
                            found=True)
            continue
        case["points"] = pts
        for fld in ("species_orders", "species_sources"):
            dist.setdefault(fld, {})
            for v in case.get(fld, []):
                dist[fld][v] = dist[fld].get(v, 0) + 1
        dist.setdefault("structure", {})
        dist["structure"][case.get("structure", "indep")] = dist["structure"].get(case.get("structure", "indep"), 0) + 1
        seen_net = {}
        for pt in pts:
            seen_net.setdefault((pt["n_e"], pt["t_e"]), set()).add(pt["n_d"])
        dist["points_sharing_ne_te_with_other_donor"] = dist.get("points_sharing_ne_te_with_other_donor", 0) + sum(
            len(v) for v in seen_net.values() if len(v) > 1)
        for key in ("neut_class", "form", "call_form", "element_name", "layout"):
            dist.setdefault(key, {})
            dist[key][str(case.get(key))] = dist[key].get(str(case.get(key)), 0) + 1
        dist.setdefault("n_points", {})
        dist["n_points"][str(len(pts))] = dist["n_points"].get(str(len(pts)), 0) + 1
        for key, val in (("rep", case["rep"]), ("stream", case["stream"]), ("Z", str(case["Z"])),
                         ("donor_mode", case["donor_mode"]), ("species", str(case["n_species"]))):
            dist[key][val] = dist[key].get(val, 0) + 1
        if "lsq_calls_seen" in case and case["lsq_calls_seen"] != len(pts):
            lsq_unseen += 1
        for k, pt in enumerate(pts):
            all_points.append((case, k, pt))
            if pt["matrix"] is not None:
                dist["matrix_captured_points"] += 1
            if pt["cx"] is not None and pt["n_d"] == 0.0:
                dist["zero_donor_points"] += 1
            if pt["species"] and impl.species_charge(pt["species"]) > F(pt["n_e"]):
                dist["infeasible_neutrality"] += 1
    ctx.log("implementation: %d cases, %d points in %.1fs" % (len(cases), len(all_points), time.time() - t0))

    cases = [c for c in cases if "points" in c]
    # ---- write case files: all points of a case in one file, <= ~40 points per file --------------------
    n_bins = max(1, min(16 if ctx.quick else 64, len(cases)))
    bins = [[0.0, []] for _ in range(n_bins)]
    for case in sorted(cases, key=lambda c: -len(c["points"]) * (c["Z"] + 1) ** 2):
        tgt = min(bins, key=lambda bn: bn[0])        # balance the estimated Coq cost (points x Z^2) over the files
        tgt[0] += len(case["points"]) * (case["Z"] + 1) ** 2
        tgt[1].append(case)
    shards = [bn[1] for bn in bins if bn[1]]
    files = []
    n_outs = 0
    for si, shard in enumerate(shards):
        lines = ["Require Import Cherab.Common.Qx Cherab.Model.C09_Balance Cherab.Model.C09_Check.", "Open Scope Q_scope."]
        checks, ids = [], []
        for ci, case in enumerate(shard):
            interp = case["rep"] in ("interp1d", "interp2d", "eqmap")
            names = []
            for k, pt in enumerate(case["points"]):
                nm = "p_%d_%d" % (ci, k)
                names.append(nm)
                lines.append(point_def(nm, pt))
            for k, pt in enumerate(case["points"]):
                outs = [out_term(o, interp and "@" in o["src"], ztol_of(case)) for o in pt["outs"] if o.get("coq", True)]
                if pt["matrix"] is not None and (len(pt["ion"]) <= 10 or k == 0):
                    outs.append("OMatrix %s %s" % (qll(pt["matrix"][0]), qlist(pt["matrix"][1])))
                for le in case.get("lerp", []):
                    if le["k"] != k:
                        continue
                    if le["scale"] is None:
                        sa, sb = le["n_el"]
                    else:
                        sa = sb = le["scale"]
                    outs.append("OLerp tol_interp %s %s %d%%nat (model_fractions %s) %s %s %s" % (
                        qlist(le["knots"]), qlit(le["x"]), le["k"], names[le["other"]], qlit(sa), qlit(sb), qlist(le["values"])))
                    dist["lerp_values"] += 1
                for l2 in case.get("lerp2", []):
                    if l2["k"] != k:
                        continue
                    ny_ = l2["ny"]
                    outs.append("OLerp2 tol_interp %s %s %s %s %d%%nat %d%%nat (model_fractions %s) (model_fractions %s) (model_fractions %s) %s" % (
                        qlist(l2["xs"]), qlist(l2["ys"]), qlit(l2["x"]), qlit(l2["y"]), l2["i"], l2["j"],
                        names[(l2["i"] + 1) * ny_ + l2["j"]], names[l2["i"] * ny_ + l2["j"] + 1], names[(l2["i"] + 1) * ny_ + l2["j"] + 1],
                        qlist(l2["values"])))
                    dist["lerp_values"] += 1
                n_outs += len(outs)
                checks.append("check_point %s [%s]" % (names[k], ";\n    ".join(outs)))
                ids.append((case, k))
        lines.append("Definition results : list bool := [\n  " + ";\n  ".join(checks) + "].")
        lines.append("Eval vm_compute in (failing results).")
        files.append((ctx.write_gen("cases_%03d.v" % si, "\n".join(lines) + "\n"), ids))
    t0 = time.time()
    res = coqc_many([f for f, _ in files], timeout=1500)
    diff_points = []
    for f, ids in files:
        ok, out = res[f]
        vals = parse_evals(out) if ok else []
        good = ok and len(vals) == 1
        failing = parse_zlist(vals[0]) if good else []
        ctx.obligation("correspondence %s (%d points)" % (os.path.basename(f), len(ids)), "correspondence",
                       good and not failing, out if not good else "DIFF at local indices %s" % failing)
        if not good:
            ctx.broken.append("coqc failed on %s: %s" % (f, out[-800:]))
        diff_points += [ids[i] for i in failing]
    ctx.log("correspondence: %d points, %d compared outputs, %d files, %d points disagree (%.1fs in coqc)"
            % (len(all_points), n_outs, len(files), len(diff_points), time.time() - t0))
    ctx.obligation("every lsq_linear call of fractional_abundance was observed (matrix tie)", "correspondence",
                   lsq_unseen == 0, "%d cases where the number of captured solver calls differs from the number of points" % lsq_unseen)

    # ---- failing-input search: the property's statement on the implementation's outputs -------------
    worst = {"resolved": 0.0, "unresolved": 0.0}
    n_class = {"resolved": 0, "unresolved": 0}
    nontrivial = 0
    for case, k, pt in all_points:
        interp = case["rep"] in ("interp1d", "interp2d", "eqmap")
        fails = impl.property_at_point(pt, impl.TOL_INTERP if interp else 0.0, ztol_of(case))
        fails += list(pt.get("extra_fails", []))
        ex, _ = impl.closed_form(pt["ion"], pt["rec"], pt["cx"], pt["n_e"], pt["n_d"])
        tol = impl.base_tol(ex) + (impl.TOL_INTERP if interp else 0.0)
        cls = "resolved" if impl.base_tol(ex) == impl.TOL_RESOLVED else "unresolved"
        n_class[cls] += 1
        if max(ex) < F(99, 100):
            nontrivial += 1
        for o in pt["outs"]:
            if o["kind"] == "frac":
                worst[cls] = max(worst[cls], float(max(abs(F(a) - b) for a, b in zip(o["values"], ex))))
        # donor sensitivity: with a donor the neutral fraction must be the with-donor one, not the no-donor one
        if pt["cx"] is not None and pt["n_d"] > 0:
            ex0, _ = impl.closed_form(pt["ion"], pt["rec"], None, pt["n_e"], 0.0)
            gap = ex[0] - ex0[0]
            if gap > 100 * F(tol):
                for o in pt["outs"]:
                    f0 = None
                    if o["kind"] == "frac":
                        f0 = F(o["values"][0])
                    elif o["kind"] == "dens":
                        f0 = F(o["values"][0]) / F(o["n_el"])
                    elif o["kind"] == "neut" and sum(o["values"]) > 1e-9 * pt["n_e"]:     # not a clamped / noise-level result
                        f0 = F(o["values"][0]) / sum(F(v) for v in o["values"])
                    if f0 is not None and f0 < ex0[0] + gap / 2:
                        fails.append(("the CX donor has no effect on the result",
                                      "%s: neutral fraction %.6g, with donor %.6g, without %.6g" % (
                                          o["src"], float(f0), float(ex[0]), float(ex0[0]))))
        # values of interpolators / equilibrium-mapped functions between knots: linear interpolation of the knots' exact values
        for le in case.get("lerp", []):
            if le["k"] == k:
                po = case["points"][le["other"]]
                exo, _ = impl.closed_form(po["ion"], po["rec"], po["cx"], po["n_e"], po["n_d"])
                sa, sb = (F(le["n_el"][0]), F(le["n_el"][1])) if le["scale"] is None else (F(le["scale"]), F(le["scale"]))
                want = [(1 - le["w"]) * a * sa + le["w"] * b * sb for a, b in zip(ex, exo)]
                if max(abs(F(v) - wv) for v, wv in zip(le["values"], want)) > F(max(tol, impl.base_tol(exo) + impl.TOL_INTERP)) * max(sa, sb):
                    fails.append(("value of an interpolated / equilibrium-mapped entry point differs from the balance solution",
                                  "%s: %s vs %s" % (le["src"], le["values"][:4], [float(v) for v in want[:4]])))
        for l2 in case.get("lerp2", []):
            if l2["k"] == k:
                ny_ = l2["ny"]
                corners = [case["points"][q] for q in (k, (l2["i"] + 1) * ny_ + l2["j"], k + 1, (l2["i"] + 1) * ny_ + l2["j"] + 1)]
                exs = [impl.closed_form(q["ion"], q["rec"], q["cx"], q["n_e"], q["n_d"])[0] for q in corners]
                u = (F(l2["x"]) - F(l2["xs"][l2["i"]])) / (F(l2["xs"][l2["i"] + 1]) - F(l2["xs"][l2["i"]]))
                v = (F(l2["y"]) - F(l2["ys"][l2["j"]])) / (F(l2["ys"][l2["j"] + 1]) - F(l2["ys"][l2["j"]]))
                want = [(1 - v) * ((1 - u) * a + u * b) + v * ((1 - u) * c + u * d) for a, b, c, d in zip(*exs)]
                t2 = max(impl.base_tol(e) for e in exs) + impl.TOL_INTERP
                if max(abs(F(g) - wv) for g, wv in zip(l2["values"], want)) > t2:
                    fails.append(("value of an interpolated / equilibrium-mapped entry point differs from the balance solution",
                                  "%s: %s vs %s" % (l2["src"], l2["values"][:4], [float(w_) for w_ in want[:4]])))
        # equilibrium-mapped neutrality densities on the knots' flux surfaces (cubic between knots)
        for en in case.get("eq_neut", []):
            if en["k"] == k:
                ref = [o for o in pt["outs"] if o["kind"] == "neut"][0]["values"]
                scale = max(max(o["values"]) for q in case["points"] for o in q["outs"] if o["kind"] == "neut")   # of the whole profile
                dpsi = abs(en["psin_at_r"] - case["fv"][k])
                if max(abs(a - b) for a, b in zip(en["values"], ref)) > 1e-3 * scale + 20.0 * scale * dpsi:
                    fails.append(("equilibrium-mapped neutrality densities differ from the profile on the knot's flux surface",
                                  "equilibrium_map3d_match_plasma_neutrality: r=%r: %s vs %s" % (en["r"], en["values"][:4], ref[:4])))
        for claim, detail in fails:
            search_fails.append({"claim": claim, "detail": detail, "case": {kk: vv for kk, vv in case.items() if kk not in ("points", "lerp", "lerp2", "eq_neut", "fv")},
                                 "point_index": k,
                                 "point": {"Z": len(pt["ion"]), "n_e": pt["n_e"], "n_e_hex": float(pt["n_e"]).hex(), "t_e": pt["t_e"],
                                           "n_d": pt["n_d"], "ion": pt["ion"], "rec": pt["rec"], "cx": pt["cx"], "n_el": pt["n_el"],
                                           "species": pt["species"]},
                                 "outputs": [{"src": o["src"], "kind": o["kind"], "values": o["values"]} for o in pt["outs"]]})
    ctx.obligation("executable property on the implementation (%d points, all entry points)" % len(all_points), "search",
                   not search_fails, str([(s["claim"], s["detail"]) for s in search_fails[:3]]))
    seen_claims = set()
    for sf in search_fails:
        key = "c09:" + sf["claim"][:48] + ":" + sf["detail"].split(":")[0].split("[")[0].split("@")[0][:48]
        if key in seen_claims:
            continue
        seen_claims.add(key)
        if len(seen_claims) > 6:
            break
        ctx.violation(key, "%s (%s)" % (sf["claim"], sf["detail"][:300]), sf, found=True)
    if diff_points and not search_fails:
        for case, k in diff_points[:3]:
            pt = case["points"][k]
            ctx.violation("c09-diff:%s" % case["rep"],
                          "model and implementation differ at a point of a %s case (Z=%d); the executable property found no failing input"
                          % (case["rep"], case["Z"]),
                          {"case": {kk: vv for kk, vv in case.items() if kk not in ("points", "lerp", "lerp2", "eq_neut", "fv")}, "point_index": k,
                           "n_e": pt["n_e"], "t_e": pt["t_e"], "n_d": pt["n_d"],
                           "outputs": [{"src": o["src"], "values": o["values"]} for o in pt["outs"]],
                           "correspondence": "coq/Gen/C09/cases_*.v"}, found=False)

    # ---- argument forms the unchanged code rejects, and empty profiles: the outcome is part of the expected behaviour ------
    pad = impl.make_stub("forms", 1e-14, 1.0)
    pel = impl.element(3)
    arr3, te3 = np.array([2e18, 4e18, 8e18]), np.array([10.0, 20.0, 40.0])

    def outcome(fn):
        try:
            r = fn()
            return "ok:" + ",".join(str(np.asarray(r[c]).shape) for c in sorted(r))
        except Exception as ex:
            return type(ex).__name__
    forms = {
        "python list profiles": (lambda: ib.fractional_abundance(pad, pel, list(arr3), list(te3)), "ValueError"),
        "tuple profiles": (lambda: ib.fractional_abundance(pad, pel, tuple(arr3), tuple(te3)), "ValueError"),
        "0-d arrays": (lambda: ib.fractional_abundance(pad, pel, np.array(2e18), np.array(10.0)), "ValueError"),
        "scalar n_e with array t_e": (lambda: ib.fractional_abundance(pad, pel, 2e18, te3), "ValueError"),
        "arrays of different length": (lambda: ib.from_elementdensity(pad, pel, arr3[:2] * 1e-3, arr3, te3), "ValueError"),
        "Function1D without free_variable": (lambda: ib.fractional_abundance(pad, pel, impl._arg1d(2e18, 0.0), impl._arg1d(10.0, 0.0)), "ValueError"),
        "empty profiles": (lambda: ib.fractional_abundance(pad, pel, np.zeros(0), np.zeros(0)), "ok:(0,),(0,),(0,),(0,)"),
        "empty profiles, no species": (lambda: ib.match_plasma_neutrality(pad, pel, [], np.zeros(0), np.zeros(0)), "ok:(0,),(0,),(0,),(0,)"),
    }
    form_out = {k: (outcome(fn), want) for k, (fn, want) in forms.items()}
    bad_forms = {k: v for k, v in form_out.items() if v[0] != v[1]}
    ctx.obligation("outcome of rejected / degenerate argument forms is the recorded one (%d forms)" % len(forms), "correspondence",
                   not bad_forms, str(bad_forms))
    dist["argument_form_outcomes"] = {k: v[0] for k, v in form_out.items()}

    # ---- argument policy: Coq model of _assign_donor_density / _parameters_to_numpy vs the implementation -----------------
    import re
    prow, pkeys = impl.policy_table(ib)
    ptxt = ("Require Import Cherab.Common.Qx Cherab.Model.C09_Balance Cherab.Model.C09_Interp.\n"
            "Definition enc (o : outcome) : list nat := match o with OkShape s => 1%nat :: s | ErrValue => [2%nat] | ErrOther => [3%nat] end.\n"
            "Eval vm_compute in (map enc [\n" + ";\n".join(r["coq"] for r in prow) + "]).\n"
            "Eval vm_compute in [" + "; ".join("ion_keys %d; rec_keys %d" % (zz, zz) for zz in sorted(pkeys)) + "].\n"
            "Require Import Cherab.Model.C09_Check.\n"
            "Eval vm_compute in (map (fun q => (Qnum q, Zpos (Qden q))) (map Qred [res_threshold; tol_resolved; tol_unresolved; tol_interp])).\n")
    pres = coqc_many([ctx.write_gen("policy.v", ptxt)], timeout=600)
    pok, pout = list(pres.values())[0]
    pvals = parse_evals(pout) if pok else []
    pbad = []
    if pok and len(pvals) == 3:
        nested = lambda txt: [[int(t) for t in re.findall(r"\d+", m)] for m in re.findall(r"\[([^\[\]]*)\]", txt)]
        model_codes, model_keys = nested(pvals[0]), nested(pvals[1])
        if len(model_codes) != len(prow):
            pbad.append("model returned %d outcomes for %d forms" % (len(model_codes), len(prow)))
        for r, m in zip(prow, model_codes):
            if (m != [3] and r["impl"] != m) or (m == [3] and r["impl"][0] not in (2, 3)):
                pbad.append("%s: implementation %s, model %s (1 :: shape = accepted, 2 = ValueError, 3 = other error)" % (r["form"], r["impl"], m))
        want_keys = [k for zz in sorted(pkeys) for k in (pkeys[zz][0], pkeys[zz][1])]
        if want_keys != model_keys or any(pkeys[zz][2] != pkeys[zz][1] for zz in pkeys):
            pbad.append("charges requested by get_rates_*: implementation %s, model %s" % (want_keys, model_keys))
    if pok and len(pvals) == 3:
        nums = [int(t) for t in re.findall(r"-?\d+", pvals[2])]
        coq_consts = [F(nums[i], nums[i + 1]) for i in range(0, len(nums) - 1, 2)]
        py_consts = [impl.RES_THRESHOLD, F(1, 10 ** 7), F(1), F(1, 10 ** 8)]
        same = (coq_consts == py_consts and [float(c) for c in coq_consts[1:]] == [impl.TOL_RESOLVED, impl.TOL_UNRESOLVED, impl.TOL_INTERP])
        ctx.obligation("tolerances used by the search are the constants of Model/C09_Check.v (read back from Coq)", "tie", same,
                       "coq %s python %s" % (coq_consts, py_consts))
    ctx.obligation("argument policy of fractional_abundance + charges of get_rates_*: model (Coq) vs implementation (%d forms)" % len(prow),
                   "correspondence", pok and len(pvals) == 3 and not pbad, pout[-500:] if not pok else str(pbad[:5]))
    for b in pbad[:2]:
        ctx.violation("c09:argument-policy", "argument handling differs from the model: " + b, {"detail": pbad[:20]}, found=False)
    dist["argument_policy"] = {"forms": len(prow), "accepted": sum(1 for r in prow if r["impl"][0] == 1),
                               "ValueError": sum(1 for r in prow if r["impl"] == [2]), "other_error": sum(1 for r in prow if r["impl"] == [3])}

    # ---- ill-conditioned tables: recorded finding ------------------------------------------------------
    del SCALE_PROBES[:]
    n_ill, ill = ill_conditioned_probe(ctx, ib)
    if ill is not None:
        ill[1]["scale_covariance_probes"] = list(SCALE_PROBES)
    ill_found = ill is not None and ill[0] > F(1, 1000)
    if ill_found:
        ctx.violation(KNOWN_KEY,
                      "fractional_abundance returns fractions far from the unique solution of the balance equations for a rate table "
                      "spanning 7 decades, 1e-20..1e-13 m^3/s (Z=%d: max deviation %.3g, sum %.6g): the bounded least-squares solve is ill-conditioned"
                      % (ill[1]["Z"], ill[1]["max_abs_deviation"], ill[1]["sum_impl"]), ill[1], found=True)

    ctx.coverage.update({
        "evaluations": n_outs,
        "distinct_nontrivial": nontrivial,
        "rule": "one evaluation = one output vector (fractions / densities / neutrality densities / interpolated values / the "
                "lsq_linear matrix) of one entry point at one (n_e, t_e, n_D) point, compared inside Coq with the model; a point is "
                "non-trivial when no charge state holds more than 99% of the population (so that a swapped, dropped or miskeyed rate "
                "moves the answer by more than the tolerance)",
        "distribution": dict(dist, cases=len(cases), corpus_cases=n_corpus, points=len(all_points),
                             ill_conditioned_probe_tables=n_ill,
                             ill_conditioned_worst_deviation=float(ill[0]) if ill else None,
                             scale_covariance_probes_same_finding=list(SCALE_PROBES)),
        "tolerance": {"resolved points (every exact fraction >= 1e-12, decided by the model inside Coq)":
                          "abs 1e-7 on fractions; %d points, worst deviation this run %.3g (calibration: 1.6e-10 over 25 000 points)"
                          % (n_class["resolved"], worst["resolved"]),
                      "unresolved points (some exact fraction < 1e-12: lsq_linear loses accuracy, same root cause as the recorded finding)":
                          "AMBIGUOUS: solver outputs not compared (tolerance 1); matrix still compared; %d points, worst deviation this run %.3g"
                          % (n_class["unresolved"], worst["unresolved"]),
                      "matrix entries": "captured lsq_linear argument vs Model.balance_matrix: relative 2^-46, zeros exact, rhs exact",
                      "matrix-filling statements": "translated from the current source on every run; kernel-checked lemma "
                                                   "source_fill_is_model_entry (exact, Z = 1..18, every cell, with / without CX)",
                      "argument policy": "1792 argument-form combinations of fractional_abundance: accepted shape / ValueError / other error, "
                                         "exact comparison with Model.fractional_args evaluated by Coq; charges of get_rates_* exact",
                      "interpolation between knots": "segment and weight located by the model (Model/C09_Interp.locate) from the knots and x; "
                                                     "segment index exact, values as for fractions +1e-8",
                      "search tolerances": "read back from the Coq constants on every run",
                      "interpolated values": "+1e-8", "neutrality charge sum": "relative 2^-40 (Coq) / 1e-9 (search)"},
        "partial": ["C09_entry_points_agree_partial: interpolators and equilibrium mapping are raysect/EFITEquilibrium objects outside "
                    "the model; they are tied by the correspondence at knots and by linear interpolation between the model's knot values",
                    "the floating-point output of scipy lsq_linear is validated per case against the unique exact solution "
                    "(C09_lsq_minimiser_is_closed_form says what the exact minimiser is); no theorem about its rounding",
                    "equilibrium_map3d_match_plasma_neutrality: knots' flux surfaces only, relative 1e-3 (cubic interpolation between knots)",
                    "rate tables wider than 2 decades are outside the tie because the solver itself fails there (known finding %s)" % KNOWN_KEY],
    })
    c0 = cases[min(n_corpus, len(cases) - 1)]
    ctx.coverage["samples"] = [{"rep": c0["rep"], "Z": c0["Z"], "stream": c0["stream"], "donor": c0["donor"],
                                "point0": {kk: c0["points"][0][kk] for kk in ("n_e", "t_e", "n_d", "ion", "rec", "cx")},
                                "outputs0": [{"src": o["src"], "values": o["values"]} for o in c0["points"][0]["outs"]]}]
    ctx.grep_gate()
