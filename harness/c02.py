"""C02 -- Line shapes are normalised: spectral integral equals supplied radiance.

Theorems: coq/Properties/C02.v (any function in place of erf, any grid, any number of bins / components).
Tie: correspondence -- the seven line-shape classes (through add_line) and add_gaussian_line are run on
generated plasma states / fields / directions / spectral windows; every bin of the returned spectrum is
compared inside Coq (vm_compute) with the Gallina model's bin, the libm functions being finite look-up tables.
Search: the executable statement of the property on the implementation (float arithmetic, math.erf).
"""
import math
import os
import re
from fractions import Fraction as F

import numpy as np

from common import qlit, zlit, dyadic, coqc_many, parse_evals, parse_zlist, REPO
import c02_oracle as orc

THEOREMS = ["C02_gauss_loop_is_bin_average", "C02_lorentz_loop_is_bin_integral", "C02_components_add_up",
            "C02_gauss_integral_telescopes", "C02_gauss_support", "C02_gauss_window_fraction",
            "C02_gauss_bounds", "C02_gauss_total_partial", "C02_line_linear",
            "C02_zeeman_weights", "C02_pi_plus_sigma_is_unpolarised", "C02_multiplet_shares",
            "C02_zeeman_structure_normalised", "C02_mse_weights", "C02_stark_weights",
            "C02_stark_integral_partial", "C02_zero_width_adds_nothing", "C02_quadrature_cache_row",
            "C02_samples_integral", "C02_range_ordered", "C02_gauss_whole_radiance", "C02_stark_whole_radiance_partial",
            "C02_samples_pi_plus_sigma", "C02_component_order_irrelevant", "C02_polarisation_setter_history",
            "C02_validation_sound", "C02_erf_truncation_constant_R", "C02_gauss_whole_radiance_R",
            "C02_stark_normalisation_constant_R"]

CLASSES = ["GaussianLine", "MultipletLineShape", "ZeemanTriplet", "ParametrisedZeemanTriplet", "ZeemanMultiplet",
           "StarkBroadenedLine", "BeamEmissionMultiplet"]
POLARISED = ("ZeemanTriplet", "ParametrisedZeemanTriplet", "ZeemanMultiplet", "StarkBroadenedLine")
POLS = ("no", "pi", "sigma")
COQPOL = {"no": "PolNo", "pi": "PolPi", "sigma": "PolSigma"}


# ---------------------------------------------------------------------------------------------
# constants of the implementation, read from the source on every run (fail-closed translator)
# ---------------------------------------------------------------------------------------------
def read_constants():
    txt = open(os.path.join(REPO, "cherab/core/utility/constants.pyx")).read()
    out = {}
    for name, key in (("ATOMIC_MASS", "amu"), ("ELEMENTARY_CHARGE", "e"), ("SPEED_OF_LIGHT", "c"),
                      ("BOHR_MAGNETON", "muB"), ("HC_EV_NM", "hc")):
        m = re.findall(r"^\s*double\s+%s\s*=\s*([0-9.eE+-]+)\s*(?:#.*)?$" % name, txt, re.M)
        if len(m) != 1:
            raise RuntimeError("constants.pyx: cannot read %s" % name)
        out[key] = float(m[0])
    return out


def read_model_constants():
    """the numbers the Gallina model contains as literals, re-read from the current source (fail-closed): DEF constants,
    the three polynomial coefficient lists and the two thresholds of StarkBroadenedLine"""
    import ast
    from fractions import Fraction

    def src(rel):
        return open(os.path.join(REPO, rel)).read()

    def one(txt, pattern, what):
        m = re.findall(pattern, txt, re.M)
        if len(m) != 1:
            raise RuntimeError("translator: cannot read %s (%d matches)" % (what, len(m)))
        return m[0]
    g, st, ms = src("cherab/core/model/lineshape/gaussian.pyx"), src("cherab/core/model/lineshape/stark.pyx"), \
        src("cherab/core/model/lineshape/beam/mse.pyx")
    out = {"cutoff_sigma": Fraction(one(g, r"^DEF GAUSSIAN_CUTOFF_SIGMA = ([0-9.eE+-]+)\s*$", "GAUSSIAN_CUTOFF_SIGMA")),
           "lorentz_cutoff": Fraction(one(st, r"^DEF LORENTZIAN_CUTOFF_GAMMA = ([0-9.eE+-]+)\s*$", "LORENTZIAN_CUTOFF_GAMMA")),
           "stark_splitting_factor": Fraction(one(ms, r"^DEF STARK_SPLITTING_FACTOR = ([0-9.eE+-]+)\s*$", "STARK_SPLITTING_FACTOR")),
           "stark_l2t_low": Fraction(one(st, r"^\s*if fwhm_lorentz_to_total < ([0-9.eE+-]+):\s*$", "lower weight threshold")),
           "stark_l2t_high": Fraction(one(st, r"^\s*elif fwhm_lorentz_to_total > ([0-9.eE+-]+):\s*$", "upper weight threshold"))}
    for name, attr in (("poly_gauss", "_fwhm_poly_coeff_gauss"), ("poly_lorentz", "_fwhm_poly_coeff_lorentz"),
                       ("poly_weight", "_weight_poly_coeff")):
        txt = one(st, r"^\s*self\.%s = (\[[^\]]*\])\s*$" % attr, attr)
        node = ast.parse(txt, mode="eval").body
        vals = []
        for el in node.elts:
            seg = ast.get_source_segment(txt, el)
            vals.append(Fraction(seg.replace(" ", "")))
        out[name] = vals
    return out


def tie_text(mc, stark_c):
    ql = lambda l: "[" + "; ".join(qlit(v) for v in l) + "]"
    return _tie_text(mc, ql).replace("Open Scope Q_scope.\n", "Open Scope Q_scope.\nDefinition STARKC : Q := %s.\n" % qlit(stark_c), 1)


def _tie_text(mc, ql):
    return ("Require Import Cherab.Common.Qx Cherab.Model.C02_LineShape Cherab.Model.C02_Check.\nOpen Scope Q_scope.\n"
            "(* the constants inside the model are those of the current source *)\n"
            "Lemma source_constants_tie :\n  (Qeq_bool cutoff_sigma %s && Qeq_bool lorentz_cutoff %s && Qeq_bool stark_splitting_factor %s\n"
            "   && Qeq_bool stark_l2t_low %s && Qeq_bool stark_l2t_high %s\n"
            "   && qlist_eqb poly_gauss %s\n   && qlist_eqb poly_lorentz %s\n   && qlist_eqb poly_weight %s) = true.\n"
            "Proof. vm_compute. reflexivity. Qed.\n"
            "(* the implementation's STARK_NORM_COEFFICIENT lies in the bracket certified by C02_stark_normalisation_constant_R *)\n"
            "Lemma stark_norm_coefficient_tie : (Qle_bool (2641279470 # 1000000000) STARKC && Qle_bool STARKC (2641279472 # 1000000000)) = true.\n"
            "Proof. vm_compute. reflexivity. Qed.\n" % (
                qlit(mc["cutoff_sigma"]), qlit(mc["lorentz_cutoff"]), qlit(mc["stark_splitting_factor"]), qlit(mc["stark_l2t_low"]),
                qlit(mc["stark_l2t_high"]), ql(mc["poly_gauss"]), ql(mc["poly_lorentz"]), ql(mc["poly_weight"])))


# ---------------------------------------------------------------------------------------------
# the implementation
# ---------------------------------------------------------------------------------------------
class Impl:
    def __init__(self):
        from raysect.core import Point3D, Vector3D
        from raysect.optical import Spectrum
        from cherab.core import Plasma, Species, Maxwellian, Beam, Line, AtomicData
        from cherab.core.atomic import elements, ZeemanStructure
        from cherab.core import model as M
        from cherab.core.model.lineshape import add_gaussian_line
        from cherab.core.model.lineshape.stark import add_lorentzian_line, StarkFunction
        from cherab.core.model.lineshape.doppler import doppler_shift, thermal_broadening
        from cherab.core.math import ConstantVector3D
        self.__dict__.update(locals())
        self.elements = [elements.hydrogen, elements.deuterium, elements.tritium, elements.helium, elements.helium3,
                         elements.beryllium, elements.carbon, elements.nitrogen, elements.neon, elements.argon,
                         elements.tungsten]
        self.ad = AtomicData()
        from cherab.core.math.integrators import GaussianQuadrature
        self.GaussianQuadrature = GaussianQuadrature
        self.pool = {}            # reused integrator objects: index -> [object, full history]
        self._integ_for = {}      # id(case) -> integrator (the setter calls of a case are made once)

    @staticmethod
    def apply_ops(q, ops):
        """calls the public setters; returns the list 'ValueError raised' per call"""
        errs = []
        for name, val in ops:
            try:
                if name == "integrand":
                    q.integrand = (lambda x: 1.0 + x * x) if val else 2.5
                else:
                    setattr(q, name, val)
                errs.append(False)
            except ValueError:
                errs.append(True)
        return errs

    def integrator(self, c):
        """the integrator of a Stark case, configured as the case says: None = the class default; otherwise a constructor
        call and/or a sequence of setter calls, possibly on an object reused from earlier cases"""
        spec = c.get("integ")
        if spec is None:
            return None
        if "key" not in spec:
            spec["key"] = len(self._integ_for) + 1
        if spec["key"] in self._integ_for:
            return self._integ_for[spec["key"]]
        idx = spec.get("pool")
        if idx is not None and idx in self.pool:
            q, hist = self.pool[idx]
        else:
            rtol, mx, mn = spec["ctor"]
            q = self.GaussianQuadrature(relative_tolerance=rtol, max_order=mx, min_order=mn)
            hist = [["ctor", [rtol, mx, mn]]]
            if idx is not None:
                self.pool[idx] = [q, hist]
        self.apply_ops(q, spec["ops"])
        hist.extend(spec["ops"])
        # whatever the history, the parameters in force must be at least as demanding as the defaults the tolerance of the
        # correspondence was measured with
        fin = []
        if q.max_order < 30:
            fin.append(["max_order", 50])
        if q.relative_tolerance > 1e-5:
            fin.append(["relative_tolerance", 1e-5])
        self.apply_ops(q, fin)
        hist.extend(fin)
        spec["history_of_object"] = [list(h) for h in hist]
        spec["final"] = [q.relative_tolerance, q.max_order, q.min_order]
        self._integ_for[spec["key"]] = q
        return q

    def spectrum(self, c, smp0=None):
        s = self.Spectrum(c["gmin"], c["gmax"], c["bins"])
        if smp0 is not None:
            s.samples[:] = smp0
        return s

    def scene(self, c, state=None):
        """state = None: constant functions (a scene used once).  Otherwise the distributions and the field are Python
        callables that read the mutable dictionary `state`, so that one live object can be driven through a history."""
        V = self.Vector3D
        plasma = self.Plasma()
        el = self.elements[c["element"]]
        if state is None:
            plasma.b_field = self.ConstantVector3D(V(*c["b"]))
            plasma.electron_distribution = self.Maxwellian(c["ne"], c["te"], V(0, 0, 0), 9.1093837015e-31)
            dist = self.Maxwellian(1e18, c["ts"], V(*c["vel"]), el.atomic_weight * 1.66053906660e-27)
        else:
            plasma.b_field = lambda x, y, z: V(*state["b"])
            plasma.electron_distribution = self.Maxwellian(lambda x, y, z: state["ne"], lambda x, y, z: state["te"], V(0, 0, 0),
                                                           9.1093837015e-31)
            dist = self.Maxwellian(1e18, lambda x, y, z: state["ts"], lambda x, y, z: V(*state["vel"]),
                                   el.atomic_weight * 1.66053906660e-27)
        sp = self.Species(el, 0, dist)
        line = self.Line(el, 0, (3, 2))
        return plasma, sp, line, el

    def stub_atomic_data(self, c):
        """an AtomicData whose defaults are the case's values: exercises `argument or atomic_data.method(line)`"""
        impl = self

        class StubAD(self.AtomicData):
            def zeeman_triplet_parameters(self, line):
                return tuple(c["abg"])

            def stark_model_coefficients(self, line):
                return tuple(c["stark"])

            def zeeman_structure(self, line, b_field=None):
                return impl.zeeman_structure(c, {})
        return StubAD()

    def zeeman_structure(self, c, forms):
        def fn(a, k):
            form = forms.get("zs", "callable")
            if k == 0 and form == "float":
                return a
            if form == "function1d":
                from raysect.core.math.function.float import Arg1D
                return a + k * Arg1D()
            return lambda b, a=a, k=k: a + k * b
        groups = [[(fn(aw, kw), fn(ar, kr)) for aw, kw, ar, kr in c["zs_funcs"][g]] for g in range(3)]
        if forms.get("zs_container") == "tuple":
            groups = [tuple(g) for g in groups]
        return self.ZeemanStructure(*groups)

    @staticmethod
    def pol_form(pol, forms):
        f = forms.get("pol_case", "lower")
        return {"lower": pol, "upper": pol.upper(), "title": pol.title()}[f]

    def build(self, c, pol=None, state=None):
        import numpy as np
        plasma, sp, line, el = self.scene(c, state)
        M, cls, w = self.M, c["cls"], c["w"]
        forms = c.get("forms", {})
        pol = pol or c.get("pol", "no")
        polkw = {} if (pol == "no" and forms.get("pol_default")) else {"polarisation": self.pol_form(pol, forms)}
        if forms.get("w_int") and float(w).is_integer():
            w = int(w)
        num = (lambda t: tuple(np.float64(v) for v in t)) if forms.get("params") == "numpy" else tuple
        if cls == "GaussianLine":
            return M.GaussianLine(line, w, sp, plasma, self.ad)
        if cls == "MultipletLineShape":
            mult = [[x for x, _ in c["mult"]], [r for _, r in c["mult"]]]
            f = forms.get("mult", "lists")
            if f == "tuples":
                mult = tuple(tuple(r) for r in mult)
            elif f == "array":
                mult = np.array(mult)
            elif f == "readonly":
                mult = np.array(mult)
                mult.setflags(write=False)
            elif f == "strided":
                big = np.zeros((4, 2 * len(c["mult"])))
                big[::2, ::2] = mult
                mult = big[::2, ::2]
            elif f == "float32" and all(float(np.float32(v)) == v for r in mult for v in r):
                mult = np.array(mult, dtype=np.float32)
            return M.MultipletLineShape(line, w, sp, plasma, self.ad, mult)
        if cls == "ZeemanTriplet":
            return M.ZeemanTriplet(line, w, sp, plasma, self.ad, **polkw)
        if cls == "ParametrisedZeemanTriplet":
            if forms.get("params") == "atomic_data":
                return M.ParametrisedZeemanTriplet(line, w, sp, plasma, self.stub_atomic_data(c), **polkw)
            return M.ParametrisedZeemanTriplet(line, w, sp, plasma, self.ad, num(c["abg"]), **polkw)
        if cls == "ZeemanMultiplet":
            if forms.get("params") == "atomic_data":
                return M.ZeemanMultiplet(line, w, sp, plasma, self.stub_atomic_data(c), **polkw)
            return M.ZeemanMultiplet(line, w, sp, plasma, self.ad, self.zeeman_structure(c, forms), **polkw)
        if cls == "StarkBroadenedLine":
            q = self.integrator(c)
            kw = dict(polkw)
            if q is not None:
                kw["integrator"] = q
            if forms.get("params") == "atomic_data":
                return M.StarkBroadenedLine(line, w, sp, plasma, self.stub_atomic_data(c), **kw)
            return M.StarkBroadenedLine(line, w, sp, plasma, self.ad, num(c["stark"]), **kw)
        if cls == "BeamEmissionMultiplet":
            beam = self.Beam()
            beam.plasma = plasma
            beam.energy = c["benergy"]
            beam.temperature = c["btemp"]
            beam.element = el
            f = forms.get("mse", "float")
            args = list(c["mse"])
            if f == "callable":
                args = [lambda ne, be, v=args[0]: v] + [(lambda ne, v=v: v) for v in args[1:]]
            elif f == "function":
                from raysect.core.math.function.float import Constant1D, Constant2D
                args = [Constant2D(args[0])] + [Constant1D(v) for v in args[1:]]
            ls = M.BeamEmissionMultiplet(line, w, beam, self.ad, *args)
            self._last_beam = beam
            return ls
        raise ValueError(cls)

    def radiance_form(self, R, c):
        import numpy as np
        f = c.get("forms", {}).get("R", "float")
        if f == "numpy":
            return np.float64(R)
        if f == "int" and float(R).is_integer() and abs(R) < 2 ** 53:
            return int(R)
        return R

    # ---- one live object driven through a history -------------------------------------------------------
    def live(self, c):
        """builds the line-shape object of case c ONCE, on a scene whose functions read a mutable state"""
        state = {k: c[k] for k in ("b", "ne", "te", "ts", "vel")}
        ls = self.build(c, state=state)
        return {"ls": ls, "state": state, "beam": getattr(self, "_last_beam", None) if c["cls"] == "BeamEmissionMultiplet" else None,
                "spectrum": None}

    def run_live(self, lv, c, reuse_spectrum=False):
        """brings the live object to the configuration of step c through the public routes (scene state, polarisation
        setter, Beam setters), then calls add_line on a new spectrum or on the spectrum of the previous step"""
        P, V = self.Point3D, self.Vector3D
        for k in ("b", "ne", "te", "ts", "vel"):
            lv["state"][k] = c[k]
        ls = lv["ls"]
        if c["cls"] in POLARISED:
            ls.polarisation = self.pol_form(c["pol"], c.get("forms", {}))
        if lv["beam"] is not None:
            lv["beam"].energy = c["benergy"]
            lv["beam"].temperature = c["btemp"]
        if not (reuse_spectrum and lv["spectrum"] is not None):
            lv["spectrum"] = self.spectrum(c, c.get("smp0"))
        s = lv["spectrum"]
        R = self.radiance_form(c["R"], c)
        if c["cls"] == "BeamEmissionMultiplet":
            s = ls.add_line(R, P(0, 0, 0), P(0, 0, 0), V(*c["bdir"]), V(*c["dir"]), s)
        else:
            s = ls.add_line(R, P(0.1, 0.2, 0.3), V(*c["dir"]), s)
        lv["spectrum"] = s
        return [float(v) for v in s.samples]

    def run(self, c, pol=None, smp0=None, R=None):
        """returns the samples after add_line as a list of floats"""
        P, V = self.Point3D, self.Vector3D
        R = self.radiance_form(c["R"], c) if R is None else R
        s = self.spectrum(c, smp0)
        if c["cls"] == "direct":
            s = self.add_gaussian_line(R, c["lam"], c["sig"], s)
            return [float(v) for v in s.samples]
        if c["cls"] == "direct_lorentz":
            q = self.integrator(c) or self.GaussianQuadrature()
            s = self.add_lorentzian_line(R, c["lam"], c["sig"], s, q)
            return [float(v) for v in s.samples]
        ls = self.build(c, pol)
        if c["cls"] == "BeamEmissionMultiplet":
            s = ls.add_line(R, P(0, 0, 0), P(0, 0, 0), V(*c["bdir"]), V(*c["dir"]), s)
        else:
            s = ls.add_line(R, P(0.1, 0.2, 0.3), V(*c["dir"]), s)
        return [float(v) for v in s.samples]


def atomic_weight(impl, c):
    return impl.elements[c["element"]].atomic_weight


# ---------------------------------------------------------------------------------------------
# the component walk of one case (exact, for the oracle tables) and the Coq text of the case
# ---------------------------------------------------------------------------------------------
def fr(x):
    return orc.fr(x)


def v3(x):
    return tuple(fr(t) for t in x)


def walk_case(W, c, m, pol=None, R=None):
    """component list [(kind, R, lam, width)] of the model for the case (Fractions)"""
    cls = c["cls"]
    pol = pol or c.get("pol", "no")
    R = fr(c["R"] if R is None else R)
    if cls == "direct":
        return [("G", R, fr(c["lam"]), fr(c["sig"]))]
    if cls == "direct_lorentz":
        return [("L", R, fr(c["lam"]), fr(c["sig"]))]
    w, ts, vel, d = fr(c["w"]), fr(c["ts"]), v3(c["vel"]), v3(c["dir"])
    b = v3(c["b"])
    m = fr(m)
    if cls == "GaussianLine":
        return W.gaussian_line(w, m, ts, vel, R, d)
    if cls == "MultipletLineShape":
        return W.multiplet_line(w, m, [(fr(x), fr(r)) for x, r in c["mult"]], ts, vel, R, d)
    if cls == "ZeemanTriplet":
        return W.zeeman_triplet(pol, w, m, ts, vel, b, R, d)
    if cls == "ParametrisedZeemanTriplet":
        a_, b_, g_ = [fr(t) for t in c["abg"]]
        return W.param_zeeman_triplet(pol, a_, b_, g_, w, m, ts, vel, b, R, d)
    if cls == "ZeemanMultiplet":
        raws = [[(fr(x), fr(r)) for x, r in c[k]] for k in ("raw_pi", "raw_sp", "raw_sm")]
        return W.zeeman_multiplet(pol, raws[0], raws[1], raws[2], w, m, ts, vel, b, R, d)
    if cls == "StarkBroadenedLine":
        cij, aij, bij = [fr(t) for t in c["stark"]]
        return W.stark_line(pol, cij, aij, bij, w, m, fr(c["ne"]), fr(c["te"]), ts, vel, b, R, d)
    if cls == "BeamEmissionMultiplet":
        s2p, s1s0, p2p3, p4p3 = [fr(t) for t in c["mse"]]
        return W.mse_multiplet(w, m, fr(c["btemp"]), fr(c["benergy"]), s2p, s1s0, p2p3, p4p3, fr(c["ne"]), fr(c["te"]),
                               b, R, v3(c["bdir"]), d)
    raise ValueError(cls)


def qv(x):
    return "{| vx := %s; vy := %s; vz := %s |}" % tuple(qlit(t) for t in x)


def qpairs(l):
    return "[" + "; ".join("(%s, %s)" % (qlit(a), qlit(b)) for a, b in l) + "]"


def coq_comps(c, m, T="T"):
    """Coq term: the MODEL's component list for the case (the class model applied to the physical inputs)"""
    cls = c["cls"]
    pol = COQPOL[c.get("pol", "no")]
    if cls == "direct":
        return "[GaussC %s %s %s]" % (qlit(c["R"]), qlit(c["lam"]), qlit(c["sig"]))
    if cls == "direct_lorentz":
        return "[LorC %s %s %s]" % (qlit(c["R"]), qlit(c["lam"]), qlit(c["sig"]))
    common = "%s %s" % (qlit(c["w"]), qlit(m))
    tail = "%s %s" % (qlit(c["R"]), qv(c["dir"]))
    if cls == "GaussianLine":
        return "gaussian_line K (oS %s) %s %s %s %s" % (T, common, qlit(c["ts"]), qv(c["vel"]), tail)
    if cls == "MultipletLineShape":
        return "multiplet_line K (oS %s) %s %s %s %s %s" % (T, common, qpairs(c["mult"]), qlit(c["ts"]), qv(c["vel"]), tail)
    if cls == "ZeemanTriplet":
        return "zeeman_triplet K (oS %s) %s %s %s %s %s %s" % (T, pol, common, qlit(c["ts"]), qv(c["vel"]), qv(c["b"]), tail)
    if cls == "ParametrisedZeemanTriplet":
        return "param_zeeman_triplet K (oS %s) (oP %s) %s %s %s %s %s %s %s %s %s" % (
            T, T, pol, qlit(c["abg"][0]), qlit(c["abg"][1]), qlit(c["abg"][2]), common, qlit(c["ts"]), qv(c["vel"]),
            qv(c["b"]), tail)
    if cls == "ZeemanMultiplet":
        return "zeeman_multiplet K (oS %s) %s %s %s %s %s %s %s %s %s" % (
            T, pol, qpairs(c["raw_pi"]), qpairs(c["raw_sp"]), qpairs(c["raw_sm"]), common, qlit(c["ts"]), qv(c["vel"]),
            qv(c["b"]), tail)
    if cls == "StarkBroadenedLine":
        return "stark_line K (oS %s) (oP %s) (oLn %s) (oEx %s) s2f %s %s %s %s %s %s %s %s %s %s %s" % (
            T, T, T, T, pol, qlit(c["stark"][0]), qlit(c["stark"][1]), qlit(c["stark"][2]), common, qlit(c["ne"]),
            qlit(c["te"]), qlit(c["ts"]), qv(c["vel"]), qv(c["b"]), tail)
    if cls == "BeamEmissionMultiplet":
        return "mse_multiplet K (oS %s) %s %s %s %s %s %s %s %s %s %s %s %s %s" % (
            T, common, qlit(c["btemp"]), qlit(c["benergy"]), qlit(c["mse"][0]), qlit(c["mse"][1]), qlit(c["mse"][2]),
            qlit(c["mse"][3]), qlit(c["ne"]), qlit(c["te"]), qv(c["b"]), qlit(c["R"]), qv(c["bdir"]), qv(c["dir"]))
    raise ValueError(cls)


def coq_keys(c, m, T):
    """Coq term: the oracle keys of levels 1-2 computed by Coq from the inputs are present in the tables"""
    cls = c["cls"]
    tag = {"GaussianLine": "KGauss", "MultipletLineShape": "KGauss", "ZeemanTriplet": "KZeeman", "ZeemanMultiplet": "KZeemanM"}.get(cls)
    if cls == "ParametrisedZeemanTriplet":
        tag = "(KParam %s %s)" % (qlit(c["abg"][1]), qlit(c["abg"][2]))
    elif cls == "StarkBroadenedLine":
        tag = "(KStark %s %s %s %s)" % (qlit(c["stark"][1]), qlit(c["stark"][2]), qlit(c["ne"]), qlit(c["te"]))
    elif cls == "BeamEmissionMultiplet":
        tag = "(KMse %s %s %s)" % (qlit(c["benergy"]), qlit(c["btemp"]), qv(c["bdir"]))
    if tag is None:
        return "true"
    return "keys_ok %s K %s %s %s %s %s %s %s %s" % (T, tag, qlit(c["w"]), qlit(m), qlit(c["ts"]), qlit(c["ne"]), qlit(c["te"]),
                                                   qv(c["dir"]), qv(c["b"]))


def qlist(xs):
    return "[" + "; ".join(qlit(x) for x in xs) + "]"


# ---------------------------------------------------------------------------------------------
# generator
# ---------------------------------------------------------------------------------------------
# integer vectors of integer length: in the exact stream |dir|, |B| are then small rationals and the exact
# rational arguments the Coq model hands to its oracles stay short (big fractions cost ~50 ms per erf argument)
PYTH = [((1, 0, 0), 1), ((3, 4, 0), 5), ((1, 2, 2), 3), ((2, 3, 6), 7), ((4, 4, 7), 9), ((1, 4, 8), 9), ((2, 6, 9), 11),
        ((6, 6, 7), 11), ((3, 4, 12), 13), ((2, 10, 11), 15), ((8, 9, 12), 17), ((12, 15, 16), 25), ((5, 12, 0), 13)]


def pyth_vec(rng, scale):
    v, _ = rng.choice(PYTH)
    v = list(v)
    rng.shuffle(v)
    k = 2.0 ** rng.randint(-4, 1) * scale
    return [rng.choice([-1, 1]) * t * k for t in v]


def rand_vec(rng, scale, exact, kind=None):
    kind = kind or rng.choice(["oblique", "oblique", "axis", "plane"])
    if exact and kind in ("oblique", "plane") and scale < 100:
        return pyth_vec(rng, scale / 8.0)
    def comp():
        return dyadic(rng, -scale, scale, 6) if exact else rng.uniform(-scale, scale)
    if kind == "axis":
        v = [0.0, 0.0, 0.0]
        v[rng.randrange(3)] = rng.choice([-1, 1]) * (abs(comp()) + scale / 64)
        return v
    v = [comp(), comp(), comp()]
    if kind == "plane":
        v[rng.randrange(3)] = 0.0
    if all(t == 0 for t in v):
        v[0] = scale / 2
    return v


def eval_zs(c):
    """the Zeeman structure's functions (linear in B) at the field strength of the case, as the code evaluates them"""
    if "zs_funcs" not in c:
        return
    bx, by, bz = c["b"]
    bm = math.sqrt(bx * bx + by * by + bz * bz)
    for key, grp in zip(("raw_pi", "raw_sp", "raw_sm"), c["zs_funcs"]):
        c[key] = [(aw + kw * bm, ar + kr * bm) for aw, kw, ar, kr in grp]


def gen_forms(rng, cls):
    """valid ways of passing the same values (results must not depend on them)"""
    return {"pol_case": rng.choice(["lower", "lower", "upper", "title"]), "pol_default": rng.random() < 0.5,
            "params": rng.choice(["tuple", "tuple", "numpy", "atomic_data"]), "R": rng.choice(["float", "float", "numpy", "int"]),
            "w_int": rng.random() < 0.3, "mult": rng.choice(["lists", "tuples", "array", "readonly", "strided", "float32"]),
            "mse": rng.choice(["float", "callable", "function"]), "zs": rng.choice(["callable", "float", "function1d"]),
            "zs_container": rng.choice(["list", "tuple"])}


def mzero(rng):
    return rng.choice([0.0, -0.0])


def force_degenerate(rng, c, kind):
    """the degenerate field geometries every run must contain for every class, with a line that really lands in the window:
    B = 0, B parallel / perpendicular to the line of sight, and for the beam model B parallel to the beam (no Stark
    splitting, all nine components coincide)"""
    c["zero_width"] = False
    if c["ts"] <= 0:
        c["ts"] = 4.0
    if c["R"] == 0:
        c["R"] = 1.0
    if not c["ne"] > 0:
        c["ne"] = 2.0 ** 64
    if not c["te"] > 0:
        c["te"] = 8.0
    d = c["dir"]
    if kind == "zero":
        c["b"] = [0.0, 0.0, 0.0]
    elif kind == "parallel":
        c["b"] = [2.0 * t for t in d]
    elif kind == "perp":
        o = [d[1], -d[0], 0.0] if (d[0] or d[1]) else [0.0, d[2], -d[1]]
        c["b"] = [2.0 * t for t in o]
    elif kind == "beam_parallel":
        c["b"] = [-1.5 * t for t in c["bdir"]]
    c["b_kind"] = kind
    if c["cls"] == "BeamEmissionMultiplet":
        c["btemp"] = max(c["ts"], 0.0)
    if "stark_kind" in c:
        c["stark_kind"] = "mixed"          # bounds the number of bins (both widths are now non-zero)
    eval_zs(c)
    c["force_window"] = "spans"
    return c


def gen_physics(rng, cls, exact, impl):
    c = {"cls": cls, "exact": exact, "forms": gen_forms(rng, cls)}
    c["element"] = rng.randrange(len(impl.elements))
    c["w"] = dyadic(rng, 250, 1100, 4) if exact else rng.uniform(250.0, 1100.0)
    # species temperature: log-uniform 0.05 eV .. 5 keV; one case in 9 has no width
    zw = rng.random() < 0.11
    c["zero_width"] = zw
    c["ts"] = rng.choice([0.0, -0.0, -1.0, -0.5, -1e300]) if zw else (2.0 ** rng.choice([-20, -12, -4, -3, -2, -1, 0, 1, 2, 3, 4, 5, 6, 7, 8, 9, 10, 11, 12, 16, 20]) if exact else math.exp(rng.uniform(-3, 8.5)))
    c["vel"] = [mzero(rng), mzero(rng), mzero(rng)] if rng.random() < 0.2 else rand_vec(rng, 2e5 if not exact else 131072.0, exact)
    c["dir"] = rand_vec(rng, 2.0, exact)
    bk = rng.choice(["zero", "parallel", "perp", "oblique", "oblique", "oblique", "axis"])
    c["b_kind"] = bk
    if bk == "zero":
        c["b"] = [mzero(rng), mzero(rng), mzero(rng)]
    elif bk == "parallel":
        s = rng.choice([-1, 1]) * 2.0 ** rng.randint(-2, 2)
        c["b"] = [s * t for t in c["dir"]]
    elif bk == "perp":
        d = c["dir"]
        o = [d[1], -d[0], 0.0] if (d[0] or d[1]) else [0.0, d[2], -d[1]]
        c["b"] = [2.0 ** rng.randint(-1, 2) * t for t in o]
    else:
        c["b"] = rand_vec(rng, 6.0, exact, "axis" if bk == "axis" else "oblique")
    c["pol"] = rng.choice(POLS)
    c["ne"] = 2.0 ** rng.randint(60, 70) if exact else 10 ** rng.uniform(18, 21)
    c["te"] = 2.0 ** rng.randint(-2, 10) if exact else math.exp(rng.uniform(-1, 7))
    r = rng.random()
    c["R"] = mzero(rng) if r < 0.06 else (1.0 if r < 0.3 else (dyadic(rng, 0.01, 1000, 6) if exact else math.exp(rng.uniform(-5, 30))))
    if cls == "MultipletLineShape":
        n = rng.choice([1, 1, 2, 2, 3, 4, 5, 6, 9, 10, 11])
        ws = [rng.randint(1, 16) for _ in range(n)]
        tot = 2 ** math.ceil(math.log2(sum(ws)))
        ws[-1] += tot - sum(ws)
        ratios = [x / tot for x in ws]                   # dyadic: the constructor demands sum == 1.0 exactly
        assert sum(ratios) == 1.0
        c["mult"] = [(c["w"] + dyadic(rng, -2, 2, 6), r_) for r_ in ratios]
        if n >= 2 and rng.random() < 0.25:                 # a repeated wavelength
            c["mult"][1] = (c["mult"][0][0], c["mult"][1][1])
    if cls == "ParametrisedZeemanTriplet":
        c["abg"] = [dyadic(rng, 0.01, 0.1, 10), rng.choice([0.0, dyadic(rng, 0.0, 2.0, 6)]), rng.choice([0.0, -0.5, dyadic(rng, -1, 1, 4)])]
    if cls == "ZeemanMultiplet":
        def grp(n):
            k = rng.random()
            out = []
            for _ in range(n):
                aw, kw = c["w"] + dyadic(rng, -0.5, 0.5, 8), rng.choice([0.0, dyadic(rng, -0.0625, 0.0625, 8)])
                if k < 0.12:
                    ar, kr = 0.0, 0.0                                   # raw ratios sum to 0: returned unnormalised
                elif k < 0.2:
                    ar, kr = dyadic(rng, -2.0, 0.5, 5), 0.0             # negative / mixed-sign raw ratios
                else:
                    ar, kr = dyadic(rng, 0.0, 3.0, 5) + 1 / 32, rng.choice([0.0, dyadic(rng, -0.125, 0.125, 5)])
                out.append((aw, kw, ar, kr))
            return out
        c["zs_funcs"] = [grp(rng.choice([0, 1, 2, 3, 4])), grp(rng.choice([0, 1, 1, 2, 3, 4])), grp(rng.choice([0, 1, 1, 2, 3, 4]))]
        eval_zs(c)
    if cls == "StarkBroadenedLine":
        c["stark"] = [rng.choice([3.71e-18, 8.425e-18, 1.31e-15, 3.954e-16]), rng.choice([0.7665, 0.7803, 0.6796, 0.7149]),
                      rng.choice([0.064, 0.050, 0.030, 0.028])]
        # pure Doppler (no electron broadening), pure Stark (ts <= 0), neither, or both ("mixed": the pseudo-Voigt
        # weights; the width polynomial of degree 6 makes the exact fractions ~2000 bits long, ~1 s per erf argument in
        # Coq, so mixed cases get few bins)
        k = rng.random()
        c["stark_kind"] = "mixed"
        c["integ"] = gen_integ(rng)
        if k < 0.12:
            c["ne"] = rng.choice([0.0, -1.0])
            c["stark_kind"] = "doppler_only"
        elif k < 0.2:
            c["te"] = rng.choice([0.0, -2.0])
            c["stark_kind"] = "doppler_only"
        elif k < 0.5:
            c["ts"] = rng.choice([0.0, -1.0, -0.5])
            c["stark_kind"] = "stark_only"
        elif k < 0.62:
            c["ne"] = 10 ** rng.uniform(14, 17)      # Lorentz/total < 0.01 or small
        elif k < 0.74:
            c["ne"] = 10 ** rng.uniform(21, 23)      # Lorentz dominated
        if zw and c["stark_kind"] == "doppler_only":
            c["stark_kind"] = "none"
        if c["stark_kind"] == "mixed":
            if c["ts"] <= 0:
                c["ts"] = math.exp(rng.uniform(-3, 3))
            if rng.random() < 0.5:
                c["b"], c["b_kind"] = [0.0, 0.0, 0.0], "zero"
            if not exact:
                return gen_physics(rng, cls, True, impl)     # full-precision inputs on top of the degree-6 polynomial: minutes per case
    if cls == "BeamEmissionMultiplet":
        c["benergy"] = 2.0 ** rng.randint(13, 17) if exact else rng.uniform(1e4, 1.2e5)
        c["btemp"] = max(c["ts"], 0.0)        # the Beam.temperature setter rejects negative values
        c["bdir"] = rand_vec(rng, 1.0, exact)
        c["mse"] = [dyadic(rng, 0.1, 2, 6), dyadic(rng, 0.1, 2, 6), dyadic(rng, 0.1, 2, 6), dyadic(rng, 0.1, 2, 6)]
        k = rng.random()
        if k < 0.08:
            c["ne"] = 0.0
        elif k < 0.16:
            c["te"] = rng.choice([0.0, -1.0])
    return c


def gen_integ_ops(rng, n):
    ops = []
    for _ in range(n):
        k = rng.random()
        if k < 0.4:
            ops.append(["min_order", rng.choice([1, 2, 3, 4, 5, 6, 8, 10, 12, 16, 20, 0, -1, 70])])
        elif k < 0.75:
            ops.append(["max_order", rng.choice([1, 2, 3, 5, 8, 12, 20, 24, 30, 40, 50, 60, 0])])
        elif k < 0.9:
            ops.append(["relative_tolerance", rng.choice([1e-3, 1e-5, 1e-6, 1e-8, 0.0, -1e-5])])
        else:
            ops.append(["integrand", rng.choice([0, 1])])
    return ops


def gen_integ(rng):
    """how a Stark case obtains its integrator: class default / constructor arguments only / constructor then setters
    (raising and lowering, valid and rejected values) / an object already used by earlier cases plus more setter calls"""
    k = rng.random()
    if k < 0.25:
        return None
    ctor = [rng.choice([1e-5, 1e-6, 1e-8]), rng.choice([24, 30, 40, 50, 60]), rng.choice([1, 1, 2, 3, 5, 8])]
    if k < 0.4:
        return {"pool": None, "ctor": ctor, "ops": []}
    if k < 0.7:
        return {"pool": None, "ctor": ctor, "ops": gen_integ_ops(rng, rng.randint(1, 4))}
    return {"pool": rng.randrange(3), "ctor": ctor, "ops": gen_integ_ops(rng, rng.randint(0, 3))}


def gen_sequence(rng, cls, impl):
    """a history for ONE live line-shape object: 2-4 steps; between steps inputs cross the guards of the code
    (temperature / density / field / radiance: positive -> zero or negative -> positive), the polarisation is changed
    through its setter, Beam parameters through theirs, values are re-assigned unchanged, and the spectrum object of the
    previous step is sometimes used again"""
    c0 = gen_physics(rng, cls, True, impl)
    steps, cur = [], c0
    for j in range(rng.randint(2, 4)):
        c = dict(cur)
        c.pop("smp0", None)
        c["forms"] = dict(cur["forms"])
        muts = []
        if j > 0:
            options = ["ts", "b", "R", "dir", "same", "vel"]
            if cls in POLARISED:
                options += ["pol", "pol"]
            if cls in ("StarkBroadenedLine", "BeamEmissionMultiplet"):
                options += ["ne", "te"]
            if cls == "BeamEmissionMultiplet":
                options += ["beam"]
            guards = ["ts", "b", "R"] + (["ne", "te"] if cls in ("StarkBroadenedLine", "BeamEmissionMultiplet") else [])
            chosen = [rng.choice(guards)] + ([rng.choice(options)] if rng.random() < 0.7 else [])
            for m_ in dict.fromkeys(chosen):
                muts.append(m_)
                if m_ == "ts":
                    c["ts"] = rng.choice([0.0, -0.0, -1.0]) if cur["ts"] > 0 else 2.0 ** rng.randint(-3, 10)
                    if cls == "BeamEmissionMultiplet":
                        c["btemp"] = max(c["ts"], 0.0)
                elif m_ == "b":
                    c["b"] = [mzero(rng)] * 3 if any(cur["b"]) else pyth_vec(rng, 0.75)
                    c["b_kind"] = "oblique" if any(c["b"]) else "zero"
                elif m_ == "R":
                    c["R"] = mzero(rng) if cur["R"] != 0 else dyadic(rng, 0.5, 64, 4)
                elif m_ == "dir":
                    c["dir"] = pyth_vec(rng, 0.25)
                elif m_ == "vel":
                    c["vel"] = [mzero(rng)] * 3 if any(cur["vel"]) else rand_vec(rng, 131072.0, True)
                elif m_ == "pol":
                    c["pol"] = rng.choice([p_ for p_ in POLS if p_ != cur["pol"]])
                    c["forms"]["pol_case"] = rng.choice(["lower", "upper", "title"])
                elif m_ == "ne":
                    c["ne"] = rng.choice([0.0, -0.0, -1e19]) if cur["ne"] > 0 else 2.0 ** rng.randint(60, 70)
                elif m_ == "te":
                    c["te"] = rng.choice([0.0, -0.0, -3.0]) if cur["te"] > 0 else 2.0 ** rng.randint(-2, 10)
                elif m_ == "beam":
                    c["benergy"] = 2.0 ** rng.randint(13, 17)
        c["mutations"] = muts
        c["step"] = j
        c["reuse_spectrum"] = bool(j > 0 and rng.random() < 0.4)
        if cls == "StarkBroadenedLine":
            c["stark_kind"] = "mixed"          # only bounds the number of bins (the kind changes along the history)
        eval_zs(c)
        steps.append(c)
        cur = c
    return steps


def close_ulps(a, b, n=16):
    import numpy as np
    a, b = np.asarray(a, dtype=float), np.asarray(b, dtype=float)
    return bool(np.all(np.abs(a - b) <= n * 2.3e-16 * np.maximum(np.abs(a), np.abs(b)) + 1e-300))


def covariance_failures(impl, rng, c):
    """scale covariance and order / multiplicity independence, evaluated on the implementation (exact or to a few ulp)"""
    import numpy as np
    fails = []
    cls = c["cls"]
    base = np.array(impl.run(c))
    if not np.any(base) or not all(math.isfinite(v) for v in base):
        return fails
    # radiance scaled by a power of two: every bin scales by exactly that power (no rounding is involved)
    R = float(c["R"])
    lo, hi = math.log2(1e-150 / abs(R)), math.log2(1e150 / abs(R))
    k = rng.randint(int(lo) + 1, int(hi) - 1)
    sc = np.array(impl.run(dict(c, forms=dict(c.get("forms", {}), R="float")), R=math.ldexp(R, k)))
    want = np.array([math.ldexp(v, k) for v in base])
    big = (np.abs(base) > 1e-290) & (np.abs(want) > 1e-290)
    if not np.array_equal(sc[big], want[big]):
        i = int(np.nonzero(sc != want)[0][0])
        fails.append({"claim": "radiance scaled by 2^k scales every bin by exactly 2^k", "cls": cls, "k": k, "bin": i,
                      "got": float(sc[i]), "want": float(want[i]), "case": dict(c)})
    # all wavelengths scaled by a power of two (models whose centres and widths are proportional to the wavelength)
    if cls in ("direct", "direct_lorentz", "GaussianLine", "MultipletLineShape") and not c.get("forms", {}).get("w_int"):
        f = 2.0 ** rng.choice([-2, -1, 1, 2, 3])
        c2 = dict(c, gmin=c["gmin"] * f, gmax=c["gmax"] * f)
        for key in ("w", "lam", "sig"):
            if key in c2:
                c2[key] = c2[key] * f
        if "mult" in c2:
            c2["mult"] = [(x * f, r_) for x, r_ in c2["mult"]]
            c2["forms"] = dict(c2["forms"], mult="lists")
        if c2["gmin"] > 0:
            sc = np.array(impl.run(c2))
            want = base / f
            ok = np.array_equal(sc, want) if cls != "direct_lorentz" else close_ulps(sc, want, 1 << 32)
            if not ok:
                i = int(np.nonzero(sc != want)[0][0])
                fails.append({"claim": "all wavelengths scaled by 2^j scale every bin by exactly 2^-j", "cls": cls, "factor": f,
                              "bin": i, "got": float(sc[i]), "want": float(want[i]), "case": dict(c)})
    # order of the components / a component split into two halves: same spectrum up to the order of additions
    if cls == "MultipletLineShape" and len(c["mult"]) >= 2:
        perm = list(c["mult"])
        rng.shuffle(perm)
        x, r_ = perm[0]
        split = [(x, r_ / 2), (x, r_ / 2)] + perm[1:]
        for name, m2 in (("permuted", perm), ("split", split)):
            if sum(r2 for _, r2 in m2) != 1.0:
                continue
            o2 = impl.run(dict(c, mult=m2, forms=dict(c["forms"], mult="lists")))
            if not close_ulps(o2, base):
                fails.append({"claim": "multiplet components in another order / one component given as two halves give the same spectrum",
                              "cls": cls, "variant": name, "mult": m2, "case": dict(c)})
    if cls == "ZeemanMultiplet" and any(c["b"]):
        z2 = [list(g) for g in c["zs_funcs"]]
        for g in z2:
            rng.shuffle(g)
        c2 = dict(c, zs_funcs=z2)
        eval_zs(c2)
        if not close_ulps(impl.run(c2), base):
            fails.append({"claim": "Zeeman components listed in another order give the same spectrum", "cls": cls, "case": dict(c)})
    # the way the values are passed does not matter
    c3 = dict(c, forms={})
    if cls not in ("direct", "direct_lorentz") and not np.array_equal(np.array(impl.run(c3)), base):
        fails.append({"claim": "the form in which arguments are passed (case of strings, tuples / arrays / numpy scalars, explicit "
                               "arguments / atomic-data defaults, floats / functions) does not change the spectrum", "cls": cls,
                      "case": dict(c)})
    return fails


def rejection_table(impl):
    """argument forms the unchanged code rejects: the outcome (exception class) is part of the expected behaviour"""
    import numpy as np
    M = impl.M
    c = {"cls": "GaussianLine", "element": 1, "w": 656.1, "ts": 1.0, "vel": [0, 0, 0], "b": [0, 0, 1.0], "ne": 1e19, "te": 5.0}
    plasma, sp, line, el = impl.scene(c)
    ad = impl.ad
    ZS = impl.ZeemanStructure
    one = [(656.0, 1.0)]
    rows = [
        ("multiplet empty", lambda: M.MultipletLineShape(line, 656.1, sp, plasma, ad, [[], []]), "ValueError"),
        ("multiplet Nx2 instead of 2xN", lambda: M.MultipletLineShape(line, 656.1, sp, plasma, ad, [[656.0, 0.5], [656.1, 0.25], [656.2, 0.25]]), "ValueError"),
        ("multiplet ratios sum 1 - 2^-53", lambda: M.MultipletLineShape(line, 656.1, sp, plasma, ad, [[656.0, 656.1], [0.5, 0.5 - 2.0 ** -53]]), "ValueError"),
        # np.array(..., dtype=float64) keeps the Fortran layout, the C-contiguous memoryview then refuses it
        ("multiplet as Fortran-ordered 2x3 float64 array", lambda: M.MultipletLineShape(line, 656.1, sp, plasma, ad, np.asfortranarray(
            np.array([[656.0, 656.1, 656.2], [0.5, 0.25, 0.25]]))), "ValueError"),
        ("multiplet 1-D", lambda: M.MultipletLineShape(line, 656.1, sp, plasma, ad, [656.0, 1.0]), "ValueError"),
        ("zeeman structure component as list", lambda: ZS([[656.0, 1.0]], one, one), "TypeError"),
        ("zeeman structure 3-tuple", lambda: ZS([(656.0, 1.0, 2.0)], one, one), "ValueError"),
        ("zeeman structure negative field", lambda: ZS(one, one, one)(-1.0, "pi"), "ValueError"),
        ("polarisation 'circular'", lambda: M.ZeemanTriplet(line, 656.1, sp, plasma, ad, polarisation="circular"), "ValueError"),
        ("alpha = 0", lambda: M.ParametrisedZeemanTriplet(line, 656.1, sp, plasma, ad, (0.0, 1.0, 0.0)), "ValueError"),
        ("beta < 0", lambda: M.ParametrisedZeemanTriplet(line, 656.1, sp, plasma, ad, (0.1, -1.0, 0.0)), "ValueError"),
        ("line parameters as list", lambda: M.ParametrisedZeemanTriplet(line, 656.1, sp, plasma, ad, [0.1, 1.0, 0.0]), "TypeError"),
        ("stark c_ij = 0", lambda: M.StarkBroadenedLine(line, 656.1, sp, plasma, ad, (0.0, 0.7, 0.05)), "ValueError"),
        ("stark a_ij < 0", lambda: M.StarkBroadenedLine(line, 656.1, sp, plasma, ad, (1e-18, -0.7, 0.05)), "ValueError"),
        ("stark b_ij = 0", lambda: M.StarkBroadenedLine(line, 656.1, sp, plasma, ad, (1e-18, 0.7, 0.0)), "ValueError"),
        ("StarkFunction wavelength 0", lambda: impl.StarkFunction(0.0, 0.1), "ValueError"),
        ("StarkFunction fwhm -0.0", lambda: impl.StarkFunction(656.0, -0.0), "ValueError"),
        ("base class add_line", lambda: M.LineShapeModel(line, 656.1, sp, plasma, ad).add_line(1.0, impl.Point3D(0, 0, 0), impl.Vector3D(1, 0, 0), impl.Spectrum(600, 700, 4)), "NotImplementedError"),
        ("zeeman structure unknown polarisation string", lambda: ZS(one, one, one)(1.0, "circular"), "ValueError|AttributeError"),
    ]
    bad = []
    for name, f, want in rows:
        try:
            f()
            got = "accepted"
        except Exception as e:      # the class of the rejection is what is compared
            got = type(e).__name__
        if got not in want.split("|"):
            bad.append({"form": name, "expected": want, "observed": got})
    return len(rows), bad


WINDOW_KINDS = ["spans", "spans", "straddle_left", "straddle_right", "inside_narrow", "one_bin", "outside_left",
                "outside_right", "edge_touch", "wide"]


def gen_window(rng, c, comps, exact, quick):
    """choose (gmin, gmax, bins) relative to the extent of the model's components"""
    act = [(float(lam), float(wd) * (10 if k == "G" else 50), float(wd)) for k, R, lam, wd in comps if wd > 0]
    if act:
        lo = min(l - r for l, r, _ in act)
        hi = max(l + r for l, r, _ in act)
        centre = act[0][0]
        width = min(wd for _, _, wd in act)
    else:
        centre = c.get("lam", c.get("w", 500.0))
        lo, hi, width = centre - 0.5, centre + 0.5, 0.05
    span = hi - lo
    kind = c.pop("force_window", None) or rng.choice(WINDOW_KINDS)
    maxbins = 40 if quick else 160
    ncomp = max(1, len(comps))
    mixed_stark = c.get("stark_kind") == "mixed"
    if mixed_stark:
        bins = rng.choice([1, 2, 3]) if len(comps) <= 2 else rng.choice([1, 2])
    elif not exact:
        bins = rng.choice([1, 2, 3, 5, 6, 8])              # full-precision inputs: long fractions in Coq
    elif ncomp >= 6:
        bins = rng.choice([1, 2, 3, 5, 8, 13])
    elif ncomp >= 2:
        bins = rng.choice([1, 2, 3, 5, 8, 13, 16, 24])
    else:
        bins = rng.choice([1, 2, 3, 5, 8, 13, 16, 24, 32, maxbins])
    u = rng.uniform
    if kind == "spans":
        a, b = lo - u(0.01, 0.3) * span, hi + u(0.01, 0.3) * span
    elif kind == "wide":
        a, b = lo - u(1, 20) * span, hi + u(1, 20) * span
    elif kind == "straddle_left":
        a, b = centre - u(-0.3, 0.45) * span, hi + u(0.0, 0.2) * span
    elif kind == "straddle_right":
        a, b = lo - u(0.0, 0.2) * span, centre + u(-0.3, 0.45) * span
    elif kind == "inside_narrow":
        a = centre + u(-2, 2) * width
        b = a + u(0.05, 1.5) * width
    elif kind == "one_bin":
        a, b = centre - u(0.1, 0.6) * span, centre + u(0.1, 0.6) * span
        bins = 1
    elif kind == "outside_left":
        b = lo - u(0.001, 0.5) * span
        a = b - u(0.2, 1) * span
    elif kind == "outside_right":
        a = hi + u(0.001, 0.5) * span
        b = a + u(0.2, 1) * span
    else:   # edge_touch: the cut-off wavelength sits (nearly) on the window edge
        if rng.random() < 0.5:
            a, b = hi - u(0, 1e-3) * span, hi + u(0.2, 1) * span
        else:
            a, b = lo - u(0.2, 1) * span, lo + u(0, 1e-3) * span
    if a < 1.0:                                # raysect's Spectrum demands positive wavelengths
        a, b = 1.0, max(b, 2.0)
    lw = [float(wd) for k_, _, _, wd in comps if k_ == "L" and wd > 0]
    if lw:
        # the code integrates the Stark profile over each bin with a fixed-tolerance Gauss-Legendre rule that is only
        # accurate while a bin is not wider than the line (measured worst per-bin relative error against the closed form:
        # 3.8e-5 for bins <= 1 FWHM, 4e-4 at 2 FWHM; integral off by 1e-3 at 10 FWHM, 30% at 50 FWHM, see the coarse-grid
        # probe below) -- the correspondence stream stays at <= 1 FWHM per bin
        if (b - a) / bins > min(lw):
            bins = min(int(math.ceil((b - a) / min(lw))), (3 if len(comps) <= 2 else 2) if mixed_stark else maxbins)
            if (b - a) / bins > min(lw):
                b = a + bins * min(lw)
    if exact:
        # dyadic edges and a dyadic bin width: every bin edge is then exact in double arithmetic
        e = math.floor(math.log2(max((b - a) / bins, 1e-9)))
        dl = 2.0 ** e
        a = math.floor(a / dl) * dl
        if a <= 0:
            a = dl
        b = a + dl * bins
    if not (b > a):
        b = a + 1e-3
    c["window"] = kind
    c["gmin"], c["gmax"], c["bins"] = float(a), float(b), int(bins)
    return c


def gen_direct(rng, exact, quick):
    """add_gaussian_line called directly: dyadic grid, cut-off wavelengths often exactly on bin edges"""
    c = {"cls": "direct", "exact": exact}
    bins = rng.choice([1, 2, 4, 7, 16, 32, 40 if quick else 128])
    if exact:
        e = rng.randint(-7, -1)
        dl = 2.0 ** e
        gmin = float(rng.randint(300, 900))
        sig = 2.0 ** rng.randint(e - 3, e + 2) * rng.choice([1, 1, 3, 5])
        lam = gmin + dl * bins / 2 + rng.randint(-12 * 16, 12 * 16) * sig / 16 * rng.choice([0.25, 1, 1, 4])
        # snap so that lam +- 10 sig is a multiple of a small power of two
        c.update(gmin=gmin, gmax=gmin + dl * bins, bins=bins, lam=lam, sig=sig)
        if rng.random() < 0.25:
            # one ulp either side of a configuration whose cut-off wavelengths sit on bin edges: the values are compared as
            # usual, the floor/ceil decisions are then taken by rounding and are counted as ambiguous by the support probe
            c["lam"] = math.nextafter(lam, rng.choice([-math.inf, math.inf]))
            c["exact"] = False
            c["ulp_nudged"] = True
    else:
        gmin = rng.uniform(300, 900)
        gmax = gmin + rng.uniform(0.01, 5)
        sig = math.exp(rng.uniform(-7, 0))
        lam = rng.uniform(gmin - 12 * sig, gmax + 12 * sig)
        c.update(gmin=gmin, gmax=gmax, bins=bins, lam=lam, sig=sig)
    r = rng.random()
    if r < 0.08:
        c["sig"] = rng.choice([0.0, -c["sig"]])
    c["R"] = 1.0 if rng.random() < 0.5 else dyadic(rng, 0.0, 64, 6)
    c["window"] = "direct"
    return c


# ---------------------------------------------------------------------------------------------
# executable statement of the property on the implementation (failing-input search)
# ---------------------------------------------------------------------------------------------
def phi(x):
    return 0.5 * (1.0 + math.erf(x / math.sqrt(2.0)))


def expected_bins(comps, c, delta):
    """bin averages of the normalised profiles of the stated components, no cut-off logic:
    sum_c R_c (CDF_c(edge_{i+1}) - CDF_c(edge_i)) / delta ; returns (bins, lorentz_part)"""
    n = c["bins"]
    edges = [c["gmin"] + delta * i for i in range(n + 1)]
    tot = np.zeros(n)
    lor = np.zeros(n)
    for kind, R, lam, wd in comps:
        R, lam, wd = float(R), float(lam), float(wd)
        if wd <= 0 or R == 0:
            continue
        if kind == "G":
            cdf = [phi((e - lam) / wd) if abs(e - lam) < 40 * wd else (0.0 if e < lam else 1.0) for e in edges]
            tot += R * np.diff(cdf) / delta
        else:
            # the profile is cut at +-50 FWHM bin-wise: a bin that meets the cut-off range receives its whole integral
            v = np.array([orc.stark_cdf_diff(lam, wd, edges[i], edges[i + 1])
                          if (edges[i + 1] > lam - 50 * wd and edges[i] < lam + 50 * wd) else 0.0 for i in range(n)])
            tot += R * v / delta
            lor += R * v / delta
    return tot, lor


def property_failures(impl, W, c, m, out=None):
    """evaluate the property's claims on the real implementation for the physical inputs of case c"""
    fails = []
    cls = c["cls"]
    delta = float(impl.spectrum(c).delta_wavelength)
    W_ = max(abs(c["gmin"]), abs(c["gmax"]))
    smp0 = c.get("smp0") or [0.0] * c["bins"]

    def claim(name, **kw):
        fails.append(dict(kw, claim=name, cls=cls, case=dict(c)))

    def one(pol, R, smp):
        comps = walk_case(W, c, m, pol=pol, R=R)
        o = np.array(impl.run(c, pol=pol, smp0=smp, R=R)) if out is None or pol != c.get("pol", "no") or R != c["R"] or smp is not smp0 \
            else np.array(out)
        return comps, o

    comps, o = one(c.get("pol", "no"), c["R"], smp0)
    added = o - np.array(smp0)
    exp, lor = expected_bins(comps, c, delta)
    Rabs = max(sum(abs(float(r)) for _, r, _, _ in comps), abs(c["R"]))
    wmin = min([float(wd) for _, _, _, wd in comps if wd > 0] or [1.0])
    tol_bin = (1e-9 + 4e-15 * W_ / wmin) * Rabs / delta + 1.5e-4 * np.abs(lor) + 1e-14 * np.abs(np.array(smp0))
    bad = np.nonzero(~(np.abs(added - exp) <= tol_bin))[0]
    if len(bad):
        i = int(bad[0])
        claim("each bin receives the bin-average of the normalised profile times the component radiances",
              bin=i, got=float(added[i]), want=float(exp[i]), tol=float(tol_bin[i]), nbad=len(bad))
    tot_got, tot_exp = float(added.sum() * delta), float(exp.sum() * delta)
    tol_tot = (1e-9 + 4e-15 * W_ / wmin * c["bins"]) * Rabs + 1.5e-4 * float(lor.sum() * delta) + 1e-13 * float(np.abs(smp0).sum()) * delta
    if not abs(tot_got - tot_exp) <= tol_tot:
        claim("wavelength integral equals radiance times the fraction of the profile inside the window",
              got=tot_got, want=tot_exp, tol=tol_tot)
    if not comps or all(float(wd) <= 0 for _, _, _, wd in comps):
        if not np.array_equal(o, np.array(smp0)):
            claim("a line with no width adds nothing", got=[float(v) for v in added[:8]])
    if cls in POLARISED:
        zero = [0.0] * c["bins"]
        res = {}
        for pol in POLS:
            _, res[pol] = one(pol, c["R"], zero)
        d = np.abs(res["no"] - (res["pi"] + res["sigma"]))
        lim = 8 * 2.3e-16 * (np.abs(res["no"]) + np.abs(res["pi"]) + np.abs(res["sigma"])) + 1e-300
        bad = np.nonzero(~(d <= lim))[0]
        if len(bad):
            i = int(bad[0])
            claim("pi + sigma spectra equal the unpolarised spectrum bin by bin", bin=i, no=float(res["no"][i]),
                  pi=float(res["pi"][i]), sigma=float(res["sigma"][i]))
    return fails


SMOOTH = [("exp", math.exp, lambda a, b: math.exp(b) - math.exp(a)),
          ("1/(1+x^2)", lambda x: 1.0 / (1.0 + x * x), lambda a, b: math.atan(b) - math.atan(a)),
          ("sin 3x", lambda x: math.sin(3 * x), lambda a, b: (math.cos(3 * a) - math.cos(3 * b)) / 3.0)]


def quadrature_cases(impl, rng, n):
    """GaussianQuadrature driven through its constructor and every setter, in sequences; afterwards it integrates
    polynomials of degree <= 2 min_order - 1 (Gauss-Legendre is exact on them; value checked in Coq against the exact
    rational integral) and smooth functions (checked here: equal, bit for bit, to a freshly constructed integrator with
    the same final parameters, and close to the closed form)"""
    GQ = impl.GaussianQuadrature
    out, fails = [], []
    reuse = None
    for k in range(n):
        rec = {}
        if reuse is not None and rng.random() < 0.3:
            q, rec = reuse[0], {"ctor": reuse[1]["ctor"], "ctor_ok": True, "ops": list(reuse[1]["ops"]), "errs": list(reuse[1]["errs"])}
        else:
            r = rng.random()
            ctor = [rng.choice([1e-5, 1e-7, 1e-9]) if r > 0.06 else rng.choice([0.0, -1.0]),
                    rng.choice([1, 2, 3, 5, 8, 12, 16, 24, 50]) if r > 0.12 else rng.choice([0, -3]),
                    rng.choice([1, 1, 2, 3, 4, 6, 9, 12]) if r > 0.18 else rng.choice([0, 60])]
            rec = {"ctor": ctor, "ops": [], "errs": []}
            try:
                q = GQ(relative_tolerance=ctor[0], max_order=ctor[1], min_order=ctor[2])
                rec["ctor_ok"] = True
            except ValueError:
                q = None
                rec["ctor_ok"] = False
        if q is not None:
            ops = gen_integ_ops(rng, rng.randint(0, 6))
            rec["errs"] += Impl.apply_ops(q, ops)
            rec["ops"] += ops
            rec["min"], rec["max"], rec["rtol"] = int(q.min_order), int(q.max_order), float(q.relative_tolerance)
            reuse = (q, rec)
            polys = []
            for _ in range(2):
                deg = rng.randint(0, min(2 * rec["min"] - 1, 15))
                cs = [dyadic(rng, -4, 4, 3) for _ in range(deg + 1)]
                a, b = dyadic(rng, -2, 2, 4), dyadic(rng, -2, 3, 4)
                q.integrand = (lambda x, cs=cs: sum(c_ * x ** i for i, c_ in enumerate(cs)))
                polys.append({"coeffs": cs, "a": a, "b": b, "value": float(q(a, b))})
            rec["polys"] = polys
            fresh = GQ(relative_tolerance=rec["rtol"], max_order=rec["max"], min_order=rec["min"])
            for name, f, prim in SMOOTH:
                a = rng.uniform(-1.5, 1.0)
                b = a + rng.uniform(0.05, 1.5)
                q.integrand = f
                fresh.integrand = f
                v, vf = float(q(a, b)), float(fresh(a, b))
                if v != vf:
                    fails.append({"claim": "GaussianQuadrature configured through setters integrates like a freshly constructed one "
                                           "with the same parameters", "cls": "GaussianQuadrature", "function": name, "a": a, "b": b,
                                  "got": v, "fresh": vf, "case": {k_: rec[k_] for k_ in ("ctor", "ops", "min", "max", "rtol")}})
                elif rec["max"] >= 8 and abs(v - prim(a, b)) > 20 * rec["rtol"] * abs(prim(a, b)) + 1e-13:
                    fails.append({"claim": "GaussianQuadrature integrates a smooth function to its tolerance", "cls": "GaussianQuadrature",
                                  "function": name, "a": a, "b": b, "got": v, "want": prim(a, b),
                                  "case": {k_: rec[k_] for k_ in ("ctor", "ops", "min", "max", "rtol")}})
        else:
            rec.update({"min": 0, "max": 0, "rtol": 0.0, "polys": []})
            rec["ops"], rec["errs"] = [], []
        out.append({k_: (list(v_) if isinstance(v_, list) else v_) for k_, v_ in rec.items()})
    return out, fails


def quad_text(r):
    def op(o):
        name, val = o
        if name == "min_order":
            return "SetMin %s" % zlit(val)
        if name == "max_order":
            return "SetMax %s" % zlit(val)
        if name == "relative_tolerance":
            return "SetRtol %s" % ("true" if val > 0 else "false")
        return "SetIntegrand"
    polys = "; ".join("(%s, %s, %s, %s)" % (qlist(p_["coeffs"]), qlit(p_["a"]), qlit(p_["b"]), qlit(p_["value"])) for p_ in r["polys"])
    return "check_quad %s %s %s [%s] %s [%s] %s %s [%s]" % (
        zlit(r["ctor"][1]), zlit(r["ctor"][2]), "true" if r["ctor"][0] > 0 else "false",
        "; ".join(op(o) for o in r["ops"]), "true" if r["ctor_ok"] else "false",
        "; ".join("true" if e else "false" for e in r["errs"]), zlit(r["min"]), zlit(r["max"]), polys)


POL_STRINGS = ["pi", "sigma", "no", "PI", "Sigma", "NO", "sIgMa", "Pi", "nO", "", " pi", "pi ", "none", "sigma_plus", "p", "SIGMA", "n0"]


def policy_cases(impl, rng, n):
    """constructor validation and the polarisation setter, outcome of the implementation next to the model's (compared in
    Coq): Coq terms of type bool"""
    M = impl.M
    c = {"cls": "GaussianLine", "element": 1, "w": 656.1, "ts": 1.0, "vel": [0, 0, 0], "b": [0, 0, 1.0], "ne": 1e19, "te": 5.0}
    plasma, sp, line, el = impl.scene(c)
    ad = impl.ad

    def accepted(f):
        try:
            f()
            return True
        except ValueError:
            return False

    def b2(x):
        return "true" if x else "false"

    def edge(rngv):
        return rng.choice([0.0, -0.0, 5e-324, -5e-324, 2.0 ** -1074, 1e-300, -1e-300, 1.0, rngv, -rngv])
    out = []
    for k in range(n):
        a_, b_ = edge(dyadic(rng, 0.01, 1, 8)), edge(dyadic(rng, 0.0, 2, 6))
        ok = accepted(lambda: M.ParametrisedZeemanTriplet(line, 656.1, sp, plasma, ad, (a_, b_, 0.5)))
        out.append("check_bool (param_zeeman_valid %s %s) %s" % (qlit(a_), qlit(b_), b2(ok)))
        cij, aij, bij = edge(3.71e-18), edge(0.7665), edge(0.064)
        ok = accepted(lambda: M.StarkBroadenedLine(line, 656.1, sp, plasma, ad, (cij, aij, bij)))
        out.append("check_bool (stark_coeff_valid %s %s %s) %s" % (qlit(cij), qlit(aij), qlit(bij), b2(ok)))
        w_, f_ = edge(656.0), edge(0.05)
        ok = accepted(lambda: impl.StarkFunction(w_, f_))
        out.append("check_bool (stark_function_valid %s %s) %s" % (qlit(w_), qlit(f_), b2(ok)))
        nr = rng.randint(1, 5)
        ws = [rng.randint(0, 16) for _ in range(nr)]
        tot = 2 ** rng.randint(3, 6)
        if rng.random() < 0.6:
            ws[-1] += tot - sum(ws)
        ratios = [x / tot for x in ws]                      # dyadic: the float sum is the exact sum
        ok = accepted(lambda: M.MultipletLineShape(line, 656.1, sp, plasma, ad, [[656.0 + i for i in range(nr)], ratios]))
        out.append("check_bool (multiplet_valid %s) %s" % (qlist(ratios), b2(ok)))
        bz, sz = rng.choice([0.0, -0.0, 1.5, -1.5, 5e-324, -5e-324]), rng.choice(["pi", "PI", "sigma_plus", "Sigma_Minus", "sigma", "no", ""])
        zs = impl.ZeemanStructure([(656.0, 1.0)], [(656.1, 1.0)], [(655.9, 1.0)])
        try:
            zs(bz, sz)
            ok = True
        except (ValueError, AttributeError):                # the unknown-string branch has a typo (.fotmat): AttributeError
            ok = False
        out.append("check_bool (zs_call_valid %s %s) %s" % (qlit(bz), coq_str(sz), b2(ok)))
        # one live object: constructor polarisation, then a history of setter calls; after each call the getter is read
        cls = rng.choice([M.ZeemanTriplet, M.ParametrisedZeemanTriplet, M.StarkBroadenedLine])
        extra = ((0.05, 0.5, 0.5),) if cls is M.ParametrisedZeemanTriplet else (((3.71e-18, 0.7665, 0.064),) if cls is M.StarkBroadenedLine else ())
        init = rng.choice(POL_STRINGS)
        hist = [rng.choice(POL_STRINGS) for _ in range(rng.randint(0, 7))]
        errs, gets = [], []
        try:
            ls = cls(line, 656.1, sp, plasma, ad, *extra, polarisation=init)
            ctor_ok = True
        except ValueError:
            ctor_ok = False
        if ctor_ok:
            for v in hist:
                try:
                    ls.polarisation = v
                    errs.append(False)
                except ValueError:
                    errs.append(True)
                gets.append(ls.polarisation)
        else:
            hist = []
        out.append("check_pol_history %s %s [%s] [%s] [%s]" % (coq_str(init), b2(ctor_ok), "; ".join(coq_str(v) for v in hist),
                                                              "; ".join(b2(e) for e in errs), "; ".join(coq_str(v) for v in gets)))
    return out


def coq_str(s_):
    return '"' + s_.replace('"', '""') + '"%string'


def gq_lorentz_cases(impl, rng, n, K, s2f):
    """add_lorentzian_line with an explicit GaussianQuadrature(max_order <= 16): the bin integrals are COMPUTED in Coq by the
    model of the adaptive Gauss-Legendre loop over the model of StarkFunction (pow is the only oracle).  The walk below only
    learns the pow arguments and how far the stopping test is from a tie (cases closer than 1e-6 are skipped as ambiguous)."""
    from scipy.special import roots_legendre
    from fractions import Fraction as Fr
    normc = float(impl.StarkFunction.STARK_NORM_COEFFICIENT)
    texts, metas, skipped = [], [], 0
    for k in range(n):
        mn, mx = rng.choice([1, 1, 2, 3]), rng.choice([8, 12, 16])
        rtol = rng.choice([1e-5, 1e-7])
        q = impl.GaussianQuadrature(relative_tolerance=rtol, max_order=mx, min_order=mn)
        if rng.random() < 0.5:                        # through the setters as well
            q.max_order = mx
            q.min_order = mn
        roots, weights = [], []
        for order in range(mn, mx + 1):
            r_, w_ = roots_legendre(order)
            roots += [float(v) for v in r_]
            weights += [float(v) for v in w_]
        fw = 2.0 ** rng.randint(-5, 0) if rng.random() > 0.1 else rng.choice([0.0, -0.25])
        lam = float(rng.randint(300, 900)) + dyadic(rng, 0, 1, 4)
        bins = rng.choice([1, 1, 2])
        dl = (abs(fw) or 0.25) / rng.choice([1, 2, 4])
        gmin = lam + dl * rng.randint(-3, 1)
        c = {"cls": "direct_lorentz", "lam": lam, "sig": fw, "gmin": gmin, "gmax": gmin + dl * bins, "bins": bins,
             "R": dyadic(rng, 0.5, 64, 4), "gq": [rtol, mx, mn]}
        s_ = impl.spectrum(c)
        c["delta"] = float(s_.delta_wavelength)
        s_ = impl.add_lorentzian_line(c["R"], lam, fw, s_, q)
        out = [float(v) for v in s_.samples]
        # walk: pow keys and the margin of every stopping test
        T = orc.Tabs()
        margin = 1.0
        if fw > 0:
            F_lam, F_w, F_c = fr(lam), fr(fw), fr(normc)
            norm = T.pow(F_w / 2, Fr(3, 2)) / F_c
            a25 = T.pow(F_w / 2, Fr(5, 2))
            g = orc.Grid(c["gmin"], c["gmax"], bins, c["delta"])
            cl, cu = F_lam - 50 * F_w, F_lam + 50 * F_w
            st = max(0, math.floor((cl - g.gmin) / g.delta))
            en = min(bins, math.ceil((cu - g.gmin) / g.delta))
            for i in range(st, en):
                a_, b_ = g.edge(i), g.edge(i + 1)
                cc, dd = Fr(1, 2) * (a_ + b_), Fr(1, 2) * (b_ - a_)
                old, ib = None, 0
                for order in range(mn, mx + 1):
                    acc = Fr(0)
                    for j in range(ib, ib + order):
                        x = cc + dd * fr(roots[j])
                        acc += fr(weights[j]) * (norm / (T.pow(abs(x - F_lam), Fr(5, 2)) + a25))
                    new = acc * dd
                    if old is not None:
                        err, lim = abs(new - old), fr(rtol) * abs(new)
                        if lim > 0:
                            margin = min(margin, float(abs(err - lim) / lim))
                        if err < lim:
                            break
                    old, ib = new, ib + order
        if margin < 1e-6:
            skipped += 1
            continue
        texts.append("check_lorentz_gq %s %s %s %s %d %d %s %s %s %s {| gmin := %s; gmax := %s; gbins := %s; gdelta := %s |} %s %s" % (
            orc.tabs_text(T), qlit(normc), qlist(roots), qlist(weights), mn, mx, qlit(rtol), qlit(c["R"]), qlit(lam), qlit(fw),
            qlit(c["gmin"]), qlit(c["gmax"]), zlit(bins), qlit(c["delta"]), qlist([0.0] * bins), qlist(out)))
        metas.append(c)
    return texts, metas, skipped


def stark_coarse_probe(impl, quick):
    """StarkBroadenedLine (default integrator) with no Doppler part, window spanning +-60 FWHM: integral / R for bins of
    1 .. 200 FWHM and several alignments of the line inside its bin"""
    rows = []
    worst = None
    n = 0
    for ratio in (1.0, 3.0, 10.0, 20.0, 50.0, 100.0, 200.0):
        for off in ((0.0, 0.31, 0.5) if quick else (0.0, 0.13, 0.31, 0.5, 0.77)):
            c = {"cls": "StarkBroadenedLine", "element": 1, "w": 656.1, "ts": 0.0, "vel": [0.0, 0.0, 0.0], "dir": [1.0, 0.0, 0.0],
                 "b": [0.0, 0.0, 0.0], "pol": "no", "ne": 1e20, "te": 5.0, "R": 1.0, "stark": [3.71e-18, 0.7665, 0.064]}
            fw = 3.71e-18 * 1e20 ** 0.7665 / 5.0 ** 0.064
            dl = ratio * fw
            nb = max(int(math.ceil(120 * fw / dl)), 3)
            c["gmin"] = 656.1 - (nb // 2 + off) * dl
            c["gmax"] = c["gmin"] + nb * dl
            c["bins"] = nb
            out = impl.run(c)
            tot = sum(out) * float(impl.spectrum(c).delta_wavelength)
            n += 1
            row = {"bin_over_fwhm": ratio, "offset": off, "integral_over_R": tot, "fwhm_nm": fw, "case": c}
            rows.append({"bin_over_fwhm": ratio, "offset": off, "integral_over_R": tot})
            if worst is None or abs(tot - 1) > abs(worst["integral_over_R"] - 1):
                worst = row
    return {"n": n, "rows": rows, "worst": worst, "worst_rel_err": abs(worst["integral_over_R"] - 1)}


# ---------------------------------------------------------------------------------------------
def case_text(idx, c, m, T, comps_for_tabs, out, K, sqrt2):
    g = orc.Grid(c["gmin"], c["gmax"], c["bins"], c["delta"])
    orc.walk_comps(T, fr(sqrt2), comps_for_tabs, g)
    smp0 = c.get("smp0") or [0.0] * c["bins"]
    lines = ["Definition T%d : otabs := %s." % (idx, orc.tabs_text(T)),
             "Definition g%d : grid := {| gmin := %s; gmax := %s; gbins := %s; gdelta := %s |}." % (
                 idx, qlit(c["gmin"]), qlit(c["gmax"]), zlit(c["bins"]), qlit(c["delta"])),
             "Definition r%d : Q := Eval vm_compute in (run_usage T%d sqrt2 %s (%s) g%d %s %s)." % (
                 idx, idx, qlit(c["R"]), coq_comps(c, m, "T%d" % idx), idx, qlist(smp0), qlist(out)),
             "Definition k%d : bool := Eval vm_compute in (%s)." % (idx, coq_keys(c, m, "T%d" % idx))]
    return "\n".join(lines)


def support_margin_ok(c):
    """the floor/ceil/early-exit decisions of the code are taken in double arithmetic; they are compared
    exactly only when the exact quantities are at a safe distance from the thresholds"""
    lam, sig, gmin, gmax, dl = [fr(c[k]) for k in ("lam", "sig", "gmin", "gmax", "delta")]
    if sig <= 0:
        return True
    if c["exact"]:
        return True
    cl, cu = lam - 10 * sig, lam + 10 * sig
    scale = max(abs(gmin), abs(gmax), abs(lam))
    eps = scale * F(1, 2 ** 44)
    if abs(gmax - cl) < eps or abs(cu - gmin) < eps:
        return False
    for q in ((cl - gmin) / dl, (cu - gmin) / dl):
        if abs(q - round(q)) < F(1, 2 ** 30) + scale / dl * F(1, 2 ** 44):
            return False
    return True


def run(ctx):
    ctx.trusted += [
        "Coq 8.16.1 kernel, vm_compute (no native_compute)",
        "three theorems over R (C02_erf_truncation_constant_R, C02_gauss_whole_radiance_R, C02_stark_normalisation_constant_R) rest on "
        "the standard library's classical real numbers (ClassicalDedekindReals.sig_forall_dec, sig_not_dec, Classical_Prop.classic, "
        "FunctionalExtensionality.functional_extensionality_dep), on Coquelicot (RInt) and on the Interval tactics, whose "
        "computations use the primitive 63-bit integers (PrimInt63.*, Uint63.* specifications); all other theorems are closed",
        "harness/c02.py + c02_oracle.py: generators, scene construction (bare Plasma/Beam + Maxwellian distributions), "
        "Q literal printer, comparator and tolerances in Model/C02_Check.v",
        "oracle tables: libm erf/sqrt/pow/log/exp evaluated by CPython at the exact arguments the Coq model asks for "
        "(sqrt entries are re-checked in Coq by squaring, erf entries for |v| <= 1); the Stark bin integrals come from the "
        "closed form t*2F1(2/5,1;7/5;-t^(5/2)) (scipy.special.hyp2f1), not from the code's quadrature",
        "IEEE double rounding in the implementation, compared under the stated tolerance",
        "raysect Spectrum / Vector3D / Maxwellian (not verified, driven as the implementation drives them)",
    ]
    ctx.assumptions += [
        "erf, sqrt, pow, log, exp and the bin integrator are arbitrary functions in the theorems (hypotheses: monotone / "
        "bounded / additive where a theorem says so); that libm's functions satisfy them is trusted",
        "int casts of floor/ceil results fit a C int; spectrum.delta_wavelength > 0",
    ]
    ctx.rebuild()
    ctx.proofs("Properties.C02", [t for t in THEOREMS if not t.endswith("_R")], extra_modules=("Model.C02_LineShape", "Model.C02_Quadrature", "Proofs.C02_Gauss", "Proofs.C02_Norm", "Proofs.C02_Weights",
                              "Proofs.C02_Quadrature", "Model.C02_Policy", "Proofs.C02_Policy", "Proofs.C02_Sums", "Proofs.C02_Real", "Properties.C02_R", "Model.C02_Check"))

    # The three theorems over R live in Properties/C02_R.v (same rules as Properties/C02.v).  The independent checker coqchk
    # (thorough tier, run by ctx.proofs on Properties/C02.v) is NOT run on that file: re-checking Coquelicot, Interval and
    # Flocq takes more than 50 minutes; the kernel checked them when the file was built.
    # Print Assumptions of the three theorems over R walks Coquelicot and Interval (~40 CPU-s): it runs in the background
    # while the cases are generated and is collected before the Coq files are compiled
    import threading
    from common import coqc as _coqc
    r_theorems = [t for t in THEOREMS if t.endswith("_R")]
    r_result = {}

    def _r_job(t):
        path = ctx.write_gen("assumptions_%s.v" % t, "Require Import Cherab.Properties.C02_R.\n"
                             'Goal True. idtac "@@THEOREM %s". exact I. Qed.\nCheck %s.\nPrint Assumptions %s.\n' % (t, t, t))
        r_result[t] = _coqc(path, timeout=1500)
    r_threads = [threading.Thread(target=_r_job, args=(t,)) for t in r_theorems]
    for th in r_threads:
        th.start()
    # ---- (T) the constants the model contains, regenerated from the current source; the kernel re-checks the tie lemma ----
    from common import coqc
    mc = read_model_constants()
    from cherab.core.model.lineshape.stark import StarkFunction as _SF
    ok_tie, out_tie = coqc(ctx.write_gen("Tie.v", tie_text(mc, float(_SF.STARK_NORM_COEFFICIENT))), timeout=300)
    ctx.obligation("Gen/C02/Tie.v source_constants_tie (cut-offs, splitting factor, thresholds, 3 coefficient lists) + stark_norm_coefficient_tie", "tie", ok_tie, out_tie)
    if not ok_tie:
        ctx.violation("c02:source-constants", "a constant of the line-shape code (cut-off, Stark splitting factor, weight threshold or "
                      "polynomial coefficient) differs from the one the model and its theorems use",
                      {"read_from_source": {k_: [str(x) for x in v_] if isinstance(v_, list) else str(v_) for k_, v_ in mc.items()},
                       "coqc": out_tie[-1500:]}, found=False)
    import cherab
    assert list(cherab.__path__) == [REPO + "/cherab"], cherab.__path__
    impl = Impl()
    Kf = read_constants()
    K = {k: fr(v) for k, v in Kf.items()}
    sqrt2 = math.sqrt(2.0)
    s2f = 2 * math.sqrt(2 * math.log(2))
    rng = ctx.rng
    quick = ctx.quick

    n_class = 14 if quick else 400          # per class
    n_direct = 40 if quick else 700
    n_support = 80 if quick else 1500
    cases = []
    dist = {"class": {}, "window": {}, "b_kind": {}, "pol": {}, "zero_width": 0, "R_zero": 0, "prefilled": 0,
            "exact_stream": 0, "bins": {}, "components": {}, "active_components": {}}
    search_fails = []
    nontrivial = 0

    def bump(d, k):
        d[k] = d.get(k, 0) + 1

    # ---- class cases (the corpus of past disagreements first) ----------------------------------------
    import glob
    import json
    from common import VERIF
    corpus = []
    for f in sorted(glob.glob(os.path.join(VERIF, "corpus", "C02", "*.json"))):
        cc = json.load(open(f))
        cc.pop("note", None)
        cc["corpus"] = os.path.basename(f)
        corpus.append(cc)
    dist["corpus_cases"] = len(corpus)
    todo = [(cc["cls"], cc) for cc in corpus] + [(cls, k) for cls in CLASSES for k in range(n_class)]
    for cls, k in todo:
        if True:
            if isinstance(k, dict):
                c = k
                exact = c["exact"]
                m = atomic_weight(impl, c)
                T = orc.Tabs()
                W = orc.Walk(T, K, fr(s2f))
                comps = walk_case(W, c, m)
            else:
                exact = (k % 3 != 0) or k < 4
                c = gen_physics(rng, cls, exact, impl)
                exact = c["exact"]
                forced = (["zero", "parallel", "perp"] + (["beam_parallel"] if cls == "BeamEmissionMultiplet" else []))
                if k < len(forced) and cls in POLARISED + ("BeamEmissionMultiplet",):
                    force_degenerate(rng, c, forced[k])
                m = atomic_weight(impl, c)
                T = orc.Tabs()
                W = orc.Walk(T, K, fr(s2f))
                comps = walk_case(W, c, m)
                gen_window(rng, c, comps, exact, quick)
                if rng.random() < 0.15:
                    c["smp0"] = [dyadic(rng, 0, 8, 4) for _ in range(c["bins"])]
                    dist["prefilled"] += 1
            c["delta"] = float(impl.spectrum(c).delta_wavelength)
            ctx.crumb(c)
            out = impl.run(c, smp0=c.get("smp0"))
            if not all(math.isfinite(v) for v in out):
                ctx.violation("c02:%s:nonfinite" % cls, "add_line produced a non-finite sample for finite inputs", c, found=True)
                continue
            cases.append((c, m, T, comps, out))
            g = orc.Grid(c["gmin"], c["gmax"], c["bins"], c["delta"])
            nact = sum(1 for kind, R, lam, wd in comps if wd > 0 and R != 0 and lam - (10 if kind == "G" else 50) * wd <= g.gmax
                       and lam + (10 if kind == "G" else 50) * wd >= g.gmin)
            bump(dist["class"], cls); bump(dist["window"], c["window"]); bump(dist["b_kind"], c["b_kind"])
            bump(dist["pol"], c["pol"]); bump(dist["bins"], c["bins"]); bump(dist["components"], len(comps))
            bump(dist["active_components"], nact)
            dist["zero_width"] += int(not comps or all(wd <= 0 for _, _, _, wd in comps))
            dist["R_zero"] += int(c["R"] == 0)
            dist["exact_stream"] += int(exact)
            nontrivial += int(any(a != b for a, b in zip(out, c.get("smp0") or [0.0] * c["bins"])))
            search_fails += property_failures(impl, W, c, m, out)
    # ---- histories on one live object -----------------------------------------------------------------
    n_seq = 2 if quick else 30
    dist["sequences"] = {"objects": 0, "steps": 0, "spectrum_reused": 0, "mutations": {}}
    for cls in CLASSES:
        for k in range(n_seq):
            steps = gen_sequence(rng, cls, impl)
            lv = impl.live(steps[0])
            dist["sequences"]["objects"] += 1
            prev = None
            for c in steps:
                m = atomic_weight(impl, c)
                T = orc.Tabs()
                W = orc.Walk(T, K, fr(s2f))
                comps = walk_case(W, c, m)
                if c["reuse_spectrum"] and prev is not None:
                    c["gmin"], c["gmax"], c["bins"], c["window"] = prev["gmin"], prev["gmax"], prev["bins"], prev["window"]
                    c["smp0"] = list(prev_out)
                    dist["sequences"]["spectrum_reused"] += 1
                else:
                    c["reuse_spectrum"] = False
                    gen_window(rng, c, comps, True, quick)
                c["delta"] = float(impl.spectrum(c).delta_wavelength)
                ctx.crumb(c)
                out = impl.run_live(lv, c, c["reuse_spectrum"])
                fresh = impl.run(c, smp0=c.get("smp0"))
                dist["sequences"]["steps"] += 1
                for m_ in c["mutations"]:
                    bump(dist["sequences"]["mutations"], m_)
                if out != fresh:
                    i = [a == b for a, b in zip(out, fresh)].index(False)
                    search_fails.append({"claim": "a line-shape object driven through a history adds what a freshly built object adds",
                                         "cls": cls, "bin": i, "live": out[i], "fresh": fresh[i], "case": dict(c),
                                         "history": [dict(st, smp0=None) for st in steps[:c["step"] + 1]]})
                if all(math.isfinite(v) for v in out):
                    cases.append((c, m, T, comps, out))
                    bump(dist["class"], cls + " (live)")
                    nontrivial += int(any(a != b for a, b in zip(out, c.get("smp0") or [0.0] * c["bins"])))
                    search_fails += property_failures(impl, W, c, m, out)
                prev, prev_out = c, out
    # ---- every ordered transition of the polarisation setter on one live object per class (implementation only) ----
    n_walk = 0
    for cls in POLARISED:
        for rep_ in range(2 if quick else 12):
            c0 = gen_physics(rng, cls, True, impl)
            c0["zero_width"] = False
            if c0["ts"] <= 0:
                c0["ts"] = 4.0
            if c0["R"] == 0:
                c0["R"] = 2.0
            if cls == "StarkBroadenedLine" and not (c0["ne"] > 0 and c0["te"] > 0):
                c0["ne"], c0["te"] = 2.0 ** 64, 8.0
            eval_zs(c0)
            T = orc.Tabs()
            W = orc.Walk(T, K, fr(s2f))
            gen_window(rng, c0, walk_case(W, c0, atomic_weight(impl, c0), pol="no"), True, quick)
            lv = impl.live(c0)
            for pol in ("pi", "sigma", "no", "pi", "no", "sigma", "pi", "pi"):
                c = dict(c0, pol=pol, forms=dict(c0["forms"], pol_case=rng.choice(["lower", "upper", "title"])))
                ctx.crumb(c)
                out = impl.run_live(lv, c, False)
                fresh = impl.run(c)
                n_walk += 1
                if out != fresh:
                    i = [a == b for a, b in zip(out, fresh)].index(False)
                    search_fails.append({"claim": "after a sequence of polarisation-setter calls the object adds what a freshly built "
                                                  "object with that polarisation adds", "cls": cls, "polarisation_now": pol, "bin": i,
                                         "live": out[i], "fresh": fresh[i], "case": dict(c)})
                    break
    dist["polarisation_setter_walk_steps"] = n_walk
    # ---- direct calls of add_lorentzian_line (explicit integrator argument) ---------------------------------
    for k in range(10 if quick else 150):
        fw = 2.0 ** rng.randint(-6, 1)
        lam = float(rng.randint(300, 900)) + dyadic(rng, 0, 1, 4)
        bins = rng.choice([1, 2, 3, 5, 8, 12])
        dl = fw / rng.choice([1, 2, 4])
        gmin = lam + dl * rng.randint(-3 * bins, bins) if rng.random() < 0.8 else lam + rng.choice([-1, 1]) * 50 * fw - dl * rng.randint(0, bins)
        c = {"cls": "direct_lorentz", "exact": True, "lam": lam, "sig": fw if rng.random() > 0.1 else rng.choice([0.0, -0.0, -fw]),
             "gmin": gmin, "gmax": gmin + dl * bins, "bins": bins, "R": dyadic(rng, 0.0, 64, 6), "window": "direct_lorentz",
             "integ": gen_integ(rng)}
        c["delta"] = float(impl.spectrum(c).delta_wavelength)
        T = orc.Tabs()
        W = orc.Walk(T, K, fr(s2f))
        comps = walk_case(W, c, None)
        ctx.crumb(c)
        out = impl.run(c)
        cases.append((c, None, T, comps, out))
        bump(dist["class"], "add_lorentzian_line")
        nontrivial += int(any(out))
        search_fails += property_failures(impl, W, c, None, out)
    # ---- direct calls of add_gaussian_line ----------------------------------------------------
    for k in range(n_direct):
        exact = (k % 2 == 0)
        c = gen_direct(rng, exact, quick)
        c["delta"] = float(impl.spectrum(c).delta_wavelength)
        if rng.random() < 0.2:
            c["smp0"] = [dyadic(rng, 0, 8, 4) for _ in range(c["bins"])]
        T = orc.Tabs()
        W = orc.Walk(T, K, fr(s2f))
        comps = walk_case(W, c, None)
        ctx.crumb(c)
        out = impl.run(c, smp0=c.get("smp0"))
        cases.append((c, None, T, comps, out))
        bump(dist["class"], "add_gaussian_line"); bump(dist["bins"], c["bins"])
        nontrivial += int(any(a != b for a, b in zip(out, c.get("smp0") or [0.0] * c["bins"])))
        search_fails += property_failures(impl, W, c, None, out)
    # ---- scale covariance, order / multiplicity, argument forms (on the implementation) ------------------------
    n_cov = 0
    for c, m, T, comps, out in list(cases):
        if c.get("step") is None and c["R"] != 0 and (quick is False or n_cov < 120 or rng.random() < 0.3):
            ctx.crumb(c)
            search_fails += covariance_failures(impl, rng, dict(c, smp0=None))
            n_cov += 1
    dist["covariance_cases"] = n_cov
    n_rej, bad_rej = rejection_table(impl)
    ctx.obligation("rejected argument forms (%d rows)" % n_rej, "search", not bad_rej, str(bad_rej))
    for b_ in bad_rej:
        search_fails.append(dict(b_, claim="an argument form is accepted / rejected as on the reference tree", cls="constructors"))
    # ---- second-order entry points: doppler_shift, thermal_broadening, ZeemanStructure.__call__, StarkFunction ----------
    misc = []
    for k in range(24 if quick else 400):
        exact = k % 2 == 0
        T = orc.Tabs()
        W = orc.Walk(T, K, fr(s2f))
        w = dyadic(rng, 250, 1100, 4) if exact else rng.uniform(250, 1100)
        d, v = rand_vec(rng, 2.0, exact), rand_vec(rng, 2e5 if not exact else 131072.0, exact)
        got = float(impl.doppler_shift(w, impl.Vector3D(*d), impl.Vector3D(*v)))
        W.doppler(fr(w), v3(d), v3(v))
        misc.append("check_doppler %s K %s %s %s %s" % (orc.tabs_text(T), qlit(w), qv(d), qv(v), qlit(got)))
        T = orc.Tabs()
        W = orc.Walk(T, K, fr(s2f))
        t_, m_ = (2.0 ** rng.randint(-6, 14), float(rng.choice([1, 2, 4, 12, 184]))) if exact else (math.exp(rng.uniform(-5, 10)), rng.uniform(1, 200))
        got = float(impl.thermal_broadening(w, t_, m_))
        W.thermal(fr(w), fr(t_), fr(m_))
        misc.append("check_thermal %s K %s %s %s %s" % (orc.tabs_text(T), qlit(w), qlit(t_), qlit(m_), qlit(got)))
        cz = gen_physics(rng, "ZeemanMultiplet", True, impl)
        zs = impl.zeeman_structure(cz, cz["forms"])
        bm = abs(dyadic(rng, 0, 8, 4)) if rng.random() > 0.1 else 0.0
        cz["b"] = [bm, 0.0, 0.0]
        eval_zs(cz)
        for key, name in (("raw_pi", "pi"), ("raw_sp", rng.choice(["sigma_plus", "SIGMA_PLUS"])), ("raw_sm", "sigma_minus")):
            arr = zs(bm, name)
            misc.append("check_zs %s %s %s" % (qpairs(cz[key]), qlist([float(x) for x in arr[0]]), qlist([float(x) for x in arr[1]])))
        fwv, x0 = 2.0 ** rng.randint(-6, 2), rng.uniform(300, 900)
        x = x0 + fwv * rng.uniform(-60, 60)
        dens = float(impl.StarkFunction(x0, fwv)(x))
        ref = 1.0 / (1.0 + (abs(x - x0) / (0.5 * fwv)) ** 2.5) / (0.5 * fwv) / (2.0 * orc._H100)
        if not abs(dens - ref) <= 1e-12 * ref:
            search_fails.append({"claim": "StarkFunction is the modified Lorentzian normalised on +-50 FWHM", "cls": "StarkFunction",
                                 "x0": x0, "fwhm": fwv, "x": x, "got": dens, "want": ref})
    dist["second_order_entry_points"] = len(misc) + (24 if quick else 400)
    # ---- support probes: radiance = +inf leaves non-finite values exactly in [start, end) -----------
    probes = []
    ambiguous = 0
    for k in range(n_support):
        exact = (k % 4 != 3)
        c = gen_direct(rng, exact, quick)
        c["delta"] = float(impl.spectrum(c).delta_wavelength)
        if not support_margin_ok(c):
            ambiguous += 1
            continue
        ctx.crumb(c)
        out = impl.run(c, R=float("inf"))
        nonfinite = [i for i, v in enumerate(out) if not math.isfinite(v)]
        probes.append((c, nonfinite))

    # ---- validation policy / polarisation setter (model outcome vs implementation, in Coq) -------------------
    policy = policy_cases(impl, rng, 20 if quick else 400)
    dist["policy_and_setter_cases"] = len(policy)
    # ---- add_lorentzian_line with the Gauss-Legendre loop evaluated by the Coq model -----------------------------
    gq_texts, gq_metas, gq_skipped = gq_lorentz_cases(impl, rng, 4 if quick else 60, K, s2f)
    dist["lorentz_bins_integrated_by_the_model_loop"] = {"cases": len(gq_texts), "ambiguous_stopping_test_skipped": gq_skipped}
    # ---- GaussianQuadrature through constructor / setter histories -------------------------------------
    quads, quad_fails = quadrature_cases(impl, rng, 50 if quick else 1200)
    search_fails += quad_fails
    dist["quadrature"] = {"histories": len(quads), "constructor_rejected": sum(1 for r in quads if not r["ctor_ok"]),
                          "setter_calls": sum(len(r["ops"]) for r in quads), "setter_calls_rejected": sum(sum(r["errs"]) for r in quads),
                          "min_order_raised": sum(1 for r in quads for o in r["ops"] if o[0] == "min_order"),
                          "polynomials": sum(len(r["polys"]) for r in quads)}
    dist["stark_integrator_routes"] = {}
    for c_, _, _, _, _ in cases:
        if c_["cls"] == "StarkBroadenedLine":
            sp_ = c_.get("integ")
            bump(dist["stark_integrator_routes"], "class default" if sp_ is None else
                 ("reused object" if sp_.get("pool") is not None else ("constructor only" if not sp_["ops"] else "constructor + setters")))

    # ---- collect the background Print Assumptions of the theorems over R -----------------------------------------
    for th in r_threads:
        th.join()
    allowed_prefix = ("PrimInt63.", "Uint63.", "PrimFloat.", "FloatAxioms.", "Float")
    from common import STDLIB_AXIOMS
    chunks = []
    for t in r_theorems:
        ok_, out_ = r_result.get(t, (False, ""))
        if ok_:
            chunks += out_.split("@@THEOREM ")[1:]
    for ch in chunks:
        name = ch.split()[0]
        ax = re.findall(r"^([A-Za-z_][A-Za-z0-9_.']*)\s*$|^([A-Za-z_][A-Za-z0-9_.']*)\s*:", ch.split("Axioms:", 1)[1], re.M) if "Axioms:" in ch else []
        ax = sorted({a_ or b_ for a_, b_ in ax})
        ctx.axioms[name] = ax
        bad = [a_ for a_ in ax if a_ not in STDLIB_AXIOMS and not a_.startswith(allowed_prefix)]
        ctx.obligation("theorem %s" % name, "theorem", not bad, "axioms: %d (standard-library classical reals, primitive 63-bit integers)%s" % (
            len(ax), "; NOT ALLOWED: %s" % bad if bad else ""))
    if len(chunks) != len(r_theorems):
        ctx.obligation("theorems over R present", "theorem", False, str({t: r_result.get(t, (False, ""))[1][-500:] for t in r_theorems}))

    # ---- write the Coq files --------------------------------------------------------------------
    header = ("Require Import Cherab.Common.Qx Cherab.Model.C02_LineShape Cherab.Model.C02_Check.\nOpen Scope Q_scope.\n"
              "Definition K : consts := {| k_amu := %s; k_e := %s; k_c := %s; k_muB := %s; k_hc := %s |}.\n"
              "Definition sqrt2 : Q := %s.\nDefinition s2f : Q := %s.\n" % (
                  qlit(Kf["amu"]), qlit(Kf["e"]), qlit(Kf["c"]), qlit(Kf["muB"]), qlit(Kf["hc"]), qlit(sqrt2), qlit(s2f)))
    files = []
    # order the cases by cost so that the shards are balanced
    order = sorted(range(len(cases)), key=lambda i: -(cases[i][0]["bins"] * max(1, len(cases[i][3]))))
    nshard = max(16, -(-len(cases) // 200))
    shards = [order[i::nshard] for i in range(nshard)]
    for si, ids in enumerate(shards):
        if not ids:
            continue
        body = []
        for j, ci in enumerate(ids):
            c, m, T, comps, out = cases[ci]
            body.append(case_text(j, c, m, T, comps, out, K, sqrt2))
        rs = "; ".join("r%d" % j for j in range(len(ids)))
        ks = "; ".join("k%d" % j for j in range(len(ids)))
        txt = header + "\n".join(body) + ("\nDefinition results : list bool := map agrees [%s].\nEval vm_compute in (failing results).\n"
                                          "Eval vm_compute in (let u := maxusage [%s] in (Qnum u, Zpos (Qden u))).\n"
                                          "Eval vm_compute in (failing [%s]).\n" % (rs, rs, ks))
        files.append((ctx.write_gen("cases_%03d.v" % si, txt), ids, "values"))
    if probes:
        per = 250
        for si in range(0, len(probes), per):
            chunk = probes[si:si + per]
            body = ["check_support %s %s {| gmin := %s; gmax := %s; gbins := %s; gdelta := %s |} [%s]" % (
                qlit(c["lam"]), qlit(c["sig"]), qlit(c["gmin"]), qlit(c["gmax"]), zlit(c["bins"]), qlit(c["delta"]),
                "; ".join(zlit(i) + "%Z" for i in nf)) for c, nf in chunk]
            txt = header + "Definition results : list bool := [\n  " + ";\n  ".join(body) + "].\nEval vm_compute in (failing results).\n"
            files.append((ctx.write_gen("support_%03d.v" % (si // per), txt), list(range(si, si + len(chunk))), "support"))
    per = 200
    for si in range(0, len(quads), per):
        chunk = quads[si:si + per]
        txt = (header.replace("Cherab.Model.C02_Check.", "Cherab.Model.C02_Check Cherab.Model.C02_Quadrature.")
               + "Definition results : list bool := [\n  " + ";\n  ".join(quad_text(r) for r in chunk)
               + "].\nEval vm_compute in (failing results).\n")
        files.append((ctx.write_gen("quadrature_%03d.v" % (si // per), txt), list(range(si, si + len(chunk))), "quad"))
    for si in range(0, len(gq_texts), 6):
        chunk = gq_texts[si:si + 6]
        txt = (header.replace("Cherab.Model.C02_Check.", "Cherab.Model.C02_Check Cherab.Model.C02_Quadrature.")
               + "Definition results : list bool := [\n  " + ";\n  ".join(chunk) + "].\nEval vm_compute in (failing results).\n")
        files.append((ctx.write_gen("gqloop_%03d.v" % (si // 6), txt), list(range(si, si + len(chunk))), "gq"))
    for si in range(0, len(policy), 300):
        chunk = policy[si:si + 300]
        txt = (header.replace("Cherab.Model.C02_Check.", "Cherab.Model.C02_Check Cherab.Model.C02_Policy.\nFrom Coq Require Import String.")
               + "Definition results : list bool := [\n  " + ";\n  ".join(chunk) + "].\nEval vm_compute in (failing results).\n")
        files.append((ctx.write_gen("policy_%03d.v" % (si // 300), txt), list(range(si, si + len(chunk))), "policy"))
    for si in range(0, len(misc), 250):
        chunk = misc[si:si + 250]
        txt = header + "Definition results : list bool := [\n  " + ";\n  ".join(chunk) + "].\nEval vm_compute in (failing results).\n"
        files.append((ctx.write_gen("misc_%03d.v" % (si // 250), txt), list(range(si, si + len(chunk))), "misc"))
    ctx.log("generated %d value cases, %d support probes (%d ambiguous skipped); running coqc" % (len(cases), len(probes), ambiguous))
    res = coqc_many([f for f, _, _ in files], timeout=1500)
    diff_cases, diff_probes, diff_quads, diff_misc, diff_policy, diff_gq = [], [], [], [], [], []
    max_usage = 0.0
    n_keycheck = 0
    for f, ids, kind in files:
        ok, out = res[f]
        vals = parse_evals(out) if ok else []
        good = ok and len(vals) == (3 if kind == "values" else 1)
        failing = parse_zlist(vals[0]) if good else []
        if good and kind == "values":
            mu = re.match(r"\(\s*\(?(-?\d+)\)?%?Z?\s*,\s*\(?(\d+)\)?%?Z?\s*\)", vals[1])
            if mu:
                max_usage = max(max_usage, int(mu.group(1)) / int(mu.group(2)))
            missing_keys = parse_zlist(vals[2])
            n_keycheck += len(ids)
            if missing_keys:
                ctx.broken.append("oracle-key walk deviates from the model in %s, local cases %s (levels 1-2 keys computed by Coq are "
                                  "missing from the tables)" % (os.path.basename(f), missing_keys))
        ctx.obligation("correspondence %s (%d cases)" % (os.path.basename(f), len(ids)), "correspondence",
                       good and not failing, out if not good else "DIFF at local indices %s" % failing)
        if not good:
            ctx.broken.append("coqc failed on %s: %s" % (f, out[-600:]))
        {"values": diff_cases, "support": diff_probes, "quad": diff_quads, "misc": diff_misc, "policy": diff_policy, "gq": diff_gq}[kind].extend(ids[i] for i in failing)
    ctx.log("correspondence: %d value cases (%d disagree), %d support probes (%d disagree)" % (
        len(cases), len(diff_cases), len(probes), len(diff_probes)))

    # ---- extra search: a grid of oblique field angles for the polarised models ---------------------
    n_angle = 0
    for cls in POLARISED:
        for k in range(6 if quick else 40):
            c = gen_physics(rng, cls, False, impl)
            c["zero_width"] = False
            if c["ts"] <= 0:
                c["ts"] = 3.0
            ang = math.pi * (k + 0.37) / (6 if quick else 40)
            c["dir"] = [1.0, 0.0, 0.0]
            c["b"] = [2.5 * math.cos(ang), 2.5 * math.sin(ang), 0.0]
            eval_zs(c)
            m = atomic_weight(impl, c)
            T = orc.Tabs()
            W = orc.Walk(T, K, fr(s2f))
            comps = walk_case(W, c, m, pol="no")
            c["window"] = "spans"
            act = [(float(lam), float(wd) * (10 if kd == "G" else 50)) for kd, R, lam, wd in comps if wd > 0]
            if not act:
                continue
            lo, hi = min(l - r for l, r in act), max(l + r for l, r in act)
            c["gmin"], c["gmax"], c["bins"] = lo - 0.05 * (hi - lo), hi + 0.05 * (hi - lo), 64
            lws = [float(wd) for kd, R, lam, wd in comps if kd == "L" and wd > 0]
            if lws:      # keep the Stark bins <= 0.8 FWHM (accuracy of the code's quadrature, see gen_window)
                c["bins"] = max(64, int(math.ceil(1.1 * (hi - lo) / (0.8 * min(lws)))))
            c["delta"] = float(impl.spectrum(c).delta_wavelength)
            ctx.crumb(c)
            search_fails += property_failures(impl, W, c, m)
            n_angle += 1

    # ---- Stark profile on coarse spectral grids (bins much wider than the line) ---------------------
    coarse = stark_coarse_probe(impl, quick)
    if coarse["worst_rel_err"] > 1e-3:
        ctx.violation("c02:StarkBroadenedLine:coarse-grid-normalisation",
                      "StarkBroadenedLine: on a spectral grid whose bins are much wider than the line the wavelength integral of the "
                      "added spectrum is not the supplied radiance (the per-bin Gauss-Legendre quadrature of add_lorentzian_line "
                      "under-resolves the profile): integral/R = %.4f at %g FWHM per bin" % (
                          coarse["worst"]["integral_over_R"], coarse["worst"]["bin_over_fwhm"]), coarse, found=True)
    n_search = len(cases) + n_angle + coarse["n"]
    ctx.obligation("executable property on the implementation (%d cases)" % n_search, "search", not search_fails,
                   str(search_fails[:3]))
    seen = set()
    for sf in search_fails:
        key = "c02:%s:%s" % (sf["cls"], sf["claim"][:40])
        if key in seen:
            continue
        seen.add(key)
        ctx.violation(key, "%s: %s" % (sf["cls"], sf["claim"]), sf, found=True)
        if len(seen) >= 6:
            break
    for gi in diff_gq[:3]:
        ctx.violation("c02:add_lorentzian_line:gauss-legendre-loop",
                      "add_lorentzian_line: a bin differs from the model that evaluates GaussianQuadrature's loop over StarkFunction "
                      "(2^-40 relative)", {"case": gq_metas[gi]}, found=True)
    for pi_ in diff_policy[:3]:
        ctx.violation("c02:policy:" + policy[pi_].split()[0] + ":" + policy[pi_].split()[1].strip("("),
                      "constructor validation / polarisation setter: the implementation accepts, rejects or reports another state than "
                      "the model", {"coq_case": policy[pi_][:2000]}, found=True)
    for mi in diff_misc[:3]:
        ctx.violation("c02:entry-point:" + misc[mi].split()[0], "a public helper (doppler_shift / thermal_broadening / ZeemanStructure.__call__) "
                      "returns another value than the model", {"coq_case": misc[mi][:3000]}, found=True)
    for qi in diff_quads[:3]:
        r = quads[qi]
        ctx.violation("c02:GaussianQuadrature:setter-history",
                      "GaussianQuadrature: after this constructor call and setter history the integrator does not integrate a polynomial "
                      "of degree <= 2 min_order - 1 exactly / reports other orders or errors than the model (the integrator of the Stark part "
                      "of StarkBroadenedLine)", {"history": r}, found=True)
    if (diff_cases or diff_probes) and not search_fails:
        for ci in diff_cases[:3]:
            c = cases[ci][0]
            ctx.violation("c02-diff:%s" % c["cls"],
                          "model spectrum and implementation spectrum differ for a %s case; the executable property found no "
                          "failing input" % c["cls"], {"case": c, "impl": cases[ci][4]}, found=False)
        for pi in diff_probes[:3]:
            c, nf = probes[pi]
            ctx.violation("c02-support:add_gaussian_line",
                          "the set of bins add_gaussian_line writes to differs from the model's [start, end)",
                          {"case": c, "bins_written": nf}, found=True)

    ctx.coverage.update({
        "evaluations": len(cases) + len(probes) + len(quads),
        "distinct_nontrivial": nontrivial + sum(1 for _, nf in probes if nf),
        "rule": "one value case = one add_line / add_gaussian_line call on a generated state and window, every bin compared in Coq; "
                "non-trivial = the call changed at least one bin (value cases) or wrote to at least one bin (support probes)",
        "distribution": dict(dist, value_cases=len(cases), support_probes=len(probes), support_ambiguous_skipped=ambiguous,
                             search_cases=n_search, oblique_angle_cases=n_angle),
        "tolerance": {"per_bin_in_Coq": "sum over components of |R|/delta * (2^-47 + 2^-50 * W/width_c) (R the supplied radiance; twice the worst-case rounding bound), plus 2^-13 of the bin's own "
                                        "Stark part (the code's quadrature stops at 1e-5 relative between successive orders; "
                                        "measured true per-bin error up to 3.8e-5 for bins <= 1 FWHM, which the generator enforces)",
                      "support": "exact (cases whose floor/ceil argument is within 2^-30 of an integer are counted as ambiguous and skipped)",
                      "search": "(1e-9 + 4e-15 W/width) R/delta per bin, 1.5e-4 of the Stark part; pi+sigma vs unpolarised: 8 ulp",
                      "max_tolerance_usage_this_run": max_usage},
        "partial": ["Gaussian truncation constant 1 - erf(10/sqrt 2) = 1.5e-23 is an oracle fact (C02_gauss_total_partial)",
                    "normalisation of the Stark profile on +-50 FWHM (hypergeometric constant) is an oracle fact "
                    "(C02_stark_integral_partial); the tie checks it numerically against the closed form",
                    "accuracy of libm and of the code's Gaussian quadrature is not proved"],
    })
    ctx.coverage["stark_coarse_grid_probe"] = {"integral_over_R_by_bin_width_in_FWHM": coarse["rows"],
                                               "worst_rel_err": coarse["worst_rel_err"]}
    erf_c = math.erf(10.0 / math.sqrt(2.0))
    ctx.coverage["oracle_facts_recorded"] = {
        "erf(10/M_SQRT2) in libm": erf_c, "eps admissible in C02_gauss_whole_radiance with libm's erf": 1.0 - erf_c,
        "2*100*2F1(2/5,1;7/5;-100^2.5) (scipy) vs StarkFunction density": "checked per run in the entry-point stream (1e-12)"}
    ctx.coverage["compared_in_coq"] = {
        "spectrum bins (classes, live objects, add_gaussian_line, add_lorentzian_line)": "|R|/delta (2^-47 + 2^-50 W/width) per component + 2^-13 of the Stark part",
        "bins written (radiance = +inf probe)": "exact",
        "oracle keys of levels 1-2 (sqrt of |dir|^2, |B|^2, T e/(m amu), beam speed; pow of ne, te, ts; then sqrt of 1+beta^2 ts^(2 gamma), "
        "|v x B|^2)": "recomputed by Coq from the inputs and looked up: exact (%d cases)" % n_keycheck,
        "oracle tables": "sqrt entries by squaring (2^-50), erf in [-1,1], erf/sqrt/log/exp tables monotone in their keys (1 ulp)",
        "GaussianQuadrature orders / ValueErrors after setter histories": "exact", "polynomial integrals": "2^-40 of sum|c_k|M^k|b-a|",
        "doppler_shift, thermal_broadening": "2^-48 relative", "ZeemanStructure.__call__": "wavelengths exact, ratios 2^-50",
        "constructor validation, polarisation setter trace": "exact", "source constants (Tie.v)": "exact rationals of the decimal literals"}
    ctx.coverage["samples"] = [cases[0][0], cases[len(cases) // 2][0]] if cases else []
    ctx.grep_gate()
