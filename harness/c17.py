"""C17 -- Voxel area, centroid and volume are exact and independent of vertex order
(cherab/tools/inversions/voxels.pyx: AxisymmetricVoxel, VoxelCollection.total_volume).

Theorems: coq/Properties/C17.v (vertex lists of any length, any rotation / orientation / translation,
any number of triangles, any draw sequence, grids of any size).
Tie: correspondence -- the real AxisymmetricVoxel / ToroidalVoxelGrid are run on random simple polygons
(triangles, rectangles, convex, star-shaped concave, templates; both orientations, random starting vertex)
and the stored vertex list, area, centroid, volume, grid total, every sample point of
emissivity_from_function (raysect's RNG is seeded and its uniform stream re-drawn) and the returned mean
are compared inside Coq (vm_compute) with the model's values.
Search: the executable statement of the property on the implementation (exact rational reference
computed with independent formulas, every rotation and both orientations, triangle-hit frequencies and
sample means of linear functions at 5 sigma, constants, grid sums).
"""
import glob
import json
import math
import os
from fractions import Fraction

import numpy as np

from common import VERIF, qlit, zlit, dyadic, coqc_many, parse_evals, parse_zlist, frac

THEOREMS = ["C17_area_independent_of_vertex_order", "C17_centroid_independent_of_vertex_order",
            "C17_volume_independent_of_vertex_order", "C17_volume_is_two_pi_radius_area",
            "C17_stored_vertices_clockwise", "C17_translation", "C17_scaling", "C17_triangle_exact", "C17_rectangle_exact",
            "C17_true_area_and_centroid_partial", "C17_total_volume_is_sum",
            "C17_find_index_bisection_is_contract", "C17_select_picks_area_interval",
            "C17_select_off_by_one_refuted", "C17_emissivity_exact_for_constants",
            "C17_sample_point_in_triangle", "C17_emissivity_unbiased_partial",
            "C17_expectation_for_every_sample_count_partial", "C17_stratified_choice_refuted",
            "C17_selection_probability_on_uniform_grid", "C17_expectation_on_uniform_grid",
            "C17_cumulative_areas_sorted", "C17_search_reference_is_model", "C17_fast_evaluators_equal_model",
            "C17_constructor_accepts_only_valid", "C17_draw_stream", "C17_rectangle_helper_accepts_trapezoid",
            "C17_convex_ear_clipping_clockwise", "C17_point_triangle_uniform_on_grid", "C17_rectangle_helper_exact_set"]

PI = 3.141592653589793          # the constant of voxels.pyx line 41; re-read from the source at the start of run()
DEFAULT_SAMPLES = 10            # likewise (default grid_samples of the signatures)
F = Fraction


# ---------------------------------------------------------------------------------------------
# constants read from the current source (fail-closed): PI, default grid_samples / primitive_type
# ---------------------------------------------------------------------------------------------
def translate_constants(repo):
    import re
    src = open(os.path.join(repo, "cherab", "tools", "inversions", "voxels.pyx")).read()
    m = re.findall(r"^cdef double PI = ([0-9][0-9.eE+-]*)[ \t]*$", src, re.M)
    if len(m) != 1:
        raise RuntimeError("translator: expected exactly one 'cdef double PI = <literal>' line, found %d" % len(m))
    pi = float(m[0])
    d1 = re.findall(r"cpdef double emissivity_from_function\(self, emission_function, int grid_samples=(\d+)\)", src)
    d2 = re.findall(r"def emissivities_from_function\(self, emission_function, int grid_samples=(\d+)\)", src)
    if len(d1) != 2 or len(d2) != 1:
        raise RuntimeError("translator: signatures of emissivity_from_function (2) / emissivities_from_function (1) not "
                           "found as expected: %r %r" % (d1, d2))
    pt = re.findall(r"def __init__\(self, vertices, parent=None, material=None, primitive_type='(\w+)'\)", src)
    if len(pt) != 1:
        raise RuntimeError("translator: AxisymmetricVoxel.__init__ signature not found")
    return {"PI": pi, "PI_text": m[0], "default_grid_samples": [int(x) for x in d1 + d2], "default_primitive_type": pt[0]}


# ---------------------------------------------------------------------------------------------
# polygons
# ---------------------------------------------------------------------------------------------
def _orient(a, b, c):
    return (b[0] - a[0]) * (c[1] - a[1]) - (b[1] - a[1]) * (c[0] - a[0])


def _on_seg(a, b, p):
    return min(a[0], b[0]) <= p[0] <= max(a[0], b[0]) and min(a[1], b[1]) <= p[1] <= max(a[1], b[1])


def _seg_intersect(p1, p2, p3, p4):
    d1, d2 = _orient(p3, p4, p1), _orient(p3, p4, p2)
    d3, d4 = _orient(p1, p2, p3), _orient(p1, p2, p4)
    if ((d1 > 0 and d2 < 0) or (d1 < 0 and d2 > 0)) and ((d3 > 0 and d4 < 0) or (d3 < 0 and d4 > 0)):
        return True
    return ((d1 == 0 and _on_seg(p3, p4, p1)) or (d2 == 0 and _on_seg(p3, p4, p2))
            or (d3 == 0 and _on_seg(p1, p2, p3)) or (d4 == 0 and _on_seg(p1, p2, p4)))


def is_simple(pts, allow_collinear=False):
    """exact test (Fractions): no two non-adjacent edges meet; adjacent edges are not collinear, or
    (allow_collinear) a collinear vertex lies strictly between its neighbours (no spikes)"""
    P = [(frac(x), frac(y)) for x, y in pts]
    n = len(P)
    if n < 3 or len(set(P)) != n:
        return False
    for i in range(n):
        a, b, c = P[i - 1], P[i], P[(i + 1) % n]
        if _orient(a, b, c) == 0:
            if not allow_collinear:
                return False
            if (b[0] - a[0]) * (c[0] - b[0]) + (b[1] - a[1]) * (c[1] - b[1]) <= 0:
                return False
    for i in range(n):
        for j in range(i + 1, n):
            if j == i + 1 or (i == 0 and j == n - 1):
                continue
            if _seg_intersect(P[i], P[(i + 1) % n], P[j], P[(j + 1) % n]):
                return False
    return True


def exact_reference(pts):
    """(area, cx, cy) as Fractions by formulas other than the code's: trapezoid rule for the area,
    signed fan from vertex 0 for the centroid"""
    P = [(frac(x), frac(y)) for x, y in pts]
    n = len(P)
    s = sum((P[(i + 1) % n][0] - P[i][0]) * (P[(i + 1) % n][1] + P[i][1]) for i in range(n))
    area = abs(s) / 2
    sa = sx = sy = F(0)
    for i in range(1, n - 1):
        t = _orient(P[0], P[i], P[i + 1])
        sa += t
        sx += t * (P[0][0] + P[i][0] + P[i + 1][0]) / 3
        sy += t * (P[0][1] + P[i][1] + P[i + 1][1]) / 3
    return area, sx / sa, sy / sa


def tolerances(pts):
    """the same rounding-error budgets as Model/C17_Check.v (tol_area, tol_centroid)"""
    P = [(frac(x), frac(y)) for x, y in pts]
    n = len(P)
    acr = agx = agy = sh = F(0)
    for i in range(n):
        a, b = P[i], P[(i + 1) % n]
        t = abs(a[0] * b[1]) + abs(b[0] * a[1])
        acr += t
        agx += abs(a[0] + b[0]) * t
        agy += abs(a[1] + b[1]) * t
        sh += a[0] * b[1] - b[0] * a[1]
    e = F(1, 2 ** 48) * n
    area, cx, cy = exact_reference(pts)
    s = abs(sh)
    ta = e * acr / 2
    tx = e * (agx / (3 * s) + abs(cx) * acr / s) + abs(cx) / 2 ** 50
    ty = e * (agy / (3 * s) + abs(cy) * acr / s) + abs(cy) / 2 ** 50
    tv = 2 * frac(math.pi) * (tx * area + abs(cx) * ta) + 2 * frac(math.pi) * abs(cx) * area / 2 ** 50
    return ta, tx, ty, tv


def gen_polygon(rng, cls, exact):
    """one simple polygon of the class, r >= 0, random orientation and starting vertex"""
    def num(lo, hi):
        return dyadic(rng, lo, hi, 8) if exact else rng.uniform(lo, hi)
    for _ in range(200):
        r0 = rng.choice([0.0, 0.0, num(0, 1), num(1, 4), num(1, 4), num(4, 9), 64.0 + num(0, 4)])
        z0 = rng.choice([0.0, num(-3, 3), num(-3, 3), -32.0 + num(0, 2)])
        size = rng.choice([0.125, 0.5, 1.0, 1.0, 2.0]) if cls != "bigstar" else rng.choice([1.0, 2.0, 4.0])
        if cls == "triangle":
            pts = [(r0 + size * num(0, 1), z0 + size * num(-1, 1)) for _ in range(3)]
        elif cls == "rectangle":
            w, h = size * num(0.0625, 1), size * num(0.0625, 1)
            if w <= 0 or h <= 0:
                continue
            pts = [(r0, z0), (r0 + w, z0), (r0 + w, z0 + h), (r0, z0 + h)]
        elif cls in ("convex", "star", "bigstar"):
            n = rng.randint(4, 12) if cls == "star" else (rng.randint(4, 9) if cls == "convex" else rng.choice([16, 24, 32, 48]))
            ang = sorted(rng.uniform(0, 2 * math.pi) for _ in range(n))
            pts = []
            for k, a in enumerate(ang):
                rad = 1.0 if cls == "convex" else rng.choice([0.3, 0.45, 1.0, 1.0, rng.uniform(0.3, 1.0)])
                if cls == "bigstar":
                    rad = rng.choice([0.6, 1.0, 1.0])
                x, y = r0 + size * (1 + rad * math.cos(a)), z0 + size * rad * math.sin(a)
                if exact:
                    x, y = round(x * 256) / 256, round(y * 256) / 256
                pts.append((x, y))
        elif cls == "quad":
            # quadrilaterals that look like rectangles to shortcuts (4 vertices, equal diagonals and/or an
            # axis-aligned edge) without being axis-aligned rectangles
            def q(lo, hi):
                return dyadic(rng, lo, hi, 4) if exact else rng.uniform(lo, hi)
            w, h = size * q(1, 4), size * q(0.5, 3)
            t = rng.choice(["trap_h", "trap_v", "kite", "rot_rect", "diamond", "parallelogram", "eqdiag_h", "eqdiag_v",
                            "near_rect", "trap_h", "trap_v", "eqdiag_h", "eqdiag_v"])
            if t in ("trap_h", "trap_v"):
                d = w * rng.choice([0.125, 0.25, 0.375])
                pts = [(0, 0), (w, 0), (w - d, h), (d, h)]
                if rng.random() < 0.5:
                    pts = [(d, 0), (w - d, 0), (w, h), (0, h)]
            elif t == "kite":
                a = w * rng.choice([0.25, 0.5, 0.75])
                pts = [(0, h), (a, 0), (w, h), (a, 2 * h)]
            elif t == "rot_rect":
                m, n2 = size * rng.choice([0.25, 0.5, 1.0]), size * rng.choice([0.125, 0.25, 0.5])
                u, v2 = (4 * m, 3 * m), (-3 * n2, 4 * n2)
                pts = [(3 * n2, 0), (3 * n2 + u[0], u[1]), (3 * n2 + u[0] + v2[0], u[1] + v2[1]), (3 * n2 + v2[0], v2[1])]
            elif t == "diamond":
                pts = [(w / 2, 0), (w, w / 2), (w / 2, w), (0, w / 2)]
            elif t == "parallelogram":
                sh = w * rng.choice([0.125, 0.25, 0.5])
                pts = [(0, 0), (w, 0), (w + sh, h), (sh, h)]
            elif t in ("eqdiag_h", "eqdiag_v"):
                # diagonals (a, b) and (-b, a): equal length, first edge axis-aligned
                a, b = size * q(1, 4), size * q(0.5, 3)
                ww = size * q(1, 4)
                pts = [(0, 0), (ww, 0), (a, b), (ww - b, a)]
            else:
                dx, dy = w * rng.choice([-0.25, 0.125, 0.25]), h * rng.choice([-0.25, 0.125, 0.25])
                pts = [(0, 0), (w, 0), (w + dx, h + dy), (0, h)]
            if t in ("trap_v", "eqdiag_v") or (t in ("parallelogram", "near_rect") and rng.random() < 0.5):
                pts = [(y, x) for x, y in pts]
            xm = min(x for x, _ in pts)
            pts = [(r0 + x - xm, z0 + y) for x, y in pts]
        elif cls == "axis":
            # rectilinear outlines and polygons with collinear vertices (extra vertices on straight edges)
            w, h = size * num(0.5, 1), size * num(0.5, 1)
            t = rng.choice(["rect_mid", "stairs", "L_mid", "tri_mid", "trap_mid"])
            if t == "rect_mid":
                pts = [(0, 0), (w, 0), (w, h), (0, h)]
            elif t == "stairs":
                pts = [(0, 0), (w, 0), (w, h / 4), (3 * w / 4, h / 4), (3 * w / 4, h / 2), (w / 2, h / 2), (w / 2, h), (0, h)]
            elif t == "L_mid":
                pts = [(0, 0), (w, 0), (w, h / 2), (w / 2, h / 2), (w / 2, h), (0, h)]
            elif t == "tri_mid":
                pts = [(0, 0), (w, 0), (w / 2, h)]
            else:
                pts = [(0, 0), (w, 0), (3 * w / 4, h), (w / 4, h)]
            mids = set(rng.sample(range(len(pts)), rng.randint(1, min(len(pts), 12 - len(pts)))))
            out = []
            for i, a in enumerate(pts):
                b = pts[(i + 1) % len(pts)]
                out.append(a)
                if i in mids:
                    f = rng.choice([0.25, 0.5, 0.75])
                    out.append((a[0] + f * (b[0] - a[0]), a[1] + f * (b[1] - a[1])))
            pts = [(r0 + x, z0 + y) for x, y in out]
        else:   # templates: L, arrow, notch, comb
            w, h = size * num(0.5, 1), size * num(0.5, 1)
            a, b = w * rng.choice([0.25, 0.5, 0.75]), h * rng.choice([0.25, 0.5, 0.75])
            t = rng.choice(["L", "arrow", "notch", "zig"])
            if t == "L":
                pts = [(0, 0), (w, 0), (w, b), (a, b), (a, h), (0, h)]
            elif t == "arrow":
                pts = [(0, 0), (w, h / 2), (0, h), (a / 2, h / 2)]
            elif t == "notch":
                pts = [(0, 0), (w, 0), (w, h), (a + (w - a) / 2, h), (a, b), (a / 2, h), (0, h)]
            else:
                pts = [(0, 0), (w / 2, b / 2), (w, 0), (w, h), (w / 2, b), (0, h)]
            pts = [(r0 + x, z0 + y) for x, y in pts]
        pts = [(float(x), float(y)) for x, y in pts]
        if min(x for x, _ in pts) < 0:
            continue
        if not is_simple(pts, allow_collinear=(cls == "axis")):
            continue
        area, _, _ = exact_reference(pts)
        if area < F(1, 4096):
            continue
        if rng.random() < 0.5:
            pts = pts[::-1]
        k = rng.randrange(len(pts))
        return pts[k:] + pts[:k]
    raise RuntimeError("generator could not produce a simple polygon of class " + cls)


def rectangle_like(stored):
    """the test of AxisymmetricVoxel._has_rectangular_cross_section (4 vertices, equal diagonals as doubles,
    edge 1-2 axis-aligned) and whether the polygon really is an axis-aligned rectangle"""
    if len(stored) != 4:
        return False, False
    (x1, y1), (x2, y2), (x3, y3), (x4, y4) = stored
    d13 = math.sqrt((x1 - x3) ** 2 + (y1 - y3) ** 2)
    d24 = math.sqrt((x2 - x4) ** 2 + (y2 - y4) ** 2)
    passes = d13 == d24 and not ((x2 - x1) != 0 and (y2 - y1) != 0)
    xs, ys = sorted({x1, x2, x3, x4}), sorted({y1, y2, y3, y4})
    is_rect = len(xs) == 2 and len(ys) == 2 and all((x, y) in stored for x in xs for y in ys)
    return passes, is_rect


def variants(pts):
    out = []
    for base in (pts, pts[::-1]):
        for k in range(len(pts)):
            out.append(base[k:] + base[:k])
    return out


# ---------------------------------------------------------------------------------------------
# Coq literals
# ---------------------------------------------------------------------------------------------
def ptlist(pts):
    return "[" + "; ".join("(%s, %s)" % (qlit(x), qlit(y)) for x, y in pts) + "]"


def trilist(tris):
    return "[" + "; ".join("(%d, %d, %d)" % tuple(t) for t in tris) + "]%nat"


# ---------------------------------------------------------------------------------------------
# the implementation
# ---------------------------------------------------------------------------------------------
class ImplError(Exception):
    """the implementation raised on a valid input; args[0] is the finding"""


class Impl:
    def __init__(self):
        from cherab.tools.inversions.voxels import AxisymmetricVoxel, ToroidalVoxelGrid
        from raysect.core.math.random import seed, uniform
        from raysect.core.math import triangulate2d
        self.Voxel, self.Grid, self.seed, self.uniform, self.triangulate2d = \
            AxisymmetricVoxel, ToroidalVoxelGrid, seed, uniform, triangulate2d

    def geom(self, pts, primitive_type="csg"):
        self.crumb({"call": "AxisymmetricVoxel(polygon, primitive_type): area, centroid, volume", "polygon": pts,
                    "primitive_type": primitive_type})
        try:
            v = self.Voxel(pts, primitive_type=primitive_type)
            stored = [(float(p.x), float(p.y)) for p in v.vertices]
            c = v.cross_section_centroid
            kids = list(v.children)
            if not all_finite(stored, float(v.cross_sectional_area), float(c.x), float(c.y), float(v.volume)):
                raise ImplError({"claim": "area, centroid and volume of a simple polygon are finite numbers", "polygon": pts,
                                 "area": float(v.cross_sectional_area), "centroid": (float(c.x), float(c.y)),
                                 "volume": float(v.volume)})
            return v, {"stored": stored, "area": float(v.cross_sectional_area), "cx": float(c.x), "cy": float(c.y),
                       "volume": float(v.volume),
                       "rect_path": (len(kids) == 1 and type(kids[0]).__name__ == "Subtract") if primitive_type == "csg" else None}
        except ImplError:
            raise
        except (ZeroDivisionError, ValueError, TypeError, RuntimeError, IndexError) as e:
            # an exception on a simple polygon of non-zero area is a finding, reported by the caller
            raise ImplError({"claim": "a voxel built from a simple polygon reports its area, centroid and volume "
                                      "(the implementation raised %s)" % type(e).__name__,
                             "polygon": pts, "primitive_type": primitive_type, "exception": repr(e)})

    def err_code(self, pts):
        try:
            self.Voxel(pts)
        except TypeError:
            return 1
        except ValueError:
            return 2
        return 0

    def triangles(self, stored):
        return [tuple(int(i) for i in t) for t in self.triangulate2d(np.array(stored, dtype=np.float64))]

    crumb = staticmethod(lambda obj: None)

    def emissivity(self, voxel, ntri, rseed, n, coeffs):
        """returns (value, sample points (r, z), draws (u_sel, u1, u2)) -- the uniform stream is re-drawn
        after re-seeding: u_sel is only consumed when there are at least two triangles"""
        c0, c1, c2 = coeffs
        pts = []
        self.crumb({"call": "AxisymmetricVoxel(polygon).emissivity_from_function(c0 + c1 r + c2 z, grid_samples) after "
                            "raysect.core.math.random.seed(raysect_seed)",
                    "polygon": [(p.x, p.y) for p in voxel.vertices], "raysect_seed": rseed, "grid_samples": n,
                    "coeffs": coeffs})

        def f(x, y, z):
            if y != 0:
                raise AssertionError("emission function sampled off the r-z plane: y=%r" % y)
            pts.append((float(x), float(z)))
            return c0 + c1 * x + c2 * z
        self.seed(rseed)
        val = float(voxel.emissivity_from_function(f, n))
        self.seed(rseed)
        draws = []
        for _ in range(n):
            us = self.uniform() if ntri > 1 else 0.0
            draws.append((us, self.uniform(), self.uniform()))
        return val, pts, draws


def locate(stored, tris, p, slack=1e-9):
    """indices of the triangles containing the point (barycentric test with slack)"""
    hit = []
    for j, (a, b, c) in enumerate(tris):
        A, B, C = stored[a], stored[b], stored[c]
        d = (B[0] - A[0]) * (C[1] - A[1]) - (B[1] - A[1]) * (C[0] - A[0])
        if d == 0:
            continue
        l1 = ((B[0] - p[0]) * (C[1] - p[1]) - (B[1] - p[1]) * (C[0] - p[0])) / d
        l2 = ((C[0] - p[0]) * (A[1] - p[1]) - (C[1] - p[1]) * (A[0] - p[0])) / d
        l3 = 1 - l1 - l2
        if min(l1, l2, l3) >= -slack:
            hit.append(j)
    return hit


# ---------------------------------------------------------------------------------------------
# executable statement of the property on the implementation (failing-input search)
# ---------------------------------------------------------------------------------------------
def search_geometry(impl, pts, all_variants):
    """area / centroid / volume of the voxel equal the exact reference, for the given vertex order and
    (all_variants) every rotation and both orientations"""
    fails = []
    area, cx, cy = exact_reference(pts)
    ta, tx, ty, tv = tolerances(pts)
    vol = 2 * frac(math.pi) * cx * area
    outs = []
    for var in (variants(pts) if all_variants else [pts]):
        try:
            _, g = impl.geom(var)
        except ImplError as e:
            return [e.args[0]]
        outs.append(g)
        for name, got, want, tol in (("area", g["area"], area, ta), ("centroid.x", g["cx"], cx, tx),
                                     ("centroid.y", g["cy"], cy, ty), ("volume", g["volume"], vol, tv)):
            if not abs(frac(got) - want) <= tol:
                if not fails:
                    fails.append({"claim": "%s equals the exact value for this vertex order" % name, "polygon": var,
                                  "got": got, "want": float(want), "tolerance": float(tol)})
                break
    if all_variants:
        for name in ("area", "cx", "cy", "volume"):
            vals = [g[name] for g in outs]
            tol = {"area": ta, "cx": tx, "cy": ty, "volume": tv}[name]
            if frac(max(vals)) - frac(min(vals)) > 2 * tol:
                fails.append({"claim": "%s is the same for every rotation and orientation" % name, "polygon": pts,
                              "min": min(vals), "max": max(vals)})
    return fails


def search_sampling(impl, pts, rng, n_samples):
    """(i) sum of triangle areas = area; (ii) every sample point lies in the cross-section; (iii) triangle
    hit counts match area fractions at 5 sigma; (iv) mean of linear functions = value at centroid at 5 sigma;
    (v) constants are reproduced"""
    fails = []
    try:
        v, g = impl.geom(pts)
    except ImplError as e:
        return [e.args[0]]
    stored = g["stored"]
    tris = impl.triangles(stored)
    areas = [abs(_orient(*[tuple(map(frac, stored[i])) for i in t])) / 2 for t in tris]
    area, cx, cy = exact_reference(pts)
    if sum(areas) != area:
        fails.append({"claim": "triangle areas add up to the cross-sectional area", "polygon": pts,
                      "sum": float(sum(areas)), "area": float(area)})
        return fails
    coeffs = (dyadic(rng, -2, 2, 3), dyadic(rng, -2, 2, 3), dyadic(rng, -2, 2, 3))
    rseed = rng.randint(1, 2 ** 62)
    val, spts, _ = impl.emissivity(v, len(tris), rseed, n_samples, coeffs)
    info = {"polygon": pts, "raysect_seed": rseed, "grid_samples": n_samples, "coeffs": coeffs}
    if len(spts) != n_samples:
        fails.append(dict(info, claim="one evaluation of the function per sample", evaluations=len(spts)))
        return fails
    counts = [0] * len(tris)
    outside = 0
    for p in spts:
        h = locate(stored, tris, p)
        if not h:
            outside += 1
        elif len(h) == 1:
            counts[h[0]] += 1
    if outside:
        fails.append(dict(info, claim="every sample point lies inside the cross-section", outside=outside))
    n_in = sum(counts)
    for j, cnt in enumerate(counts):
        p = float(areas[j] / area)
        sd = math.sqrt(n_in * p * (1 - p))
        if abs(cnt - n_in * p) > 5 * sd + 1:
            fails.append(dict(info, claim="triangles are chosen with probability area_j / area (5 sigma)", triangle=j,
                              hits=cnt, expected=n_in * p, counts=counts,
                              area_fractions=[float(a / area) for a in areas]))
            break
    fv = [coeffs[0] + coeffs[1] * x + coeffs[2] * z for x, z in spts]
    want = coeffs[0] + coeffs[1] * float(cx) + coeffs[2] * float(cy)
    sd = float(np.std(fv)) / math.sqrt(n_samples)
    if abs(val - want) > 5 * sd + 1e-12:
        fails.append(dict(info, claim="the sampled mean of a linear emissivity is an unbiased estimate of its area-mean "
                                      "(= value at the centroid), 5 sigma", got=val, want=want, sigma=sd))
    if abs(val - float(np.mean(fv))) > 1e-12 * (1 + abs(val)):
        fails.append(dict(info, claim="returned value is the mean of the sampled values", got=val, mean=float(np.mean(fv))))
    c = dyadic(rng, -8, 8, 4)
    cv = float(v.emissivity_from_function(lambda x, y, z: c, rng.choice([1, 3, 10])))
    if abs(cv - c) > 1e-14 * abs(c):
        fails.append(dict(info, claim="a constant emissivity is reproduced exactly", constant=c, got=cv))
    return fails


def exact_poly_mean(pts, kind, co):
    """exact area-mean (Fraction) over the polygon of  co[0] + co[1]*r  ('r'),  co[0] + co[1]*z  ('z')  or
    co[0] + co[1]*r*z  ('rz'), by the signed fan from vertex 0 and the triangle moment formulas"""
    P = [(frac(x), frac(y)) for x, y in pts]
    sa = sm = F(0)
    for i in range(1, len(P) - 1):
        a, b, c = P[0], P[i], P[i + 1]
        t = _orient(a, b, c)           # 2 * signed area
        sx, sy = a[0] + b[0] + c[0], a[1] + b[1] + c[1]
        if kind == "r":
            m = sx / 3
        elif kind == "z":
            m = sy / 3
        else:                           # mean of x*y over a triangle = (sx*sy + sum x_i*y_i) / 12
            m = (sx * sy + a[0] * a[1] + b[0] * b[1] + c[0] * c[1]) / 12
        sa += t
        sm += t * m
    return frac(co[0]) + frac(co[1]) * sm / sa


def search_expectation(impl, pts, rng, grid_samples, calls):
    """'unbiased' as a statement about the EXPECTATION for this grid_samples: the mean over many independent
    calls of emissivity_from_function (one raysect seed, then consecutive calls) against the exact area-mean of a
    non-constant polynomial, 5.5 sigma of the empirical standard error; and the frequencies with which the
    triangles are chosen over all calls against their area shares (6 sigma + 3)"""
    try:
        v, g = impl.geom(pts)
    except ImplError as e:
        return [e.args[0]]
    stored = g["stored"]
    tris = impl.triangles(stored)
    kind = rng.choice(["r", "z", "rz"])
    co = (dyadic(rng, -2, 2, 2), rng.choice([-2.0, -1.0, -0.5, 0.5, 1.0, 2.0]))
    want = float(exact_poly_mean(pts, kind, co))
    rseed = rng.randint(1, 2 ** 62)
    info = {"polygon": pts, "grid_samples": grid_samples, "calls": calls, "raysect_seed": rseed,
            "function": {"r": "%r + %r*r", "z": "%r + %r*z", "rz": "%r + %r*r*z"}[kind] % co,
            "how": "seed(raysect_seed) once, then `calls` consecutive voxel.emissivity_from_function(f, grid_samples)"}
    impl.crumb(dict(info, call="emissivity_from_function, repeated"))
    xs, zs = [], []
    c0, c1 = co
    if kind == "r":
        def f(x, y, z):
            xs.append(x); zs.append(z)
            return c0 + c1 * x
    elif kind == "z":
        def f(x, y, z):
            xs.append(x); zs.append(z)
            return c0 + c1 * z
    else:
        def f(x, y, z):
            xs.append(x); zs.append(z)
            return c0 + c1 * x * z
    impl.seed(rseed)
    vals = np.array([v.emissivity_from_function(f, grid_samples) for _ in range(calls)])
    fails = []
    if len(xs) != calls * grid_samples:
        return [dict(info, claim="one evaluation of the function per sample", evaluations=len(xs))]
    mean, se = float(vals.mean()), float(vals.std(ddof=1)) / math.sqrt(calls)
    if abs(mean - want) > 5.5 * se + 1e-9 * (1 + abs(want)):
        fails.append(dict(info, claim="the expectation of the estimate is the exact area-mean for every grid_samples "
                                      "(mean over independent calls, 5.5 sigma)", mean_over_calls=mean, exact_area_mean=want,
                          standard_error=se, deviation_in_sigma=(abs(mean - want) / se if se > 0 else float("inf"))))
    # which triangle each sample fell in (vectorised barycentric test)
    X, Z = np.array(xs), np.array(zs)
    inside = []
    for (a, b, c) in tris:
        A, B, C = stored[a], stored[b], stored[c]
        d = (B[0] - A[0]) * (C[1] - A[1]) - (B[1] - A[1]) * (C[0] - A[0])
        if d == 0:
            inside.append(np.zeros(len(X), dtype=bool))
            continue
        l1 = ((B[0] - X) * (C[1] - Z) - (B[1] - Z) * (C[0] - X)) / d
        l2 = ((C[0] - X) * (A[1] - Z) - (C[1] - Z) * (A[0] - X)) / d
        inside.append(np.minimum(np.minimum(l1, l2), 1 - l1 - l2) >= -1e-9)
    inside = np.array(inside)
    unique = inside.sum(axis=0) == 1
    if (inside.sum(axis=0) == 0).any():
        fails.append(dict(info, claim="every sample point lies inside the cross-section",
                          outside=int((inside.sum(axis=0) == 0).sum())))
    n_in = int(unique.sum())
    area = exact_reference(pts)[0]
    shares = [float(abs(_orient(*[tuple(map(frac, stored[i])) for i in t])) / 2 / area) for t in tris]
    counts = [int((inside[j] & unique).sum()) for j in range(len(tris))]
    for j, cnt in enumerate(counts):
        sd = math.sqrt(n_in * shares[j] * (1 - shares[j]))
        if abs(cnt - n_in * shares[j]) > 6 * sd + 3:
            fails.append(dict(info, claim="each sample's triangle is chosen with probability area_j / area for every "
                                          "grid_samples (frequencies over independent calls, 6 sigma)", triangle=j, hits=cnt,
                              expected=n_in * shares[j], counts=counts, area_shares=shares))
            break
    return fails


def report(v):
    """(stored, area, centroid or exception name, volume) of a live voxel"""
    try:
        c = v.cross_section_centroid
        c = (float(c.x), float(c.y))
    except ZeroDivisionError:
        c = "ZeroDivisionError"
    return ([(float(p.x), float(p.y)) for p in v.vertices], float(v.cross_sectional_area), c, float(v.volume))


def search_forms_and_histories(impl, pts, rng):
    """one polygon: every accepted argument form gives bit-identical results; the voxel is unaffected by later
    changes of the caller's array / of the returned vertex list, by material / parent changes, by emissivity calls
    (incl. grid_samples 0 and -1 in between) and repeated reads; a re-seeded call repeats bit for bit and equals a
    fresh object"""
    from raysect.core import Point2D, World
    from raysect.optical.material import UnityVolumeEmitter
    from raysect.core.math.function.float import Constant3D
    fails = []
    impl.crumb({"call": "AxisymmetricVoxel built from several argument forms, then a history of reads/mutations",
                "polygon": pts})
    v = impl.Voxel(pts)
    r0 = report(v)
    if r0[2] == "ZeroDivisionError" and exact_reference(pts)[0] != 0:
        return [{"claim": "a voxel of non-zero area reports a centroid (the implementation raised ZeroDivisionError)",
                 "polygon": pts, "exact_area": float(exact_reference(pts)[0])}]
    arr = np.array(pts, dtype=np.float64)
    ro = arr.copy()
    ro.setflags(write=False)
    forms = {"list of lists": [list(q) for q in pts], "tuple of tuples": tuple(tuple(q) for q in pts),
             "float64 array": arr.copy(), "Fortran-order array": np.asfortranarray(arr),
             "non-contiguous view": np.array([[q[0], 9.0, q[1]] for q in pts])[:, ::2], "read-only array": ro,
             "list of Point2D": [Point2D(*q) for q in pts],
             "numpy scalars": [(np.float64(a), np.float64(b)) for a, b in pts]}
    if all(abs(a) < 1e30 and abs(b) < 1e30 and float(np.float32(a)) == a and float(np.float32(b)) == b for a, b in pts):
        forms["float32 array"] = np.array(pts, dtype=np.float32)
    if all(float(a).is_integer() and float(b).is_integer() and abs(a) < 2 ** 53 and abs(b) < 2 ** 53 for a, b in pts):
        forms["int64 array"] = np.array(pts, dtype=np.int64)
        forms["list of int tuples"] = [(int(a), int(b)) for a, b in pts]
    for name, form in forms.items():
        try:
            r = report(impl.Voxel(form))
        except (TypeError, ValueError, RuntimeError) as e:
            fails.append({"claim": "vertex list given as %s is accepted like a list of tuples (raised %s)"
                                   % (name, type(e).__name__), "polygon": pts})
            continue
        if r != r0:
            fails.append({"claim": "vertex list given as %s gives the same area, centroid and volume" % name,
                          "polygon": pts, "got": r[1:], "want": r0[1:]})
    for name, form, exc in (("generator", (q for q in pts), TypeError), ("Nx3 rows", [(a, b, 0.0) for a, b in pts], TypeError)):
        try:
            impl.Voxel(form)
            fails.append({"claim": "vertex list given as %s is rejected with %s" % (name, exc.__name__), "polygon": pts})
        except exc:
            pass
    # the voxel owns its data
    a2 = arr.copy()
    v2 = impl.Voxel(a2)
    a2[:] = 0.0
    vl = v2.vertices
    vl.reverse()
    vl.pop()
    if report(v2) != r0:
        fails.append({"claim": "a voxel is unaffected by later changes to the caller's array / returned vertex list",
                      "polygon": pts, "got": report(v2)[1:], "want": r0[1:]})
    # history on one live object
    ntri = len(impl.triangles(r0[0]))
    rseed = rng.randint(1, 2 ** 62)
    steps = []

    def f(x, y, z):
        return 1.0 + x - 0.5 * z

    def emis(vox, n=None):
        impl.seed(rseed)
        return float(vox.emissivity_from_function(f, n)) if n is not None else float(vox.emissivity_from_function(f))
    e1 = emis(v, 5)
    steps.append("emissivity n=5")
    world = World()
    for what in ("material", "parent", "n=0", "n=-1", "unparent", "np.int64 n", "default n", "float function"):
        if what == "material":
            v.material = UnityVolumeEmitter()
        elif what == "parent":
            v.parent = world
        elif what == "unparent":
            v.parent = None
        elif what == "n=0":
            try:
                emis(v, 0)
                fails.append({"claim": "grid_samples = 0 raises ZeroDivisionError (recorded behaviour)", "polygon": pts})
            except ZeroDivisionError:
                pass
        elif what == "n=-1":
            emis(v, -1)         # recorded behaviour: no samples, returns -0.0; must not disturb the object
        elif what == "np.int64 n":
            if emis(v, np.int64(5)) != e1:
                fails.append({"claim": "grid_samples given as numpy integer behaves like the Python int", "polygon": pts})
        elif what == "default n":
            if emis(v) != emis(v, DEFAULT_SAMPLES):
                fails.append({"claim": "default grid_samples is the one in the signature (%d)" % DEFAULT_SAMPLES, "polygon": pts,
                              "raysect_seed": rseed})
        else:
            for const in (2.5, Constant3D(2.5), lambda x, y, z: 2.5):
                got = float(v.emissivity_from_function(const, 3))
                if abs(got - 2.5) > 1e-15:
                    fails.append({"claim": "a constant emissivity given as %s is reproduced" % type(const).__name__,
                                  "polygon": pts, "got": got})
        steps.append(what)
        if report(v) != r0:
            fails.append({"claim": "area, centroid and volume of a live voxel do not change after: " + ", ".join(steps),
                          "polygon": pts, "got": report(v)[1:], "want": r0[1:]})
            break
        e2 = emis(v, 5)
        if e2 != e1 or e2 != emis(impl.Voxel(pts), 5):
            fails.append({"claim": "a re-seeded emissivity call on a used voxel repeats bit for bit and equals a fresh voxel, "
                                   "after: " + ", ".join(steps), "polygon": pts, "raysect_seed": rseed, "first": e1, "again": e2})
            break
    return fails


def search_scale(impl, pts, k):
    """scaling all coordinates by 2^k is exact in binary floating point: area * 4^k, centroid * 2^k, volume * 8^k"""
    _, g = impl.geom(pts)
    sc = [(math.ldexp(x, k), math.ldexp(y, k)) for x, y in pts]
    _, h = impl.geom(sc)
    want = {"area": math.ldexp(g["area"], 2 * k), "cx": math.ldexp(g["cx"], k), "cy": math.ldexp(g["cy"], k),
            "volume": math.ldexp(g["volume"], 3 * k)}
    for name, w in want.items():
        if h[name] != w:
            return [{"claim": "%s is exactly covariant under scaling the polygon by a power of two" % name, "polygon": pts,
                     "scale_exponent": k, "got": h[name], "want": w}]
    return []


def search_grid_history(impl, gp, rng):
    """one grid: container forms, order, multiplicity, set_active / parent histories, emissivities_from_function"""
    fails = []
    impl.crumb({"call": "ToroidalVoxelGrid(polygons): forms, order, histories, emissivities_from_function", "polygons": gp})
    g = impl.Grid(gp)
    vols0 = [float(vx.volume) for vx in g]
    t0 = float(g.total_volume)
    info = {"polygons": gp}
    if not (len(g) == g.count == len(gp) == len(list(g))) or any(g[i] is not vx for i, vx in enumerate(g)):
        fails.append(dict(info, claim="len / count / indexing / iteration of a grid agree"))
    forms = {"tuple of tuples": tuple(tuple(tuple(q) for q in p) for p in gp)}
    if gp and len({len(p) for p in gp}) == 1:
        forms["3-D float array"] = np.array(gp, dtype=np.float64)
    for name, form in forms.items():
        if float(impl.Grid(form).total_volume) != t0:
            fails.append(dict(info, claim="grid given as %s has the same total volume" % name))
    perm = list(range(len(gp)))
    rng.shuffle(perm)
    gpm = impl.Grid([gp[i] for i in perm])
    if [float(vx.volume) for vx in gpm] != [vols0[i] for i in perm] or \
            abs(float(gpm.total_volume) - t0) > 1e-12 * (abs(t0) + 1e-300):
        fails.append(dict(info, claim="total volume does not depend on the order of the cells", permutation=perm))
    if gp:
        g2 = impl.Grid(gp + gp)
        if abs(float(g2.total_volume) - 2 * t0) > 1e-12 * abs(t0):
            fails.append(dict(info, claim="listing every cell twice doubles the total volume"))
    steps = []
    ops = ["set_active(0)", "set_active(last)", "set_active('all')", "set_active(count)", "unparent_all_voxels",
           "parent_all_voxels", "emissivities_from_function", "set_active(0)", "set_active('all')"]
    rseed = rng.randint(1, 2 ** 62)

    def f(x, y, z):
        return 0.5 + x + 0.25 * z
    for op in ops:
        if not gp and op.startswith("set_active(") and op != "set_active('all')":
            continue
        if op == "set_active(0)":
            g.set_active(0)
        elif op == "set_active(last)":
            g.set_active(len(gp) - 1)
        elif op == "set_active('all')":
            g.set_active("all")
        elif op == "set_active(count)":
            try:
                g.set_active(len(gp))
                fails.append(dict(info, claim="set_active(count) raises IndexError"))
            except IndexError:
                pass
        elif op == "unparent_all_voxels":
            g.unparent_all_voxels()
        elif op == "parent_all_voxels":
            g.parent_all_voxels()
        else:
            impl.seed(rseed)
            e = [float(x) for x in g.emissivities_from_function(f, 4)]
            impl.seed(rseed)
            fresh = [float(impl.Voxel(p).emissivity_from_function(f, 4)) for p in gp]
            impl.seed(rseed)
            e10 = [float(x) for x in g.emissivities_from_function(f)]
            impl.seed(rseed)
            e10x = [float(x) for x in g.emissivities_from_function(f, DEFAULT_SAMPLES)]
            if e != fresh:
                fails.append(dict(info, claim="emissivities_from_function equals the per-voxel emissivity_from_function calls "
                                              "in order (same seed)", raysect_seed=rseed, got=e, want=fresh))
            if e10 != e10x:
                fails.append(dict(info, claim="emissivities_from_function default grid_samples is 10", raysect_seed=rseed))
        steps.append(op)
        if [float(vx.volume) for vx in g] != vols0 or float(g.total_volume) != t0:
            fails.append(dict(info, claim="voxel volumes and total volume of a live grid do not change after: "
                                          + ", ".join(steps), total=float(g.total_volume), want=t0))
            break
    return fails


def search_grid(impl, polys):
    impl.crumb({"call": "ToroidalVoxelGrid(polygons).total_volume", "polygons": polys})
    try:
        g = impl.Grid(polys)
        vols = [vx.volume for vx in g]
        tot = g.total_volume
    except (ZeroDivisionError, ValueError, TypeError, RuntimeError, IndexError) as e:
        return None, [{"claim": "a grid of simple polygons reports its total volume (the implementation raised %s)"
                                % type(e).__name__, "polygons": polys, "exception": repr(e)}]
    fails = []
    if not all_finite([float(x) for x in vols], float(tot)):
        return None, [{"claim": "voxel volumes and the total volume of a grid are finite numbers", "polygons": polys,
                       "total": float(tot)}]
    if len(vols) != len(polys):
        fails.append({"claim": "grid has one voxel per polygon", "polygons": len(polys), "voxels": len(vols)})
    if abs(tot - math.fsum(vols)) > 1e-12 * (math.fsum(abs(x) for x in vols) + 1e-300) and polys:
        fails.append({"claim": "total_volume is the sum of the voxels' volumes", "total": tot, "sum": math.fsum(vols),
                      "polygons": polys})
    for p, vol in zip(polys, vols):
        area, cx, _ = exact_reference(p)
        want = 2 * frac(math.pi) * cx * area
        if abs(frac(vol) - want) > tolerances(p)[3]:
            fails.append({"claim": "voxel volume in a grid = 2 pi * centroid radius * area", "polygon": p, "got": vol,
                          "want": float(want)})
            break
    return float(tot), fails


# ---------------------------------------------------------------------------------------------
def all_finite(*xs):
    def flat(x):
        if isinstance(x, (list, tuple)):
            for y in x:
                yield from flat(y)
        else:
            yield x
    return all(math.isfinite(v) for v in flat(xs))


IMPL_EXC = (ZeroDivisionError, ValueError, TypeError, RuntimeError, IndexError, AttributeError, OverflowError)


def guarded(fn, what, replay, *args):
    """run one search on one case; an exception of the implementation on a valid input is a recorded outcome (the
    model says: a value), returned as a failure with the input as replay -- the run continues"""
    try:
        return fn(*args)
    except ImplError as e:
        return [e.args[0]]
    except IMPL_EXC as e:
        return [dict(replay, claim="%s returns values on a valid input (the implementation raised %s: %s)"
                                   % (what, type(e).__name__, str(e)[:120]))]


def load_extra_polygons(ctx):
    out = []
    files = sorted(glob.glob(os.path.join(VERIF, "corpus", "C17", "*.json")))
    if ctx.replay:
        files.insert(0, ctx.replay)
    for f in files:
        try:
            obj = json.load(open(f))
        except Exception as e:     # a broken corpus file is a harness fault, not a finding
            ctx.broken.append("cannot read %s: %s" % (f, e))
            continue
        rep = obj.get("replay", obj)
        for key in ("polygon",):
            if isinstance(rep, dict) and key in rep:
                out.append([(float(x), float(y)) for x, y in rep[key]])
        if isinstance(rep, dict) and isinstance(rep.get("case"), dict) and "polygon" in rep["case"]:
            out.append([(float(x), float(y)) for x, y in rep["case"]["polygon"]])
    return out


def run(ctx):
    ctx.trusted += [
        "Coq 8.16.1 kernel, vm_compute (no native_compute)",
        "harness/c17.py: polygon generator and exact simplicity test, Q literal printer, re-drawing of raysect's uniform() "
        "stream after re-seeding, comparators in Model/C17_Check.v",
        "raysect: triangulate2d (its output enters the model as data and is checked to be an ear clipping with clockwise "
        "triangles whose areas add up to the area), winding2d / find_index (modelled from their source), uniform(), "
        "point_triangle, libm sqrt (accepted when in [0,1] and square within 2^-50)",
        "IEEE double rounding under the stated forward-error budgets (32 x the first-order bound of the summation)",
    ]
    ctx.assumptions += [
        "polygons are simple with no three consecutive collinear vertices and area >= 2^-12 (generator rejects others)",
        "the identity 'signed fan / ear-clipping sum = enclosed area and first moments of a simple polygon' is classical "
        "geometry, not proved in Coq (theorem C17_true_area_and_centroid_partial proves the algebraic part)",
        "unbiasedness: measure-theoretic steps (uniform u => P(triangle j) = length of its interval / area; point_triangle "
        "uniform on the triangle) are not formalised (theorem C17_emissivity_unbiased_partial proves the rest)",
    ]
    ctx.rebuild()
    ctx.proofs("Properties.C17", THEOREMS, extra_modules=("Model.C17_Check", "Proofs.C17_Check"))

    import cherab
    from common import REPO, coqc
    assert list(cherab.__path__) == [REPO + "/cherab"], cherab.__path__
    # ---- translator: constants of the current source -> coq/Gen/C17/Consts.v with kernel-checked tie lemmas --------
    global PI, DEFAULT_SAMPLES
    consts = translate_constants(REPO)
    PI, DEFAULT_SAMPLES = consts["PI"], consts["default_grid_samples"][0]
    ctxt = ("Require Import Cherab.Common.Qx Cherab.Model.C17_Voxels.\nOpen Scope Q_scope.\n"
            "(* generated from cherab/tools/inversions/voxels.pyx: PI = %s; default grid_samples %s; primitive_type '%s' *)\n"
            "Definition src_PI : Q := %s.\nDefinition src_default_samples : list Z := %s.\n"
            "Definition src_default_primitive_type : Z := %s.\n"
            "(* the constant lies in (3.1415926535897931, 3.1415926535897933), which contains pi and exactly one double; all entry "
            "points share one positive default; default type is 'csg' *)\n"
            "Lemma src_PI_ok : Qlt_b (31415926535897931 # 10000000000000000) src_PI && Qlt_b src_PI (31415926535897933 # 10000000000000000) = true.\n"
            "Proof. vm_compute. reflexivity. Qed.\n"
            "Lemma src_defaults_ok : forallb (fun d => (d =? hd 0%%Z src_default_samples)%%Z && (1 <=? d)%%Z) src_default_samples = true.\n"
            "Proof. vm_compute. reflexivity. Qed.\n"
            "Lemma src_default_type_constructs : forall rows l, construct rows src_default_primitive_type = inr l -> "
            "construct rows 0 = inr l.\nProof. intros rows l H. exact H. Qed.\n"
            % (consts["PI_text"], consts["default_grid_samples"], consts["default_primitive_type"], qlit(PI),
               "[" + "; ".join(zlit(d) for d in consts["default_grid_samples"]) + "]%Z",
               {"csg": "0%Z", "mesh": "1%Z"}.get(consts["default_primitive_type"], "2%Z")))
    okc, outc = coqc(ctx.write_gen("Consts.v", ctxt), timeout=300)
    ctx.obligation("tie: constants regenerated from voxels.pyx (PI, default grid_samples, default primitive_type)", "tie",
                   okc, outc)
    impl = Impl()
    impl.crumb = ctx.crumb
    ctx.log("proofs checked")
    rng = ctx.rng
    quick = ctx.quick

    # ---- polygons -------------------------------------------------------------------------------
    classes = ["triangle", "rectangle", "quad", "convex", "star", "quad", "axis", "star", "template", "bigstar"]
    n_base = 132 if quick else 2400
    n_allvar = 8 if quick else 110
    n_emis = 72 if quick else 1200
    n_stat = 10 if quick else 150
    n_grids = 8 if quick else 60
    polys = []      # (class, exact, pts)
    for p in load_extra_polygons(ctx):
        polys.append(("corpus", False, p))
    for i in range(n_base):
        cls = classes[i % len(classes)]
        exact = (i % 4 != 3)
        polys.append((cls, exact, gen_polygon(rng, cls, exact)))
    # the same shapes at very small / very large magnitudes (power-of-two scaling is exact in binary floating point)
    scale_exps = [-300, -120, -40, -27, -20, -17, -10, -8, 8, 10, 17, 40, 120, 300]
    scaled_from = {}
    base_exact = [p for p in polys if p[1] and p[0] not in ("corpus", "bigstar")]
    for i in range(14 if quick else 168):
        cls0, _, base = base_exact[(i * 7) % len(base_exact)]
        k = scale_exps[i % len(scale_exps)]
        sc = [(math.ldexp(x, k), math.ldexp(y, k)) for x, y in base]
        polys.append(("scaled", True, sc))
        scaled_from[id(sc)] = (base, k)
    # physical scales: cells of size 1e-6 .. 1e3 m at major radius 1e-3 .. 1e3 m (decimal, full doubles)
    phys_sizes = [1e-6, 1e-5, 5e-5, 1e-4, 1e-3, 1e-2, 1e-1, 1.0, 10.0, 100.0, 1e3]
    phys_radii = [1e-3, 1e-2, 0.1, 1.0, 10.0, 100.0, 1e3]
    phys_hist = {}
    for i in range(11 if quick else 220):
        _, _, base = base_exact[(i * 11 + 3) % len(base_exact)]
        sz = phys_sizes[i % len(phys_sizes)]
        cand = [R for R in phys_radii if 1e-5 <= sz / R <= 10.0]
        R = cand[(i // len(phys_sizes) + i) % len(cand)]
        x0, y0 = min(x for x, _ in base), min(y for _, y in base)
        ext = max(max(x for x, _ in base) - x0, max(y for _, y in base) - y0)
        z0 = [0.0, R, -R][i % 3]
        ph = [(R + sz * (x - x0) / ext, z0 + sz * (y - y0) / ext) for x, y in base]
        if not is_simple(ph, allow_collinear=True):
            continue
        polys.append(("physical", False, ph))
        phys_hist["size %g at R %g" % (sz, R)] = phys_hist.get("size %g at R %g" % (sz, R), 0) + 1

    cases, meta = [], []
    dist = {"class": {}, "n_vertices": {}, "orientation_given": {"clockwise": 0, "anticlockwise": 0},
            "dyadic": 0, "full_double": 0, "touching_axis": 0, "concave": 0, "collinear_vertices": 0,
            "four_vertex_non_rectangles": 0, "pass_rectangle_helper_but_not_rectangles(some rotation)": 0}

    impl_errors = []

    def add_geom(cls, exact, pts, tag):
        try:
            _, g = impl.geom(pts)
        except ImplError as e:
            impl_errors.append(e.args[0])
            return None
        cases.append("check_geom %s %s %s %s %s %s %s" % (ptlist(pts), ptlist(g["stored"]), qlit(PI), qlit(g["area"]),
                                                          qlit(g["cx"]), qlit(g["cy"]), qlit(g["volume"])))
        meta.append({"kind": "geometry", "class": cls, "tag": tag, "polygon": pts, "impl": g})
        if len(pts) == 4 and g.get("rect_path") is not None:
            cases.append("check_rect_path %s %s" % (ptlist(g["stored"]), "true" if g["rect_path"] else "false"))
            meta.append({"kind": "rect_path", "polygon": pts, "stored": g["stored"], "impl_rect_path": g["rect_path"]})
        return g

    for cls, exact, pts in polys:
        g = add_geom(cls, exact, pts, "base")
        if g is None:
            continue
        dist["class"][cls] = dist["class"].get(cls, 0) + 1
        dist["n_vertices"][len(pts)] = dist["n_vertices"].get(len(pts), 0) + 1
        dist["orientation_given"]["clockwise" if g["stored"] == pts else "anticlockwise"] += 1
        dist["dyadic" if exact else "full_double"] += 1
        dist["touching_axis"] += int(min(x for x, _ in pts) == 0)
        n = len(pts)
        P = [tuple(map(frac, q)) for q in g["stored"]]
        dist["concave"] += int(any(_orient(P[i - 1], P[i], P[(i + 1) % n]) > 0 for i in range(n)))
        dist["collinear_vertices"] += int(any(_orient(P[i - 1], P[i], P[(i + 1) % n]) == 0 for i in range(n)))
        if n == 4:
            rl = [rectangle_like(g["stored"][k:] + g["stored"][:k]) for k in range(4)]
            dist["four_vertex_non_rectangles"] += int(not rl[0][1])
            dist["pass_rectangle_helper_but_not_rectangles(some rotation)"] += int(any(a and not b for a, b in rl))
    # every rotation and both orientations of a few polygons, through Coq as well
    quads = [p for p in polys if p[0] == "quad"]
    allvar = quads[:n_allvar // 2] + [p for p in polys if p[0] in ("axis", "star", "template", "convex")][:n_allvar - n_allvar // 2]
    for cls, exact, pts in allvar:
        for var in variants(pts)[1:]:
            add_geom(cls, exact, var, "variant")
    # 'mesh' primitives report the same numbers
    for cls, exact, pts in polys[:6]:
        try:
            _, g = impl.geom(pts, primitive_type="mesh")
        except ImplError as e:
            impl_errors.append(e.args[0])
            continue
        cases.append("check_geom %s %s %s %s %s %s %s" % (ptlist(pts), ptlist(g["stored"]), qlit(PI), qlit(g["area"]),
                                                          qlit(g["cx"]), qlit(g["cy"]), qlit(g["volume"])))
        meta.append({"kind": "geometry", "class": cls, "tag": "mesh", "polygon": pts, "impl": g})

    # ---- constructor errors ----------------------------------------------------------------------
    n_err = 0
    for bad in ([], [(1.0, 0.0)], [(1.0, 0.0), (2.0, 1.0)], [(-1.0, 0.0), (2.0, 1.0)],
                [(1.0, 0.0), (2.0, 0.0), (-0.5, 1.0)], [(-1.0, 0.0), (2.0, 0.0), (2.0, 1.0), (1.0, 1.0)],
                [(0.0, 0.0), (2.0, 0.0), (0.0, 1.0)], [(-0.0, 0.0), (2.0, 0.0), (0.0, 1.0)],
                [(-5e-324, 0.0), (2.0, 0.0), (0.0, 1.0)], [(5e-324, 0.0), (2.0, 0.0), (0.0, 1.0)],
                [(2.0, 0.0), (0.0, 1.0), (-2.0 ** -1022, 0.5)]):
        code = impl.err_code(bad)
        cases.append("check_err %s %s" % (ptlist(bad), zlit(code)))
        meta.append({"kind": "error", "polygon": bad, "impl_code": code})
        n_err += 1

    # ---- zero-area vertex lists: area 0, centroid raises ZeroDivisionError, volume 0 -------------------------
    n_degenerate = 0
    for i in range(6 if quick else 60):
        a = (dyadic(rng, 0, 8, 4), dyadic(rng, -4, 4, 4))
        d = (dyadic(rng, 0.0625, 2, 4), dyadic(rng, -2, 2, 4))
        if i % 2 == 0:
            b = (a[0] + d[0], a[1] + d[1])
            deg = [[a, a, b], [a, b, b], [b, a, a], [a, b, a]][(i // 2) % 4]
        else:
            m1, m2 = rng.choice([(1, 2), (1, 3), (2, 3), (2, 1)])
            deg = [a, (a[0] + m1 * d[0], a[1] + m1 * d[1]), (a[0] + m2 * d[0], a[1] + m2 * d[1])]
        deg = [(float(x), float(y)) for x, y in deg]
        impl.crumb({"call": "AxisymmetricVoxel(zero-area polygon): area, centroid, volume", "polygon": deg})
        try:
            vdeg = impl.Voxel(deg)
            rp = report(vdeg)
        except (RuntimeError, ValueError, TypeError) as e:
            impl_errors.append({"claim": "a zero-area triangle is accepted and reports area 0 and volume 0 (raised %s)"
                                         % type(e).__name__, "polygon": deg})
            continue
        cases.append("check_degenerate %s %s %s %s %s" % (ptlist(deg), ptlist(rp[0]), qlit(rp[1]), qlit(rp[3]),
                                                          "true" if rp[2] == "ZeroDivisionError" else "false"))
        meta.append({"kind": "degenerate", "polygon": deg, "impl": rp})
        n_degenerate += 1

    # ---- constructor with raw rows of any length and a primitive_type ---------------------------------------
    def rows_lit(rows):
        return "[" + "; ".join("[" + "; ".join(qlit(x) for x in r) + "]" for r in rows) + "]"
    n_construct = 0
    valid_small = [p[2] for p in polys if p[1] and p[0] not in ("scaled", "bigstar")]
    for i in range(12 if quick else 120):
        rows = [list(q) for q in valid_small[rng.randrange(len(valid_small))]]
        for _ in range(rng.choice([0, 1, 1, 2])):
            k = rng.randrange(len(rows))
            how = rng.choice(["neg", "three", "one", "empty"])
            if how == "neg" and rows[k]:
                rows[k] = [-abs(rows[k][0]) - 0.5] + rows[k][1:]
            elif how == "three":
                rows[k] = rows[k] + [0.0]
            elif how == "one":
                rows[k] = rows[k][:1]
            else:
                rows[k] = []
        if rng.random() < 0.15:
            rows = rows[:rng.choice([0, 1, 2])]
        ptype = rng.choice(["csg", "csg", "mesh", "foo", "CSG"])
        impl.crumb({"call": "AxisymmetricVoxel(rows, primitive_type)", "rows": rows, "primitive_type": ptype})
        stored = []
        try:
            vv = impl.Voxel(rows, primitive_type=ptype)
            code = 0
            stored = [(float(q.x), float(q.y)) for q in vv.vertices]
        except TypeError:
            code = 1
        except ValueError:
            code = 2
        cases.append("check_construct %s %s %s %s" % (rows_lit(rows), {"csg": "0", "mesh": "1"}.get(ptype, "2"), zlit(code),
                                                      ptlist(stored)))
        meta.append({"kind": "construct", "rows": rows, "primitive_type": ptype, "impl_code": code})
        n_construct += 1
    # ---- grid_samples = 0 / negative; __getitem__ / set_active argument policy ------------------------------------
    n_policy = 0
    for pts in valid_small[:2]:
        try:
            vv, g0 = impl.geom(pts)
        except ImplError as e:
            impl_errors.append(e.args[0])
            continue
        trs = impl.triangles(g0["stored"])
        for n in (0, -1, -7):
            try:
                val, code = float(vv.emissivity_from_function(lambda x, y, z: 1.0, n)), 0
            except ZeroDivisionError:
                val, code = 0.0, 1
            cases.append("check_call_policy %s %s %s %s %s" % (ptlist(g0["stored"]), trilist(trs), zlit(n), zlit(code), qlit(val)))
            meta.append({"kind": "policy", "call": "emissivity_from_function", "polygon": pts, "grid_samples": n,
                         "impl_code": code, "value": val})
            n_policy += 1
    for count in (0, 1, 3):
        gobj = impl.Grid([valid_small[k] for k in range(count)])
        for it_lit, it in [("(ItInt (%d))" % i, i) for i in (-1, 0, count - 1, count, count + 5)] + \
                [("ItAll", "all"), ("ItOther", "x"), ("ItOther", None), ("ItOther", 1.5)]:
            for fn in ("getitem", "set_active"):
                try:
                    gobj[it] if fn == "getitem" else gobj.set_active(it)
                    code = 0
                except TypeError:
                    code = 1
                except IndexError:
                    code = 2
                except ValueError:
                    code = 3
                cases.append("check_%s %d %s %s" % (fn, count, it_lit, zlit(code)))
                meta.append({"kind": "policy", "call": fn, "count": count, "item": repr(it), "impl_code": code})
                n_policy += 1
    # ---- emissivities_from_function: the voxels in order on one stream of uniforms ------------------------------------
    n_emis_grid = 0
    for gi in range(3 if quick else 30):
        size = [1, 2, 4][gi % 3]
        gp = [valid_small[rng.randrange(len(valid_small))] for _ in range(size)]
        n = [1, 3, 5][(gi // 3) % 3] if not quick else [3, 1, 5][gi]
        coeffs = (dyadic(rng, -2, 2, 3), dyadic(rng, -2, 2, 3), dyadic(rng, -2, 2, 3))
        rseed = rng.randint(1, 2 ** 62)
        impl.crumb({"call": "ToroidalVoxelGrid(polygons).emissivities_from_function(c0 + c1 r + c2 z, grid_samples) after seed",
                    "polygons": gp, "grid_samples": n, "raysect_seed": rseed, "coeffs": coeffs})
        gobj = impl.Grid(gp)
        spts = []

        def frec(x, y, z, c=coeffs, out=spts):
            out.append((float(x), float(z)))
            return c[0] + c[1] * x + c[2] * z
        impl.seed(rseed)
        vals = [float(x) for x in gobj.emissivities_from_function(frec, n)]
        vox = []
        total_u = 0
        for vx in gobj:
            st = [(float(q.x), float(q.y)) for q in vx.vertices]
            trs = impl.triangles(st)
            vox.append((st, trs))
            total_u += n * (3 if len(trs) > 1 else 2)
        impl.seed(rseed)
        stream = [impl.uniform() for _ in range(total_u)]
        if not all_finite(vals, spts):
            impl_errors.append({"claim": "emissivities_from_function samples finite points and returns finite means",
                                "polygons": gp, "grid_samples": n, "raysect_seed": rseed, "values": vals})
            continue
        if len(spts) != n * size:
            impl_errors.append({"claim": "emissivities_from_function evaluates the function grid_samples times per voxel",
                                "polygons": gp, "grid_samples": n, "evaluations": len(spts)})
            continue
        cases.append("check_emissivities [%s] [%s] %d [%s] [%s] [%s] %s %s %s" % (
            "; ".join("(%s, %s)" % (ptlist(st), trilist(trs)) for st, trs in vox),
            "; ".join("(%s, %s)" % (qlit(u), qlit(math.sqrt(u))) for u in stream), n,
            "; ".join(qlit(u) for u in stream),
            "; ".join(ptlist(spts[k * n:(k + 1) * n]) for k in range(size)),
            "; ".join(qlit(x) for x in vals), qlit(coeffs[0]), qlit(coeffs[1]), qlit(coeffs[2])))
        meta.append({"kind": "emissivities", "polygons": gp, "grid_samples": n, "raysect_seed": rseed, "coeffs": coeffs,
                     "values": vals})
        n_emis_grid += 1

    # ---- emissivity: every sample point and the mean ---------------------------------------------------
    emis_pool = [p for p in polys if p[1]] or polys
    emis_pool = [p for p in emis_pool if p[0] == "scaled"][:(4 if quick else 60)] + [p for p in emis_pool if p[0] != "scaled"]
    tri_hist = {}
    n_draws = 0
    for i in range(n_emis):
        cls, exact, pts = emis_pool[i % len(emis_pool)]
        try:
            v, g = impl.geom(pts)
        except ImplError as e:
            impl_errors.append(e.args[0])
            continue
        tris = impl.triangles(g["stored"])
        tri_hist[len(tris)] = tri_hist.get(len(tris), 0) + 1
        n = rng.choice([1, 2, 5, 10, 10])
        coeffs = (dyadic(rng, -2, 2, 3), dyadic(rng, -2, 2, 3), dyadic(rng, -2, 2, 3))
        rseed = rng.randint(1, 2 ** 62)
        try:
            val, spts, draws = impl.emissivity(v, len(tris), rseed, n, coeffs)
        except IMPL_EXC as e:
            impl_errors.append({"claim": "emissivity_from_function returns a value on a valid voxel (the implementation raised %s)"
                                         % type(e).__name__, "polygon": pts, "raysect_seed": rseed, "grid_samples": n})
            continue
        if not all_finite(val, spts):
            impl_errors.append({"claim": "emissivity_from_function samples finite points and returns a finite mean",
                                "polygon": pts, "raysect_seed": rseed, "grid_samples": n, "coeffs": coeffs, "value": val,
                                "points": spts[:5]})
            continue
        n_draws += len(draws)
        tbl = "[" + "; ".join("(%s, %s)" % (qlit(d[1]), qlit(math.sqrt(d[1]))) for d in draws) + "]"
        dr = "[" + "; ".join("{| u_sel := %s; u_one := %s; u_two := %s |}" % (qlit(d[0]), qlit(d[1]), qlit(d[2]))
                             for d in draws) + "]"
        cases.append("check_emissivity %s %s %s %s %s %s %s %s %s" % (
            ptlist(g["stored"]), trilist(tris), tbl, dr, ptlist(spts), qlit(coeffs[0]), qlit(coeffs[1]), qlit(coeffs[2]),
            qlit(val)))
        meta.append({"kind": "emissivity", "class": cls, "polygon": pts, "stored": g["stored"], "triangles": tris,
                     "raysect_seed": rseed, "grid_samples": n, "coeffs": coeffs, "value": val, "points": spts})

    # ---- grids ----------------------------------------------------------------------------------------------
    grid_sizes = []
    grid_fails = []
    exact_polys = [p[2] for p in polys if p[1] and p[0] != "scaled"]
    exact_quads = [p[2] for p in polys if p[1] and p[0] == "quad"]
    for gi, (cell, R, nn) in enumerate([(5e-5, 1.0, 5), (1e-6, 0.25, 3), (1e3, 1e3, 2)] + ([] if quick else [(1e-4, 2.0, 12), (1e-5, 0.5, 8)])):
        fine = [[(R + i * cell, j * cell), (R + (i + 1) * cell, j * cell), (R + (i + 1) * cell, (j + 1) * cell),
                 (R + i * cell, (j + 1) * cell)] for i in range(nn) for j in range(nn)]
        tot, gf = search_grid(impl, fine)
        grid_fails += gf
        grid_sizes.append("%dx%d cells of %g at R=%g" % (nn, nn, cell, R))
        if tot is None:
            continue
        want = math.pi * ((R + nn * cell) ** 2 - R ** 2) * nn * cell
        if abs(tot - want) > 1e-6 * want:
            grid_fails.append({"claim": "a fine rectilinear grid's total volume is the volume of the annulus it tiles",
                               "polygons": fine[:4], "cells": nn * nn, "cell_size": cell, "R": R, "got": tot, "want": want})
        cases.append("check_total %s [%s] %s" % (qlit(PI), "; ".join(ptlist(p) for p in fine), qlit(tot)))
        meta.append({"kind": "grid", "size": nn * nn, "polygons": fine, "total_volume": tot})
    for gi in range(n_grids):
        size = [0, 1, 2, 7, 25, 60, 3, 12][gi % 8] if quick else rng.choice([0, 1, 2, 5, 20, 100, 300])
        gp = []
        for _ in range(size):
            cell = exact_polys[rng.randrange(len(exact_polys))] if rng.random() < 0.6 or not exact_quads \
                else exact_quads[rng.randrange(len(exact_quads))]
            vs = variants(cell)
            gp.append(vs[rng.randrange(len(vs))])
        tot, gf = search_grid(impl, gp)
        grid_fails += gf
        grid_sizes.append(size)
        if tot is None:
            continue
        cases.append("check_total %s [%s] %s" % (qlit(PI), "; ".join(ptlist(p) for p in gp), qlit(tot)))
        meta.append({"kind": "grid", "size": size, "polygons": gp, "total_volume": tot})

    # ---- write case files and run them in Coq ------------------------------------------------------------------
    per_file = 24
    files = []
    for si in range(0, len(cases), per_file):
        sh = cases[si:si + per_file]
        txt = ("Require Import Cherab.Common.Qx Cherab.Model.C17_Voxels Cherab.Model.C17_Check.\n"
               "Open Scope Q_scope.\nDefinition results : list Z := [\n  " + ";\n  ".join(sh)
               + "].\nEval vm_compute in (codes_eq 1 results).\nEval vm_compute in (codes_eq 2 results).\n")
        files.append((ctx.write_gen("cases_%03d.v" % (si // per_file), txt), list(range(si, si + len(sh)))))
    ctx.log("implementation runs done, %d cases in %d files" % (len(cases), len(files)))
    res = coqc_many([f for f, _ in files], timeout=900)
    diff_cases, ambiguous = [], []
    for f, ids in files:
        ok, out = res[f]
        vals = parse_evals(out) if ok else []
        good = ok and len(vals) == 2
        failing = parse_zlist(vals[0]) if good else []
        amb = parse_zlist(vals[1]) if good else []
        ctx.obligation("correspondence %s (%d cases)" % (os.path.basename(f), len(ids)), "correspondence",
                       good and not failing, out if not good else "DIFF at local indices %s" % failing)
        if not good:
            ctx.broken.append("coqc failed on %s: %s" % (f, out[-500:]))
        diff_cases += [ids[i] for i in failing]
        ambiguous += [ids[i] for i in amb]
    kinds = {}
    for m in meta:
        kinds[m["kind"]] = kinds.get(m["kind"], 0) + 1
    ctx.log("correspondence: %s, %d disagree, %d ambiguous" % (kinds, len(diff_cases), len(ambiguous)))

    # ---- failing-input search on the implementation -----------------------------------------------------------
    search_fails = impl_errors[:3] + list(grid_fails)
    seeds = [meta[ci]["polygon"] for ci in diff_cases if "polygon" in meta[ci] and meta[ci]["kind"] != "error"]
    n_search_geom = 0
    allvar_set = {id(p[2]) for p in allvar}
    for pts in seeds[:10]:
        search_fails += guarded(search_geometry, "area / centroid / volume", {"polygon": pts}, impl, pts, True)
        n_search_geom += 1
    for k, (cls, exact, pts) in enumerate(polys):
        search_fails += guarded(search_geometry, "area / centroid / volume", {"polygon": pts}, impl, pts,
                                len(pts) == 4 or id(pts) in allvar_set or k % (5 if quick else 10) == 0)
        n_search_geom += 1
        if len(search_fails) > 20:
            break
    # scale covariance, argument forms, histories on live voxels and grids
    n_scale = n_forms = n_grid_hist = 0
    for cls, exact, pts in polys:
        if cls == "scaled" and len(search_fails) <= 20:
            base, k = scaled_from[id(pts)]
            search_fails += guarded(search_scale, "area / centroid / volume of a scaled polygon", {"polygon": base, "scale_exponent": k}, impl, base, k)
            n_scale += 1
    int_polys = []
    for cls, exact, pts in polys:
        if exact and cls in ("star", "template", "quad", "axis") and len(int_polys) < (3 if quick else 30):
            ip = [(x * 256.0, y * 256.0) for x, y in pts]
            if all(x.is_integer() and y.is_integer() and abs(x) < 2 ** 20 and abs(y) < 2 ** 20 for x, y in ip):
                int_polys.append(ip)
    forms_pool = int_polys + [p[2] for k, p in enumerate(polys) if k % (12 if quick else 6) == 0]
    for pts in forms_pool:
        if len(search_fails) > 20:
            break
        vs = variants(pts)
        pv = vs[rng.randrange(len(vs))]
        search_fails += guarded(search_forms_and_histories, "a voxel driven through argument forms and a history", {"polygon": pv}, impl, pv, rng)
        n_forms += 1
    for gi in range(5 if quick else 40):
        if len(search_fails) > 20:
            break
        size = [0, 1, 2, 6, 5][gi % 5]
        pool = exact_quads if (gi % 5 == 4 and exact_quads) else exact_polys
        gp = []
        for _ in range(size):
            vs = variants(pool[rng.randrange(len(pool))])
            gp.append(vs[rng.randrange(len(vs))])
        search_fails += guarded(search_grid_history, "a grid driven through forms, orders and a history", {"polygons": gp}, impl, gp, rng)
        n_grid_hist += 1
    stat_pool = seeds[:5] + [p[2] for p in polys if p[0] in ("star", "quad", "template", "axis", "convex", "triangle")][:n_stat]
    n_search_stat = 0
    for pts in stat_pool:
        search_fails += guarded(search_sampling, "emissivity_from_function", {"polygon": pts}, impl, pts, rng, 4000 if quick else 20000)
        n_search_stat += 1
        if len(search_fails) > 20:
            break
    # expectation for small grid_samples: many independent calls per (polygon, grid_samples)
    exp_pool = []
    for cls, exact, pts in polys:
        if cls in ("quad", "star", "template", "axis", "convex", "corpus") and len(pts) >= 4:
            P = [tuple(map(frac, q)) for q in pts]
            ars = {abs(_orient(P[0], P[i], P[i + 1])) for i in range(1, len(P) - 1)}
            if len(ars) > 1:
                exp_pool.append(pts)
    exp_pool = seeds[:3] + exp_pool[:(12 if quick else 90)]
    n_calls = 4000 if quick else 8000
    exp_counts = {}
    for k, pts in enumerate(exp_pool):
        vs = variants(pts)
        for gs in ([1, 3, 10], [2, 4, 10], [1, 5, 10])[k % 3] if quick else (1, 2, 3, 4, 5, 10):
            if len(search_fails) > 20:
                break
            pe = vs[rng.randrange(len(vs))]
            search_fails += guarded(search_expectation, "emissivity_from_function (repeated calls)", {"polygon": pe, "grid_samples": gs}, impl, pe, rng, gs, n_calls)
            exp_counts[gs] = exp_counts.get(gs, 0) + 1
    for m in meta:
        if m["kind"] == "error":
            want = 1 if len(m["polygon"]) < 3 else (2 if any(x < 0 for x, _ in m["polygon"]) else 0)
            if m["impl_code"] != want:
                search_fails.append({"claim": "constructor accepts polygons with >= 3 vertices and r >= 0 only",
                                     "polygon": m["polygon"], "got_code": m["impl_code"], "want_code": want})
    ctx.obligation("executable property on the implementation (%d polygons geometry, %d polygons sampling, %d grids)"
                   % (n_search_geom, n_search_stat, len(grid_sizes)), "search", not search_fails, str(search_fails[:3]))
    seen = set()
    for sf in search_fails:
        key = "c17:" + sf["claim"][:60]
        if key in seen:
            continue
        seen.add(key)
        ctx.violation(key, sf["claim"], sf, found=True)
    if diff_cases and not search_fails:
        for ci in diff_cases[:3]:
            m = meta[ci]
            ctx.violation("c17-diff:%s" % m["kind"],
                          "model and implementation differ for a %s case; the executable property found no failing input"
                          % m["kind"], {"case": m, "correspondence": "coq/Gen/C17/cases_%03d.v" % (ci // per_file)},
                          found=False)

    ctx.coverage.update({
        "evaluations": len(meta),
        "distinct_nontrivial": len({json.dumps(m.get("polygon", m.get("polygons")), default=str) + m["kind"]
                                    + str(m.get("raysect_seed", "")) for m in meta}),
        "ambiguous_excluded": len(ambiguous),
        "ambiguous_by_kind": {k: sum(1 for ci in ambiguous if meta[ci]["kind"] == k) for k in {meta[ci]["kind"] for ci in ambiguous}},
        "geometry_cases_compared_at_exact_area_tolerance": sum(
            1 for m in meta if m["kind"] == "geometry" and len(m["polygon"]) <= 12 and all(
                float(c * 4096).is_integer() and abs(c * 4096) < 2 ** 23 for q in m["polygon"] for c in q)),
        "rule": "one geometry case = one voxel built from one vertex list (stored list compared exactly; area, centroid, "
                "volume under the rounding budget); one emissivity case = one seeded call of emissivity_from_function "
                "(every sample point and the mean compared); one grid case = one ToroidalVoxelGrid.total_volume; non-trivial = "
                "all (degenerate polygons are rejected by the generator); distinct = distinct (kind, vertex list, seed)",
        "distribution": dict(dist, kinds=kinds, variants_cases=sum(1 for m in meta if m.get("tag") == "variant"),
                             triangles_per_emissivity_case=tri_hist, sample_draws=n_draws, grid_sizes=grid_sizes,
                             error_cases=n_err, search_geometry_polygons=n_search_geom,
                             search_sampling_polygons=n_search_stat,
                             search_samples_per_polygon=4000 if quick else 20000,
                             expectation_tests_by_grid_samples=exp_counts, expectation_calls_per_test=n_calls,
                             scale_exponents=scale_exps, physical_scale_cells=phys_hist, scale_covariance_tests=n_scale, zero_area_cases=n_degenerate,
                             argument_form_and_history_polygons=n_forms, grid_history_grids=n_grid_hist,
                             constructor_raw_row_cases=n_construct, policy_cases=n_policy,
                             emissivities_from_function_grids=n_emis_grid, source_constants=consts),
        "tolerance": {"stored vertices, error kind, triangulation shape, triangle orientation, sum of triangle areas": "exact",
                      "small dyadic vertex lists (coordinates k/256, |k| < 2^15, <= 12 vertices; decided inside Coq)":
                          "area exact; centroid 2^-52 relative (one rounding of the division); volume 2^-51 relative",
                      "vertex lists with coordinates k/4096, |k| < 2^23, <= 12 vertices": "area exact",
                      "which CSG builder ran (rectangle test), raw-row constructor outcome, grid_samples <= 0 outcome, "
                      "__getitem__/set_active outcome": "exact",
                      "area": "2^-48 * n * sum(|x_i y_j| + |x_j y_i|) / 2   (32 x first-order summation bound)",
                      "centroid": "2^-48 * n * (num_scale / (3|S|) + |c| * area_scale / |S|) + 2^-50 |c|",
                      "volume": "2 pi (tol_cx * area + |cx| tol_area) + 2^-50 |V|",
                      "sample point": "2^-40 * max|coordinate|; lookup margin 2^-40 * area (else ambiguous)",
                      "emissivity mean": "2^-38 * (|c0| + (|c1|+|c2|) max|coordinate|)",
                      "grid total": "sum of the per-voxel volume budgets + 2^-44 relative (was 2^-40 relative; measured: 5x5 cells of "
                                    "50 um at R = 1 m have a conditioning of 1e-11 in the area alone, above 2^-40)",
                      "statistical (search only)": "5 sigma (large-sample mean and hit counts); expectation for small "
                                                   "grid_samples: 5.5 sigma of the empirical standard error over independent "
                                                   "calls, triangle frequencies 6 sigma + 3"},
        "partial": ["true area/centroid: algebraic identity with fan and every ear-clipping triangulation proved; that such a "
                    "decomposition partitions a simple polygon is classical and not proved",
                    "unbiasedness: interval lengths, sum of triangle areas, expectation for linear and constant emissivities "
                    "proved; the probabilistic reading (uniform u, uniform point in triangle, general f) is not formalised",
                    "raysect's triangulate2d and RNG are not modelled; their outputs are inputs of the model, checked per case"],
    })
    ctx.coverage["samples"] = [meta[0]] + [m for m in meta if m["kind"] == "emissivity"][:1]
    ctx.grep_gate()
