"""C04 translator (fail-closed): the code facts of cherab/core/beam/node.pyx and
cherab/core/model/attenuator/singleray.pyx that the Coq model rests on -- setter guards, constructor guards,
defaults, the node-count formula, the comparison operators of the zero-set / axis / clamp tests, the constants of
the Gaussian and the interpolator's extrapolation range -- are read from the CURRENT source text and written as a
Coq record; the lemma source_tie (source_facts = model_facts, by computation) is checked by the kernel.

Every pattern must match exactly once; anything else raises TranslateError (reported as a failed obligation)."""
import os
import re
from fractions import Fraction


class TranslateError(Exception):
    pass


CMP = {"<": "CLt", "<=": "CLe", ">": "CGt", ">=": "CGe"}
BEAM_FIELDS = {"energy": "FEnergy", "power": "FPower", "temperature": "FTemperature", "divergence_x": "FDivX",
               "divergence_y": "FDivY", "length": "FLength", "sigma": "FSigma"}
ATT_FIELDS = {"step": "FStep", "clamp_sigma": "FClampSigma"}
ORDER = ["FEnergy", "FPower", "FTemperature", "FDivX", "FDivY", "FLength", "FSigma", "FStep", "FClampSigma"]

SETTER = re.compile(r"@(\w+)\.setter\s*\n\s*def (\w+)\(self,\s*(?:double\s+)?value\):\s*\n((?:\s*#[^\n]*\n)*)\s*if value\s*(<=|<|>=|>)\s*0(?:\.0*)?\s*:\s*\n\s*raise ValueError")


def _once(pattern, text, what):
    m = re.findall(pattern, text)
    if len(m) != 1:
        raise TranslateError("%s: expected exactly one match, found %d" % (what, len(m)))
    return m[0]


def _q(fr):
    fr = Fraction(fr)
    return "(Qmake %s %d)" % (("(%d)" % fr.numerator) if fr.numerator < 0 else str(fr.numerator), fr.denominator)


def facts(repo):
    node = open(os.path.join(repo, "cherab/core/beam/node.pyx")).read()
    att = open(os.path.join(repo, "cherab/core/model/attenuator/singleray.pyx")).read()
    policy = {}
    for text, fields, where in ((node, BEAM_FIELDS, "node.pyx"), (att, ATT_FIELDS, "singleray.pyx")):
        for prop, fn, _, op in SETTER.findall(text):
            if prop != fn:
                raise TranslateError("%s: setter of %s is defined under the name %s" % (where, prop, fn))
            if prop not in fields:
                raise TranslateError("%s: numeric guard in a setter the model does not know: %s" % (where, prop))
            if fields[prop] in policy:
                raise TranslateError("%s: two setters for %s" % (where, prop))
            policy[fields[prop]] = CMP[op]
    missing = [f for f in ORDER if f not in policy]
    if missing:
        raise TranslateError("no guarded setter found for %s" % missing)
    init = att[att.index("def __init__"):att.index("@property")]
    ctor = [("FStep", CMP[_once(r"if step\s*(<=|<|>=|>)\s*0(?:\.0*)?\s*:\s*\n\s*raise ValueError", init, "constructor guard of step")]),
            ("FClampSigma", CMP[_once(r"if clamp_sigma\s*(<=|<|>=|>)\s*0(?:\.0*)?\s*:\s*\n\s*raise ValueError", init, "constructor guard of clamp_sigma")])]
    defaults = []
    for attr, f in (("_energy", "FEnergy"), ("_power", "FPower"), ("_temperature", "FTemperature"), ("_divergence_x", "FDivX"),
                    ("_divergence_y", "FDivY"), ("_length", "FLength"), ("_sigma", "FSigma")):
        defaults.append((f, Fraction(_once(r"self\.%s = ([-\d.e]+)\s" % attr, node[node.index("def __init__(self, object parent"):node.index("cpdef double density")], "Beam.__init__ " + attr))))
    sig = _once(r"def __init__\(self, double step=([\d.e-]+), bint clamp_to_zero=(\w+), double clamp_sigma=([\d.e-]+),", att, "SingleRayAttenuator.__init__ signature")
    if sig[1] != "False":
        raise TranslateError("default of clamp_to_zero is %s" % sig[1])
    defaults += [("FStep", Fraction(sig[0])), ("FClampSigma", Fraction(sig[2]))]
    nb = _once(r"nbeam = max\((\d+) \+ int\(np\.ceil\(self\._beam\.length / self\._step\)\), (\d+)\)", att, "node count")
    dz = _once(r"if z (<=|<|>=|>) 0 or z (<=|<|>=|>) self\._length:\s*\n\s*return 0\b", node, "Beam.density zero test")
    da = _once(r"if z (<=|<|>=|>) 0:\s*\n\s*return self\.BEAM_AXIS", node, "Beam.direction axis test")
    cl = _once(r"if self\.clamp_to_zero:\s*\n\s*if norm_radius_sqr (<=|<|>=|>) self\._clamp_sigma_sqr:\s*\n\s*return 0\.0", att, "clamp test")
    ga = _once(r"gaussian_sample = exp\((-?[\d.]+) \* norm_radius_sqr\) / \((\d+) \* M_PI \* sigma_x \* sigma_y\)", att, "gaussian sample")
    ex = _once(r"self\._density = Interpolator1DArray\(beam_z, beam_density, 'linear', 'nearest', extrapolation_range=([\d.e-]+)\)", att, "interpolator")
    _once(r"return self\._density\.evaluate\(z\) \* gaussian_sample", att, "density product")
    _once(r"return beam_density \* np\.exp\(-cumulative_trapezoid\(stopping_coeff, axis, initial=0\) / speed\)", att, "attenuation formula")
    _once(r"beam_z = np\.linspace\(0\.0, self\._beam\.length, nbeam\)", att, "axis nodes")
    return {"policy": [(f, policy[f]) for f in ORDER], "ctor": ctor, "defaults": defaults, "nbeam": (int(nb[0]), int(nb[1])),
            "density_zero": (CMP[dz[0]], CMP[dz[1]]), "direction": CMP[da], "clamp": CMP[cl],
            "gauss": (Fraction(ga[0]), Fraction(ga[1])), "extrapolation": Fraction(ex)}


def coq_text(f):
    lst = lambda items, fmt: "[" + "; ".join(fmt(i) for i in items) + "]"
    return ("Require Import Cherab.Common.Qx Cherab.Model.C04_Beam Cherab.Model.C04_Policy.\nOpen Scope Q_scope.\n"
            "Definition source_facts : code_facts :=\n  mkfacts %s\n    %s\n    %s\n    (%d, %d)%%Z (%s, %s) %s %s (%s, %s) %s.\n"
            "Lemma source_tie : source_facts = model_facts.\nProof. vm_compute. reflexivity. Qed.\n" % (
                lst(f["policy"], lambda p: "(%s, %s)" % p), lst(f["ctor"], lambda p: "(%s, %s)" % p),
                lst(f["defaults"], lambda p: "(%s, %s)" % (p[0], _q(p[1]))), f["nbeam"][0], f["nbeam"][1],
                f["density_zero"][0], f["density_zero"][1], f["direction"], f["clamp"], _q(f["gauss"][0]), _q(f["gauss"][1]),
                _q(f["extrapolation"])))
