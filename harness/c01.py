"""C01 -- Plasma/beam/laser changes never leave stale derived state.

Theorems: coq/Properties/C01.v (every covering invalidation table, every history).
Tie (T): the invalidation table of the real code is extracted by probing the running implementation
         (which derived data does each public setter rebuild?) -> coq/Gen/C01/Table.v, whose lemma
         table_ok : covers ... = true is re-checked by the kernel.
Tie (X): random histories of public mutators interleaved with observations are executed on the real
         objects and compared with scenes built from scratch; the Coq model, run on the same history
         with the extracted table, must predict the same verdict (no stale datum).
Search : the probe rows (3-step histories) and the random histories themselves are the executable
         statement of the property on the implementation.
"""
import os

from common import coqc, coqc_many, parse_evals

THEOREMS = ["C01_history_independent", "C01_order_irrelevant", "C01_step_inv", "C01_stale_report_empty",
            "C01_notifier_refines_subscriptions", "C01_notify_calls_exactly_the_subscribed", "C01_notify_purges_dead",
            "C01_purging_variant_refuted"]

DATA = ["P_material", "X_cache", "R_cache", "T_cache", "BR_cache", "TRP_cache", "A_stopping", "A_density",
        "B_geometry", "B_material", "CX_cache", "BES_cache", "L_geometry", "L_material", "S_arrays", "LP_function"]

# what a from-scratch build of each datum reads (hand-written from the code; see DESIGN.md section 6, C01)
_MODEL_CACHE = ["p_composition", "p_atomic_data", "p_models"]
DEPS = {
    "P_material": ["p_models", "p_atomic_data", "p_integrator", "p_geometry", "p_geometry_transform"],
    "X_cache": _MODEL_CACHE, "R_cache": _MODEL_CACHE, "T_cache": _MODEL_CACHE, "TRP_cache": _MODEL_CACHE,
    "BR_cache": _MODEL_CACHE + ["brems_gaunt"],
    "A_stopping": ["p_composition", "b_atomic_data", "b_element", "b_attenuator", "att_clamp_to_zero", "b_plasma"],
    "A_density": ["p_composition", "b_atomic_data", "b_element", "b_attenuator", "att_clamp_to_zero", "b_plasma",
                  "b_energy", "b_power", "b_length", "att_step", "b_transform", "b_parent", "p_transform", "p_parent",
                  "a_transform", "b_divergence_x", "b_divergence_y"],
    "B_geometry": ["b_sigma", "b_divergence_x", "b_divergence_y", "b_length", "att_clamp_sigma", "b_attenuator",
                   "att_clamp_to_zero", "b_models"],
    "B_material": ["b_models", "b_atomic_data", "b_integrator", "b_plasma"],
    "CX_cache": ["p_composition", "b_atomic_data", "b_element", "cx_line", "b_models"],
    "BES_cache": ["p_composition", "b_atomic_data", "b_element", "b_models", "bes_line"],
    "L_geometry": ["l_profile", "lp_length", "lp_radius"],
    "L_material": ["l_models", "l_integrator", "l_importance", "l_spectrum", "l_profile", "lp_length", "lp_radius",
                   "l_transform", "l_parent", "p_transform", "p_parent", "a_transform"],
    "S_arrays": ["ls_min", "ls_max", "ls_bins", "ls_mean", "ls_stddev", "l_spectrum"],
    "LP_function": ["lp_energy", "l_profile", "lp_pulse_length", "lp_stddev_x", "lp_stddev_y", "lp_waist_z", "lp_stddev_waist",
                    "lp_wavelength", "lp_mean_z"],
}


# ---------------------------------------------------------------------------------------------------------------
# (T) the set of public mutators is regenerated from the current source: every `@x.setter` of the anchored
# files must be mapped to a field of the op universe (or be excluded with a stated reason).  A setter that
# appears in the source and is not listed here fails the obligation: the property is then no longer shown to
# hold for that mutator.
# ---------------------------------------------------------------------------------------------------------------
ANCHORED = ["cherab/core/plasma/node.pyx", "cherab/core/plasma/model.pyx", "cherab/core/beam/node.pyx", "cherab/core/beam/model.pyx",
            "cherab/core/laser/node.pyx", "cherab/core/laser/model.pyx", "cherab/core/laser/profile.pyx", "cherab/core/laser/laserspectrum.pyx",
            "cherab/core/model/attenuator/singleray.pyx", "cherab/core/model/plasma/impact_excitation.pyx",
            "cherab/core/model/plasma/recombination.pyx", "cherab/core/model/plasma/thermal_cx.pyx", "cherab/core/model/plasma/bremsstrahlung.pyx",
            "cherab/core/model/plasma/total_radiated_power.pyx", "cherab/core/model/beam/charge_exchange.pyx",
            "cherab/core/model/beam/beam_emission.pyx", "cherab/core/model/laser/laserspectrum.pyx", "cherab/core/model/laser/model.pyx",
            "cherab/core/model/laser/profile.pyx", "cherab/core/model/laser/math_functions.pyx"]
INTERNAL = "set by the owning node/material when the model is attached (documented as not to be set by the user)"
FUNC3D = "parameter of an internal Function3D object owned by a profile; the profile's own setter replaces the object"
MUTATORS = {
    ("Plasma", "b_field"): "p_bfield", ("Plasma", "electron_distribution"): "p_edist", ("Plasma", "composition"): "p_composition",
    ("Plasma", "geometry"): "p_geometry", ("Plasma", "geometry_transform"): "p_geometry_transform", ("Plasma", "integrator"): "p_integrator",
    ("Plasma", "models"): "p_models", ("Plasma", "atomic_data"): "p_atomic_data",
    ("PlasmaModel", "plasma"): ("excluded", INTERNAL), ("PlasmaModel", "atomic_data"): ("excluded", INTERNAL),
    ("Beam", "energy"): "b_energy", ("Beam", "power"): "b_power", ("Beam", "temperature"): "b_temperature", ("Beam", "element"): "b_element",
    ("Beam", "divergence_x"): "b_divergence_x", ("Beam", "divergence_y"): "b_divergence_y", ("Beam", "length"): "b_length",
    ("Beam", "sigma"): "b_sigma", ("Beam", "atomic_data"): "b_atomic_data", ("Beam", "plasma"): "b_plasma",
    ("Beam", "attenuator"): "b_attenuator", ("Beam", "models"): "b_models", ("Beam", "integrator"): "b_integrator",
    ("BeamModel", "plasma"): ("excluded", INTERNAL), ("BeamModel", "beam"): ("excluded", INTERNAL), ("BeamModel", "atomic_data"): ("excluded", INTERNAL),
    ("BeamAttenuator", "plasma"): ("excluded", INTERNAL), ("BeamAttenuator", "beam"): ("excluded", INTERNAL),
    ("BeamAttenuator", "atomic_data"): ("excluded", INTERNAL),
    ("Laser", "plasma"): ("excluded", "one plasma per scene in this harness; the setter is exercised at construction only"),
    ("Laser", "importance"): "l_importance", ("Laser", "laser_spectrum"): "l_spectrum", ("Laser", "laser_profile"): "l_profile",
    ("Laser", "models"): "l_models", ("Laser", "integrator"): "l_integrator",
    ("LaserModel", "laser_profile"): ("excluded", INTERNAL), ("LaserModel", "plasma"): ("excluded", INTERNAL),
    ("LaserModel", "laser_spectrum"): ("excluded", INTERNAL),
    ("LaserSpectrum", "min_wavelength"): "ls_min", ("LaserSpectrum", "max_wavelength"): "ls_max", ("LaserSpectrum", "bins"): "ls_bins",
    ("SingleRayAttenuator", "step"): "att_step", ("SingleRayAttenuator", "clamp_sigma"): "att_clamp_sigma",
    ("Bremsstrahlung", "gaunt_factor"): "brems_gaunt", ("Bremsstrahlung", "integrator"): "brems_integrator",
    ("BeamEmissionLine", "line"): "bes_line", ("BeamCXLine", "line"): "cx_line",
    ("GaussianSpectrum", "stddev"): "ls_stddev", ("GaussianSpectrum", "mean"): "ls_mean",
    ("ConstantAxisymmetricGaussian3D", "stddev"): ("excluded", FUNC3D), ("ConstantBivariateGaussian3D", "stddev_x"): ("excluded", FUNC3D),
    ("ConstantBivariateGaussian3D", "stddev_y"): ("excluded", FUNC3D), ("TrivariateGaussian3D", "stddev_x"): ("excluded", FUNC3D),
    ("TrivariateGaussian3D", "stddev_y"): ("excluded", FUNC3D), ("TrivariateGaussian3D", "stddev_z"): ("excluded", FUNC3D),
    ("TrivariateGaussian3D", "mean_z"): ("excluded", FUNC3D), ("GaussianBeamModel", "wavelength"): ("excluded", FUNC3D),
    ("GaussianBeamModel", "waist_z"): ("excluded", FUNC3D), ("GaussianBeamModel", "stddev_waist"): ("excluded", FUNC3D),
    ("UniformEnergyDensity", "laser_length"): "lp_length", ("UniformEnergyDensity", "laser_radius"): "lp_radius",
    ("UniformEnergyDensity", "energy_density"): "lp_energy",
    ("ConstantBivariateGaussian", "laser_length"): "lp_length", ("ConstantBivariateGaussian", "laser_radius"): "lp_radius",
    ("ConstantBivariateGaussian", "pulse_energy"): "lp_energy", ("ConstantBivariateGaussian", "pulse_length"): "lp_pulse_length",
    ("ConstantBivariateGaussian", "stddev_x"): "lp_stddev_x", ("ConstantBivariateGaussian", "stddev_y"): "lp_stddev_y",
    ("TrivariateGaussian", "laser_length"): "lp_length", ("TrivariateGaussian", "laser_radius"): "lp_radius",
    ("TrivariateGaussian", "pulse_energy"): "lp_energy", ("TrivariateGaussian", "pulse_length"): "lp_pulse_length",
    ("TrivariateGaussian", "stddev_x"): "lp_stddev_x", ("TrivariateGaussian", "stddev_y"): "lp_stddev_y", ("TrivariateGaussian", "mean_z"): "lp_mean_z",
    ("GaussianBeamAxisymmetric", "laser_length"): "lp_length", ("GaussianBeamAxisymmetric", "laser_radius"): "lp_radius",
    ("GaussianBeamAxisymmetric", "pulse_energy"): "lp_energy", ("GaussianBeamAxisymmetric", "pulse_length"): "lp_pulse_length",
    ("GaussianBeamAxisymmetric", "waist_z"): "lp_waist_z", ("GaussianBeamAxisymmetric", "stddev_waist"): "lp_stddev_waist",
    ("GaussianBeamAxisymmetric", "laser_wavelength"): "lp_wavelength",
}


def scan_setters(repo):
    """(class, attribute) of every `@attr.setter` in the anchored files of the current working tree"""
    import re
    found = []
    for rel in ANCHORED:
        cls = None
        for line in open(os.path.join(repo, rel), encoding="utf8", errors="replace"):
            m = re.match(r"^(?:cdef\s+)?class\s+(\w+)", line)
            if m:
                cls = m.group(1)
            m = re.match(r"^\s+@(\w+)\.setter\b", line)
            if m:
                found.append((cls, m.group(1), rel))
    return found


def signature(sc, obs):
    """tokens per datum; a datum was rebuilt iff its token changed (objects are kept alive on purpose)"""
    calls, evals = {}, {}
    for _, prov in sc.providers:
        for k, v in prov.calls.items():
            calls[k] = calls.get(k, 0) + v
        for k, v in prov.evals.items():
            evals[k] = evals.get(k, 0) + v
    pg = sc.plasma.geometry
    bch = list(sc.beam.children)
    lg = list(sc.laser.get_geometry())
    spec = sc.laser.laser_spectrum
    prof = sc.laser.laser_profile
    # outcome kinds of the sight lines: a cache whose rebuild now fails (or succeeds again) was discarded
    kinds = tuple(v[0] if v[0] == "ok" else v[1] for l, v in obs if l.startswith("ray"))
    return {
        "P_material": pg.material if pg is not None else None,
        "X_cache": calls.get("impact_excitation_pec", 0), "R_cache": calls.get("recombination_pec", 0),
        "T_cache": calls.get("thermal_cx_pec", 0), "BR_cache": (calls.get("free_free_gaunt_factor", 0), sc.pmodels[3].gaunt_factor),
        "TRP_cache": calls.get("line_radiated_power_rate", 0),
        "A_stopping": calls.get("beam_stopping_rate", 0), "A_density": evals.get("bstop", 0),
        "B_geometry": bch[0] if bch else None, "B_material": bch[0].material if bch else None,
        "CX_cache": (calls.get("beam_cx_pec", 0), kinds), "BES_cache": (calls.get("beam_emission_pec", 0), kinds),
        "L_geometry": tuple(lg), "L_material": tuple(g.material for g in lg),
        "S_arrays": (spec, spec.power_spectral_density), "LP_function": (prof, prof.get_energy_density(0.01, 0.005, 0.3)),
    }


def changed(a, b):
    if isinstance(a, tuple) and isinstance(b, tuple):
        return len(a) != len(b) or any(changed(x, y) for x, y in zip(a, b))
    if isinstance(a, (int, float, str)) and isinstance(b, (int, float, str)):
        return a != b
    return a is not b


def coq_nat_list(xs):
    return "[" + "; ".join(str(int(x)) for x in xs) + "]"


def run(ctx):
    ctx.trusted += [
        "Coq 8.16.1 kernel, vm_compute (no native_compute)",
        "harness/c01_scene.py (scene builder: one plasma + beam + laser with every model kind, stub atomic data, the list of "
        "public mutators and the observations) and harness/c01.py (probe that extracts the invalidation table; hand-written DEPS table)",
        "raysect (scene graph, ray tracing, NumericalIntegrator); observations are compared with a fresh scene under relative 1e-9 of the "
        "largest sample because raysect's accumulation order over overlapping volumes depends on object creation order",
    ]
    ctx.assumptions += [
        "invalidation is per setter and state-independent (checked by the random-history correspondence, not proved)",
        "DEPS (which fields a from-scratch build of each derived datum reads) is hand-written from the code; a missing entry would "
        "be caught only by the implementation-level comparisons (probe rows, histories)",
        "strong references to all models/species are kept (weak-reference death of a registered model is not modelled)",
    ]
    ctx.rebuild()
    ctx.proofs("Properties.C01", THEOREMS)

    import cherab
    from common import REPO
    assert list(cherab.__path__) == [REPO + "/cherab"], cherab.__path__

    # ---- (X) the Notifier itself: real class vs Gallina model, operation by operation ---------------------------
    import c01_notifier
    c01_notifier.run_notifier(ctx)
    ctx.log("notifier correspondence done")
    import c01_scene as S
    rng = ctx.rng
    FIELDS = S.FIELDS
    fidx = {f: i for i, f in enumerate(FIELDS)}
    didx = {d: i for i, d in enumerate(DATA)}

    # ---- (T) the public mutators of the current source are all in the op universe -------------------------------
    setters = scan_setters(REPO)
    unmapped = sorted({(c, a, r) for c, a, r in setters if (c, a) not in MUTATORS})
    stale_map = sorted(k for k in MUTATORS if k not in {(c, a) for c, a, _ in setters})
    badfield = sorted(k for k, v in MUTATORS.items() if isinstance(v, str) and v not in S.FIELDS)
    ctx.obligation("every public setter of the %d anchored files (%d found) is a mutator of the op universe or excluded with a reason"
                   % (len(ANCHORED), len(setters)), "tie", not unmapped and not badfield,
                   "setters in the source that the check does not drive: %s; mapped to unknown fields: %s" % (unmapped, badfield))
    if unmapped:
        ctx.violation("c01-unmapped-mutator:" + ",".join("%s.%s" % (c, a) for c, a, _ in unmapped[:4]),
                      "the source has public setters that the check does not drive, so the property is not shown for them: %s" % unmapped,
                      {"unmapped": unmapped}, found=False)
    ctx.coverage["mutators"] = {"setters_in_source": len(setters), "driven": sum(1 for v in MUTATORS.values() if isinstance(v, str)),
                                "excluded": {"%s.%s" % k: v[1] for k, v in MUTATORS.items() if not isinstance(v, str)},
                                "mapping_entries_without_a_setter_in_the_source": ["%s.%s" % k for k in stale_map]}

    ctx.log("mutator scan done")
    # ---- (T) probe: invalidation table + single-step staleness rows ------------------------------------
    base = S.default_config()
    base["p_models"] = (0, 1, 2, 3, 4)
    base["b_models"] = (0, 1)
    alt_list = {"p_models": [(4, 3, 2, 1, 0)], "b_models": [(1, 0)], "l_models": [()], "p_composition": [(0, 4, 2, 3), (0, 1, 2, 3, 5)]}
    # a field whose effect depends on the scene-graph topology is probed in a topology where it matters:
    # the intermediate node is an ancestor of the beam and the laser (not of the plasma)
    probe_base = {"a_transform": {"b_parent": 1, "l_parent": 1, "p_parent": 0},
                  # profile parameters that only some profile classes have are probed on such a class
                  "lp_waist_z": {"l_profile": 2}, "lp_stddev_waist": {"l_profile": 2}, "lp_wavelength": {"l_profile": 2},
                  "lp_mean_z": {"l_profile": 3}}
    inval = {}
    probe_rows = []
    probe_fail = []
    for f in FIELDS:
        alts = alt_list.get(f) or [v for v in range(len(S.VALUES[f])) if v != base[f]] or [base[f]]
        rebuilt_sets = []
        for v in alts:
            ctx.crumb({"start_config": "default", "history_so_far": [["observe"], ["set", f, repr(v)], ["observe"]]})
            sc = S.Scene(dict(base, **probe_base.get(f, {})))
            sig0 = signature(sc, sc.observe())
            try:
                sc.apply(("set", f, v))
            except Exception as e:    # a supported public mutator must not raise in a valid configuration
                probe_fail.append({"history": [["observe"], ["set", f, v]], "raised": type(e).__name__ + ": " + str(e)[:200]})
                continue
            obs = sc.observe()
            sig1 = signature(sc, obs)
            rebuilt = sorted(d for d in DATA if changed(sig0[d], sig1[d]))
            rebuilt_sets.append(set(rebuilt))
            fresh = S.Scene(sc.cfg).observe()
            diffs = S.same(obs, fresh)
            probe_rows.append({"field": f, "value": repr(v), "rebuilt": rebuilt, "equals_fresh": not diffs})
            if diffs:
                probe_fail.append({"history": [["observe"], ["set", f, repr(v)], ["observe"]], "start_config": "default",
                                   "differs_from_fresh": [list(d) for d in diffs[:3]]})
        inval[f] = sorted(set.intersection(*rebuilt_sets)) if rebuilt_sets else []
    ctx.obligation("probe: every single setter from a fully evaluated scene leaves it equal to a fresh scene (%d rows)" % len(probe_rows),
                   "search", not probe_fail, str(probe_fail[:3]))
    for pf in probe_fail[:4]:
        ctx.violation("c01-probe:" + str(pf["history"][1][1]), "after [observe; set %s; observe] the observation differs from a scene "
                      "built from scratch in the final configuration" % pf["history"][1][1], pf, found=True)

    ctx.log("single-step probes done: %d rows" % len(probe_rows))
    # ---- (X) replace-then-mutate probes: [observe; set g; observe; set f; observe] where g replaces a subscriber
    # object (the replaced object is dropped and dies while still registered with the notifiers) -----------------
    REPLACERS = ["p_models", "b_models", "l_models", "b_attenuator", "l_profile", "l_spectrum", "p_edist", "p_atomic_data",
                 "b_atomic_data", "p_composition", "att_clamp_to_zero"]

    def alt_of(f, cfg):
        cands = alt_list.get(f) or [v for v in range(len(S.VALUES[f])) if v != cfg[f]] or [cfg[f]]
        return cands[rng.randrange(len(cands))]
    pairs = [(g, f) for g in REPLACERS for f in FIELDS if f != g]
    if ctx.quick:
        rng.shuffle(pairs)
        pairs = pairs[:90]
    two_fail = []
    for g, f in pairs:
        sc = S.Scene(dict(base, **probe_base.get(f, {})), fresh_models=True)
        hist = [["observe"]]
        try:
            sc.observe()
            for fld in (g, f):
                v = alt_of(fld, sc.cfg)
                hist.append(["set", fld, repr(v)])
                ctx.crumb({"start_config": "default", "fresh_models": True, "history_so_far": hist + [["observe"]]})
                sc.apply(("set", fld, v))
                obs = sc.observe()
                hist.append(["observe"])
        except Exception as e:
            two_fail.append({"history": hist, "raised": type(e).__name__ + ": " + str(e)[:200]})
            continue
        diffs = S.same(obs, S.Scene(sc.cfg).observe())
        if diffs:
            two_fail.append({"history": hist, "start_config": "default", "fresh_models": True, "differs_from_fresh": [list(d) for d in diffs[:3]]})
    ctx.obligation("probe: replace a subscriber object, observe, then one setter: the scene equals a fresh scene (%d of %d (replacer, setter) pairs)"
                   % (len(pairs), len(REPLACERS) * (len(FIELDS) - 1)), "search", not two_fail, str(two_fail[:3]))
    for pf in two_fail[:4]:
        ctx.violation("c01-probe2:%s>%s" % (pf["history"][1][1], pf["history"][-2][1] if len(pf["history"]) > 3 else "?"),
                      "after %s the observation differs from a scene built from scratch in the final configuration" % pf["history"], pf, found=True)
    ctx.coverage["replace_then_mutate_pairs"] = len(pairs)

    ctx.log("replace-then-mutate probes done: %d pairs" % len(pairs))
    # ---- Gen/C01/Table.v and its tie lemma -------------------------------------------------------------
    def match_fn(name, rows, n):
        body = " | ".join("%d => %s" % (i, coq_nat_list(r)) for i, r in enumerate(rows))
        return "Definition %s (x : nat) : list nat := match x with %s | _ => [] end.\n" % (name, body)
    deps_rows = [[fidx[f] for f in DEPS[d]] for d in DATA]
    inval_rows = [[didx[d] for d in inval[f]] for f in FIELDS]
    table = ("From Coq Require Import List Arith Bool.\nImport ListNotations.\nRequire Import Cherab.Model.C01_Invalidate.\n"
             "(* generated by harness/c01.py from the running implementation; fields: %s ; data: %s *)\n" % (
                 ", ".join("%d=%s" % (i, f) for i, f in enumerate(FIELDS)), ", ".join("%d=%s" % (i, d) for i, d in enumerate(DATA)))
             + "Definition ndata := %d.\nDefinition nfields := %d.\n" % (len(DATA), len(FIELDS))
             + match_fn("deps", deps_rows, len(DATA)) + match_fn("inval", inval_rows, len(FIELDS))
             + "Definition uncovered : list (nat * nat) :=\n  flat_map (fun d => map (fun f => (d, f)) (filter (fun f => negb (mem d (inval f))) (deps d))) (seq 0 ndata).\n")
    tie = ("Require Import Cherab.Model.C01_Invalidate Cherab.Proofs.C01_Invalidate Cherab.Properties.C01 Table.\n"
           "From Coq Require Import List. Import ListNotations.\n"
           "Lemma table_ok : covers ndata deps inval nfields = true.\nProof. vm_compute. reflexivity. Qed.\n"
           "(* the property theorems instantiated with the table of the current code *)\n"
           "Lemma current_code_history_independent : forall c0 ops, Forall (fun p => fst p = snd p) (run ndata deps inval (init c0) ops).\n"
           "Proof. exact (C01_history_independent ndata deps inval nfields table_ok). Qed.\n")
    ctx.write_gen("Table.v", table)
    ctx.write_gen("Tie.v", tie)
    ctx.write_gen("Uncovered.v", "Require Import Cherab.Model.C01_Invalidate Table.\nEval vm_compute in uncovered.\n")
    import subprocess
    from common import COQ
    def coqc_gen(name):
        p = subprocess.run(["coqc", "-Q", COQ, "Cherab", "-Q", ctx.gen, "", name], cwd=ctx.gen, stdout=subprocess.PIPE,
                           stderr=subprocess.STDOUT, text=True, timeout=600)
        return p.returncode == 0, p.stdout
    ok, out = coqc_gen("Table.v")
    if not ok:
        ctx.broken.append("Gen/C01/Table.v does not compile: " + out[-500:])
    ok, out = coqc_gen("Tie.v")
    uncovered_txt = ""
    if not ok:
        ok2, out2 = coqc_gen("Uncovered.v")
        uncovered_txt = " ".join(parse_evals(out2)) if ok2 else out2[-300:]
    ctx.obligation("Gen/C01/Tie.v: table_ok (covers extracted_inval deps = true) and instantiated theorem", "tie", ok,
                   (out[-600:] + "\nuncovered (datum, field) pairs: " + uncovered_txt) if not ok else "")
    uncovered_pairs = []
    if not ok:
        for d in DATA:
            for f in DEPS[d]:
                if d not in inval[f]:
                    uncovered_pairs.append((d, f))

    # ---- (X) random histories on the implementation and in the model ---------------------------------------
    n_hist = 60 if ctx.quick else 1500
    histories = []
    impl_fail = []
    op_mix = {}
    n_obs = 0
    lens = []
    for h in range(n_hist):
        cfg = S.default_config()
        for f in FIELDS:
            if rng.random() < 0.3:
                cfg[f] = rng.choice(S.VALUES[f]) if f in S.LIST_FIELDS else rng.randrange(len(S.VALUES[f]))
        start = dict(cfg)
        fresh_models = rng.random() < 0.5
        sc = S.Scene(cfg, fresh_models=fresh_models)
        ops, model_ops, verdicts = [], [], []
        n = rng.randint(1, 14) if ctx.quick else rng.randint(1, 25)
        lens.append(n)
        aborted = False

        def observe_and_compare():
            obs = sc.observe()
            fresh = S.Scene(sc.cfg).observe()
            d = S.same(obs, fresh)
            verdicts.append(not d)
            ops.append(("observe",))
            model_ops.append("Observe")
            if d:
                impl_fail.append({"start_config": {k: repr(v) for k, v in start.items()}, "fresh_models": fresh_models,
                                  "history": [list(map(repr, o)) for o in ops],
                                  "differs_from_fresh": [list(x) for x in d[:3]]})
        for k in range(n):
            if rng.random() < 0.3:
                observe_and_compare()
            op = S.random_op(rng, sc.cfg)
            op_mix[op[0] if op[0] != "set" else "set:" + op[1].split("_")[0]] = op_mix.get(op[0] if op[0] != "set" else "set:" + op[1].split("_")[0], 0) + 1
            ops.append(op)
            ctx.crumb({"start_config": {k2: repr(v) for k2, v in start.items()}, "history_so_far": [list(map(repr, o)) for o in ops],
                       "then": "observe"})
            fld = {"comp_add": "p_composition", "comp_clear": "p_composition"}.get(op[0]) or (op[1] if op[0] in ("models_add", "models_clear", "set") else None)
            model_ops.append("Set_ %d" % fidx[fld])
            try:
                sc.apply(op)
            except Exception as e:
                impl_fail.append({"start_config": {k2: repr(v) for k2, v in start.items()}, "history": [list(map(repr, o)) for o in ops],
                                  "raised": type(e).__name__ + ": " + str(e)[:200]})
                aborted = True
                break
        if not aborted:
            observe_and_compare()
        n_obs += len(verdicts)
        histories.append((model_ops, verdicts, ops))
    ctx.log("histories done: %d, %d observations" % (n_hist, n_obs))
    ctx.obligation("executable property on the implementation: %d histories, %d observations compared with fresh scenes" % (n_hist, n_obs),
                   "search", not impl_fail, str(impl_fail[:2]))
    for pf in impl_fail[:3]:
        ctx.violation("c01-history:" + str(pf["history"][-2] if len(pf["history"]) > 1 else pf["history"][-1])[:60],
                      "a history of public mutators ends in a state whose observation differs from a scene built from scratch", pf, found=True)

    # model verdicts for the same histories (evaluated by Coq with the extracted table)
    files = []
    for si in range(0, len(histories), 200):
        chunk = histories[si:si + 200]
        txt = ("Require Import Cherab.Model.C01_Invalidate Table.\nFrom Coq Require Import List Arith Bool. Import ListNotations.\n"
               "Definition verdict (ops : list op) : list bool := map (fun l => match l with [] => true | _ => false end) "
               "(stale_report ndata deps inval (fun _ => 0) ops).\n"
               "Definition expected : list (list op * list bool) := [\n  " +
               ";\n  ".join("([%s], [%s])" % ("; ".join(m), "; ".join("true" if v else "false" for v in vd)) for m, vd, _ in chunk) + "].\n"
               "Definition beq_list (a b : list bool) : bool := (length a =? length b)%nat && forallb (fun p => Bool.eqb (fst p) (snd p)) (combine a b).\n"
               "Eval vm_compute in (map (fun p => beq_list (verdict (fst p)) (snd p)) expected).\n")
        name = "cases_%03d.v" % (si // 200)
        ctx.write_gen(name, txt)
        files.append((name, chunk))
    n_disagree = 0
    for name, chunk in files:
        ok, out = coqc_gen(name)
        vals = parse_evals(out) if ok else []
        good = ok and len(vals) == 1
        flags = [t.strip() for t in vals[0].strip("[]").split(";")] if good else []
        bad = [i for i, t in enumerate(flags) if t != "true"]
        n_disagree += len(bad)
        ctx.obligation("correspondence %s: model verdict (stale or not) equals implementation verdict on %d histories" % (name, len(chunk)),
                       "correspondence", good and not bad and len(flags) == len(chunk), out[-400:] if not good else "disagree at %s" % bad[:5])
        if not good:
            ctx.broken.append("coqc failed on %s: %s" % (name, out[-400:]))
    if uncovered_pairs and not impl_fail and not probe_fail:
        ctx.violation("c01-uncovered:" + ",".join("%s<-%s" % p for p in uncovered_pairs[:3]),
                      "the setters of %s no longer rebuild %s (which is built from them); no history with a differing observation was found"
                      % (sorted({p[1] for p in uncovered_pairs}), sorted({p[0] for p in uncovered_pairs})),
                      {"uncovered": uncovered_pairs, "tie": "coq/Gen/C01/Tie.v: table_ok"}, found=False)

    ctx.coverage.update({
        "evaluations": len(probe_rows) + n_hist,
        "distinct_nontrivial": len({tuple(map(repr, h[2])) for h in histories if len(h[2]) > 2}) + len(probe_rows),
        "rule": "probe rows: [observe; set f v; observe] from the default configuration for every field f and every alternative value; "
                "histories: random start configuration, 1-14 (quick) / 1-25 (thorough) random public mutators (setters, composition add/clear, "
                "model add/clear) with observations interleaved; every observation is compared with a scene built from scratch; "
                "non-trivial = more than two operations",
        "distribution": {"fields": len(FIELDS), "data": len(DATA), "probe_rows": len(probe_rows), "histories": n_hist,
                         "observations_compared": n_obs, "history_length_mean": sum(lens) / max(1, len(lens)), "op_mix": op_mix,
                         "model_vs_impl_verdict_disagreements": n_disagree},
        "invalidation_table": inval,
        "tolerance": "observations vs fresh scene: relative 1e-9 of the largest sample per sight line; exception classes compared exactly",
        "partial": ["DEPS is hand-written", "weak-reference death not modelled", "one scene topology (one plasma, one beam, one laser)"],
    })
    ctx.coverage["samples"] = [{"probe_row": probe_rows[0]}, {"history": [list(map(repr, o)) for o in histories[0][2]], "verdicts": histories[0][1]}]
    ctx.grep_gate()
