"""C01 -- Plasma/beam/laser changes never leave stale derived state.

Theorems: coq/Properties/C01.v (every covering invalidation table, every history).
Tie (T): the invalidation table of the real code is extracted by probing the running implementation
         (which derived data does each public setter rebuild?) -> coq/Gen/C01/Table.v, whose lemma
         table_ok : covers ... = true is re-checked by the kernel.
Tie (X): random histories of public mutators interleaved with observations are executed on the real
         objects and compared with scenes built from scratch; the Coq model, run on the same history
         with the extracted table, must predict the same verdict (no stale datum).
Search : the probe rows (3-step histories) and the random histories themselves are the executable
         statement of the property on the implementation.
"""
import os

from common import coqc, coqc_many, parse_evals

THEOREMS = ["C01_history_independent", "C01_order_irrelevant", "C01_step_inv", "C01_stale_report_empty"]

DATA = ["P_material", "X_cache", "R_cache", "T_cache", "BR_cache", "TRP_cache", "A_stopping", "A_density",
        "B_geometry", "B_material", "CX_cache", "BES_cache", "L_geometry", "L_material", "S_arrays", "LP_function"]

# what a from-scratch build of each datum reads (hand-written from the code; see DESIGN.md section 6, C01)
_MODEL_CACHE = ["p_composition", "p_atomic_data", "p_models"]
DEPS = {
    "P_material": ["p_models", "p_atomic_data", "p_integrator", "p_geometry", "p_geometry_transform"],
    "X_cache": _MODEL_CACHE, "R_cache": _MODEL_CACHE, "T_cache": _MODEL_CACHE, "TRP_cache": _MODEL_CACHE,
    "BR_cache": _MODEL_CACHE + ["brems_gaunt"],
    "A_stopping": ["p_composition", "b_atomic_data", "b_element", "b_attenuator", "att_clamp_to_zero", "b_plasma"],
    "A_density": ["p_composition", "b_atomic_data", "b_element", "b_attenuator", "att_clamp_to_zero", "b_plasma",
                  "b_energy", "b_power", "b_length", "att_step", "b_transform", "b_parent", "p_transform", "p_parent",
                  "a_transform", "b_divergence_x", "b_divergence_y"],
    "B_geometry": ["b_sigma", "b_divergence_x", "b_divergence_y", "b_length", "att_clamp_sigma", "b_attenuator",
                   "att_clamp_to_zero", "b_models"],
    "B_material": ["b_models", "b_atomic_data", "b_integrator", "b_plasma"],
    "CX_cache": ["p_composition", "b_atomic_data", "b_element", "cx_line", "b_models"],
    "BES_cache": ["p_composition", "b_atomic_data", "b_element", "b_models"],
    "L_geometry": ["l_profile", "lp_length", "lp_radius"],
    "L_material": ["l_models", "l_integrator", "l_importance", "l_spectrum", "l_profile", "lp_length", "lp_radius",
                   "l_transform", "l_parent", "p_transform", "p_parent", "a_transform"],
    "S_arrays": ["ls_min", "ls_max", "ls_bins", "ls_mean", "ls_stddev", "l_spectrum"],
    "LP_function": ["lp_energy", "l_profile"],
}


def signature(sc, obs):
    """tokens per datum; a datum was rebuilt iff its token changed (objects are kept alive on purpose)"""
    calls, evals = {}, {}
    for _, prov in sc.providers:
        for k, v in prov.calls.items():
            calls[k] = calls.get(k, 0) + v
        for k, v in prov.evals.items():
            evals[k] = evals.get(k, 0) + v
    pg = sc.plasma.geometry
    bch = list(sc.beam.children)
    lg = list(sc.laser.get_geometry())
    spec = sc.laser.laser_spectrum
    prof = sc.laser.laser_profile
    # outcome kinds of the sight lines: a cache whose rebuild now fails (or succeeds again) was discarded
    kinds = tuple(v[0] if v[0] == "ok" else v[1] for l, v in obs if l.startswith("ray"))
    return {
        "P_material": pg.material if pg is not None else None,
        "X_cache": calls.get("impact_excitation_pec", 0), "R_cache": calls.get("recombination_pec", 0),
        "T_cache": calls.get("thermal_cx_pec", 0), "BR_cache": (calls.get("free_free_gaunt_factor", 0), sc.pmodels[3].gaunt_factor),
        "TRP_cache": calls.get("line_radiated_power_rate", 0),
        "A_stopping": calls.get("beam_stopping_rate", 0), "A_density": evals.get("bstop", 0),
        "B_geometry": bch[0] if bch else None, "B_material": bch[0].material if bch else None,
        "CX_cache": (calls.get("beam_cx_pec", 0), kinds), "BES_cache": (calls.get("beam_emission_pec", 0), kinds),
        "L_geometry": tuple(lg), "L_material": tuple(g.material for g in lg),
        "S_arrays": (spec, spec.power_spectral_density), "LP_function": (prof, prof.get_energy_density(0.01, 0.005, 0.3)),
    }


def changed(a, b):
    if isinstance(a, tuple) and isinstance(b, tuple):
        return len(a) != len(b) or any(changed(x, y) for x, y in zip(a, b))
    if isinstance(a, (int, float, str)) and isinstance(b, (int, float, str)):
        return a != b
    return a is not b


def coq_nat_list(xs):
    return "[" + "; ".join(str(int(x)) for x in xs) + "]"


def run(ctx):
    ctx.trusted += [
        "Coq 8.16.1 kernel, vm_compute (no native_compute)",
        "harness/c01_scene.py (scene builder: one plasma + beam + laser with every model kind, stub atomic data, the list of "
        "public mutators and the observations) and harness/c01.py (probe that extracts the invalidation table; hand-written DEPS table)",
        "raysect (scene graph, ray tracing, NumericalIntegrator); observations are compared with a fresh scene under relative 1e-9 of the "
        "largest sample because raysect's accumulation order over overlapping volumes depends on object creation order",
    ]
    ctx.assumptions += [
        "invalidation is per setter and state-independent (checked by the random-history correspondence, not proved)",
        "DEPS (which fields a from-scratch build of each derived datum reads) is hand-written from the code; a missing entry would "
        "be caught only by the implementation-level comparisons (probe rows, histories)",
        "strong references to all models/species are kept (weak-reference death of a registered model is not modelled)",
    ]
    ctx.rebuild()
    ctx.proofs("Properties.C01", THEOREMS)

    import cherab
    from common import REPO
    assert list(cherab.__path__) == [REPO + "/cherab"], cherab.__path__
    import c01_scene as S
    rng = ctx.rng
    FIELDS = S.FIELDS
    fidx = {f: i for i, f in enumerate(FIELDS)}
    didx = {d: i for i, d in enumerate(DATA)}

    # ---- (T) probe: invalidation table + single-step staleness rows ------------------------------------
    base = S.default_config()
    base["p_models"] = (0, 1, 2, 3, 4)
    base["b_models"] = (0, 1)
    alt_list = {"p_models": [(4, 3, 2, 1, 0)], "b_models": [(1, 0)], "l_models": [()], "p_composition": [(0, 4, 2, 3), (0, 1, 2, 3, 5)]}
    # a field whose effect depends on the scene-graph topology is probed in a topology where it matters:
    # the intermediate node is an ancestor of the beam and the laser (not of the plasma)
    probe_base = {"a_transform": {"b_parent": 1, "l_parent": 1, "p_parent": 0}}
    inval = {}
    probe_rows = []
    probe_fail = []
    for f in FIELDS:
        alts = alt_list.get(f) or [v for v in range(len(S.VALUES[f])) if v != base[f]] or [base[f]]
        rebuilt_sets = []
        for v in alts:
            ctx.crumb({"start_config": "default", "history_so_far": [["observe"], ["set", f, repr(v)], ["observe"]]})
            sc = S.Scene(dict(base, **probe_base.get(f, {})))
            sig0 = signature(sc, sc.observe())
            try:
                sc.apply(("set", f, v))
            except Exception as e:    # a supported public mutator must not raise in a valid configuration
                probe_fail.append({"history": [["observe"], ["set", f, v]], "raised": type(e).__name__ + ": " + str(e)[:200]})
                continue
            obs = sc.observe()
            sig1 = signature(sc, obs)
            rebuilt = sorted(d for d in DATA if changed(sig0[d], sig1[d]))
            rebuilt_sets.append(set(rebuilt))
            fresh = S.Scene(sc.cfg).observe()
            diffs = S.same(obs, fresh)
            probe_rows.append({"field": f, "value": repr(v), "rebuilt": rebuilt, "equals_fresh": not diffs})
            if diffs:
                probe_fail.append({"history": [["observe"], ["set", f, repr(v)], ["observe"]], "start_config": "default",
                                   "differs_from_fresh": [list(d) for d in diffs[:3]]})
        inval[f] = sorted(set.intersection(*rebuilt_sets)) if rebuilt_sets else []
    ctx.obligation("probe: every single setter from a fully evaluated scene leaves it equal to a fresh scene (%d rows)" % len(probe_rows),
                   "search", not probe_fail, str(probe_fail[:3]))
    for pf in probe_fail[:4]:
        ctx.violation("c01-probe:" + str(pf["history"][1][1]), "after [observe; set %s; observe] the observation differs from a scene "
                      "built from scratch in the final configuration" % pf["history"][1][1], pf, found=True)

    # ---- Gen/C01/Table.v and its tie lemma -------------------------------------------------------------
    def match_fn(name, rows, n):
        body = " | ".join("%d => %s" % (i, coq_nat_list(r)) for i, r in enumerate(rows))
        return "Definition %s (x : nat) : list nat := match x with %s | _ => [] end.\n" % (name, body)
    deps_rows = [[fidx[f] for f in DEPS[d]] for d in DATA]
    inval_rows = [[didx[d] for d in inval[f]] for f in FIELDS]
    table = ("From Coq Require Import List Arith Bool.\nImport ListNotations.\nRequire Import Cherab.Model.C01_Invalidate.\n"
             "(* generated by harness/c01.py from the running implementation; fields: %s ; data: %s *)\n" % (
                 ", ".join("%d=%s" % (i, f) for i, f in enumerate(FIELDS)), ", ".join("%d=%s" % (i, d) for i, d in enumerate(DATA)))
             + "Definition ndata := %d.\nDefinition nfields := %d.\n" % (len(DATA), len(FIELDS))
             + match_fn("deps", deps_rows, len(DATA)) + match_fn("inval", inval_rows, len(FIELDS))
             + "Definition uncovered : list (nat * nat) :=\n  flat_map (fun d => map (fun f => (d, f)) (filter (fun f => negb (mem d (inval f))) (deps d))) (seq 0 ndata).\n")
    tie = ("Require Import Cherab.Model.C01_Invalidate Cherab.Proofs.C01_Invalidate Cherab.Properties.C01 Table.\n"
           "From Coq Require Import List. Import ListNotations.\n"
           "Lemma table_ok : covers ndata deps inval nfields = true.\nProof. vm_compute. reflexivity. Qed.\n"
           "(* the property theorems instantiated with the table of the current code *)\n"
           "Lemma current_code_history_independent : forall c0 ops, Forall (fun p => fst p = snd p) (run ndata deps inval (init c0) ops).\n"
           "Proof. exact (C01_history_independent ndata deps inval nfields table_ok). Qed.\n")
    ctx.write_gen("Table.v", table)
    ctx.write_gen("Tie.v", tie)
    ctx.write_gen("Uncovered.v", "Require Import Cherab.Model.C01_Invalidate Table.\nEval vm_compute in uncovered.\n")
    import subprocess
    from common import COQ
    def coqc_gen(name):
        p = subprocess.run(["coqc", "-Q", COQ, "Cherab", "-Q", ctx.gen, "", name], cwd=ctx.gen, stdout=subprocess.PIPE,
                           stderr=subprocess.STDOUT, text=True, timeout=600)
        return p.returncode == 0, p.stdout
    ok, out = coqc_gen("Table.v")
    if not ok:
        ctx.broken.append("Gen/C01/Table.v does not compile: " + out[-500:])
    ok, out = coqc_gen("Tie.v")
    uncovered_txt = ""
    if not ok:
        ok2, out2 = coqc_gen("Uncovered.v")
        uncovered_txt = " ".join(parse_evals(out2)) if ok2 else out2[-300:]
    ctx.obligation("Gen/C01/Tie.v: table_ok (covers extracted_inval deps = true) and instantiated theorem", "tie", ok,
                   (out[-600:] + "\nuncovered (datum, field) pairs: " + uncovered_txt) if not ok else "")
    uncovered_pairs = []
    if not ok:
        for d in DATA:
            for f in DEPS[d]:
                if d not in inval[f]:
                    uncovered_pairs.append((d, f))

    # ---- (X) random histories on the implementation and in the model ---------------------------------------
    n_hist = 60 if ctx.quick else 1500
    histories = []
    impl_fail = []
    op_mix = {}
    n_obs = 0
    lens = []
    for h in range(n_hist):
        cfg = S.default_config()
        for f in FIELDS:
            if rng.random() < 0.3:
                cfg[f] = rng.choice(S.VALUES[f]) if f in S.LIST_FIELDS else rng.randrange(len(S.VALUES[f]))
        start = dict(cfg)
        sc = S.Scene(cfg)
        ops, model_ops, verdicts = [], [], []
        n = rng.randint(1, 14) if ctx.quick else rng.randint(1, 25)
        lens.append(n)
        aborted = False

        def observe_and_compare():
            obs = sc.observe()
            fresh = S.Scene(sc.cfg).observe()
            d = S.same(obs, fresh)
            verdicts.append(not d)
            ops.append(("observe",))
            model_ops.append("Observe")
            if d:
                impl_fail.append({"start_config": {k: repr(v) for k, v in start.items()}, "history": [list(map(repr, o)) for o in ops],
                                  "differs_from_fresh": [list(x) for x in d[:3]]})
        for k in range(n):
            if rng.random() < 0.3:
                observe_and_compare()
            op = S.random_op(rng, sc.cfg)
            op_mix[op[0] if op[0] != "set" else "set:" + op[1].split("_")[0]] = op_mix.get(op[0] if op[0] != "set" else "set:" + op[1].split("_")[0], 0) + 1
            ops.append(op)
            ctx.crumb({"start_config": {k2: repr(v) for k2, v in start.items()}, "history_so_far": [list(map(repr, o)) for o in ops],
                       "then": "observe"})
            fld = {"comp_add": "p_composition", "comp_clear": "p_composition"}.get(op[0]) or (op[1] if op[0] in ("models_add", "models_clear", "set") else None)
            model_ops.append("Set_ %d" % fidx[fld])
            try:
                sc.apply(op)
            except Exception as e:
                impl_fail.append({"start_config": {k2: repr(v) for k2, v in start.items()}, "history": [list(map(repr, o)) for o in ops],
                                  "raised": type(e).__name__ + ": " + str(e)[:200]})
                aborted = True
                break
        if not aborted:
            observe_and_compare()
        n_obs += len(verdicts)
        histories.append((model_ops, verdicts, ops))
    ctx.obligation("executable property on the implementation: %d histories, %d observations compared with fresh scenes" % (n_hist, n_obs),
                   "search", not impl_fail, str(impl_fail[:2]))
    for pf in impl_fail[:3]:
        ctx.violation("c01-history:" + str(pf["history"][-2] if len(pf["history"]) > 1 else pf["history"][-1])[:60],
                      "a history of public mutators ends in a state whose observation differs from a scene built from scratch", pf, found=True)

    # model verdicts for the same histories (evaluated by Coq with the extracted table)
    files = []
    for si in range(0, len(histories), 200):
        chunk = histories[si:si + 200]
        txt = ("Require Import Cherab.Model.C01_Invalidate Table.\nFrom Coq Require Import List Arith Bool. Import ListNotations.\n"
               "Definition verdict (ops : list op) : list bool := map (fun l => match l with [] => true | _ => false end) "
               "(stale_report ndata deps inval (fun _ => 0) ops).\n"
               "Definition expected : list (list op * list bool) := [\n  " +
               ";\n  ".join("([%s], [%s])" % ("; ".join(m), "; ".join("true" if v else "false" for v in vd)) for m, vd, _ in chunk) + "].\n"
               "Definition beq_list (a b : list bool) : bool := (length a =? length b)%nat && forallb (fun p => Bool.eqb (fst p) (snd p)) (combine a b).\n"
               "Eval vm_compute in (map (fun p => beq_list (verdict (fst p)) (snd p)) expected).\n")
        name = "cases_%03d.v" % (si // 200)
        ctx.write_gen(name, txt)
        files.append((name, chunk))
    n_disagree = 0
    for name, chunk in files:
        ok, out = coqc_gen(name)
        vals = parse_evals(out) if ok else []
        good = ok and len(vals) == 1
        flags = [t.strip() for t in vals[0].strip("[]").split(";")] if good else []
        bad = [i for i, t in enumerate(flags) if t != "true"]
        n_disagree += len(bad)
        ctx.obligation("correspondence %s: model verdict (stale or not) equals implementation verdict on %d histories" % (name, len(chunk)),
                       "correspondence", good and not bad and len(flags) == len(chunk), out[-400:] if not good else "disagree at %s" % bad[:5])
        if not good:
            ctx.broken.append("coqc failed on %s: %s" % (name, out[-400:]))
    if uncovered_pairs and not impl_fail and not probe_fail:
        ctx.violation("c01-uncovered:" + ",".join("%s<-%s" % p for p in uncovered_pairs[:3]),
                      "the setters of %s no longer rebuild %s (which is built from them); no history with a differing observation was found"
                      % (sorted({p[1] for p in uncovered_pairs}), sorted({p[0] for p in uncovered_pairs})),
                      {"uncovered": uncovered_pairs, "tie": "coq/Gen/C01/Tie.v: table_ok"}, found=False)

    ctx.coverage.update({
        "evaluations": len(probe_rows) + n_hist,
        "distinct_nontrivial": len({tuple(map(repr, h[2])) for h in histories if len(h[2]) > 2}) + len(probe_rows),
        "rule": "probe rows: [observe; set f v; observe] from the default configuration for every field f and every alternative value; "
                "histories: random start configuration, 1-14 (quick) / 1-25 (thorough) random public mutators (setters, composition add/clear, "
                "model add/clear) with observations interleaved; every observation is compared with a scene built from scratch; "
                "non-trivial = more than two operations",
        "distribution": {"fields": len(FIELDS), "data": len(DATA), "probe_rows": len(probe_rows), "histories": n_hist,
                         "observations_compared": n_obs, "history_length_mean": sum(lens) / max(1, len(lens)), "op_mix": op_mix,
                         "model_vs_impl_verdict_disagreements": n_disagree},
        "invalidation_table": inval,
        "tolerance": "observations vs fresh scene: relative 1e-9 of the largest sample per sight line; exception classes compared exactly",
        "partial": ["DEPS is hand-written", "weak-reference death not modelled", "one scene topology (one plasma, one beam, one laser)"],
    })
    ctx.coverage["samples"] = [{"probe_row": probe_rows[0]}, {"history": [list(map(repr, o)) for o in histories[0][2]], "verdicts": histories[0][1]}]
    ctx.grep_gate()
