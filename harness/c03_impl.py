"""C03 -- running the real passive emission models of cherab on stub plasmas / stub atomic data.

The stub provider is the Python twin of `stub_provider` in coq/Model/C03_Check.v: the value of a
rate depends on every argument of the accessor call and of the evaluate() call, so a wrong species,
charge, donor or argument order changes the radiance.  Everything the implementation does is
observed from outside: accessor calls, evaluate() arguments, the species handed to the line shape,
the radiance handed to LineShapeModel.add_line, the spectrum samples.
"""
import ast
import math
import random

import numpy as np
import os
import re
from fractions import Fraction

from raysect.core import Point3D, Vector3D, AffineMatrix3D
from raysect.optical import Spectrum, Ray, World

from cherab.core import Plasma, Species
from cherab.core.distribution import DistributionFunction
from cherab.core.atomic import (Line, AtomicData, ImpactExcitationPEC, RecombinationPEC, ThermalCXPEC,
                                LineRadiationPower, ContinuumPower, CXRadiationPower, FreeFreeGauntFactor)
from cherab.core.atomic import hydrogen, deuterium, tritium, helium, carbon, nitrogen, neon, argon
from cherab.core.model import ExcitationLine, RecombinationLine, ThermalCXLine, TotalRadiatedPower, Bremsstrahlung
from cherab.core.model.lineshape import LineShapeModel, GaussianLine
from cherab.core.model.plasma.bremsstrahlung import BremsFunction
from cherab.core.math.integrators import GaussianQuadrature
from cherab.tools.emitters import RadiationFunction

ELEMS = [hydrogen, deuterium, tritium, helium, carbon, nitrogen, neon, argon]
HYD = [0, 1, 2]                    # ids of (hydrogen, deuterium, tritium), the order of total_radiated_power.pyx
TRANS = [(2, 1), (3, 2), (3, 1), (4, 2), (5, 4), (8, 7)]
WAVELENGTH = 500.0


def eid(element):
    for i, e in enumerate(ELEMS):
        if e is element:
            return i
    raise KeyError(element)


def znum(i):
    return ELEMS[i].atomic_number


def base(salt, kind, a, b, c, d, e):
    return (1 + (salt + 7 * kind + 13 * a + 31 * b + 3 * c + 17 * d + 5 * e) % 64) / 64


def as_form(v, form):
    """the same number handed over as another valid Python/NumPy scalar type (only when the value is unchanged)"""
    if form == "int" and float(v).is_integer() and abs(v) < 2.0 ** 53 and not (v == 0 and math.copysign(1, v) < 0):
        return int(v)
    if form == "np64":
        return np.float64(v)
    if form == "np32":
        with np.errstate(over="ignore"):
            v32 = np.float32(v)
        if float(v32) == v:
            return v32
    return v


class Dist(DistributionFunction):
    """a spatially varying profile: table[k] = (density, temperature) at the point x = k"""
    def __init__(self, table, tag=None, log=None, form="float"):
        super().__init__()
        self.table, self.tag, self.log, self.form = table, tag, log, form

    def density(self, x, y, z):
        return as_form(self.table[int(round(x))][0], self.form)

    def effective_temperature(self, x, y, z):
        if self.log is not None and self.tag is not None:
            self.log["tsamp"].append(list(self.tag))      # which ion species had its temperature sampled
        return as_form(self.table[int(round(x))][1], self.form)

    def bulk_velocity(self, x, y, z):
        return Vector3D(0, 0, 0)


def _mk_rate2(cls):
    class R(cls):
        def __init__(self, cfg, log, kind, e, c, t, tag):
            self.cfg, self.log, self.b, self.tag = cfg, log, base(cfg["salt"], kind, e, c, t, 0, 0), tag

        def evaluate(self, ne, te):
            self.log["evals"].append(self.tag + [ne, te])
            g = self.cfg
            return as_form(g["sgn"] * self.b * (1 + g["cn"] * ne + g["ct"] * te), g.get("rate_form", "float"))
    return R


RateExc, RateRec = _mk_rate2(ImpactExcitationPEC), _mk_rate2(RecombinationPEC)
RatePlt, RatePrb, RatePrc = _mk_rate2(LineRadiationPower), _mk_rate2(ContinuumPower), _mk_rate2(CXRadiationPower)


class RateTcx(ThermalCXPEC):
    def __init__(self, cfg, log, de, dc, re_, rc, t):
        self.cfg, self.log, self.b, self.tag = cfg, log, base(cfg["salt"], 3, de, dc, re_, rc, t), [de, dc]

    def evaluate(self, ne, te, td):
        self.log["evals"].append(self.tag + [ne, te, td])
        g = self.cfg
        return g["sgn"] * self.b * (1 + g["cn"] * ne + g["ct"] * te + g["cd"] * td * td)


class GauntStub(FreeFreeGauntFactor):
    def __init__(self, g, log):
        self.g, self.log = g, log

    def evaluate(self, z, te, wvl):
        self.log["gaunt"].append((z, te))
        g0, g1, g2, g3 = self.g
        return g0 + g1 * z + g2 * wvl + g3 * te


class StubData(AtomicData):
    def __init__(self, cfg, log, gaunt=None):
        self.cfg, self.log, self._gaunt = cfg, log, gaunt

    def wavelength(self, ion, charge, transition):
        return WAVELENGTH

    def impact_excitation_pec(self, ion, charge, transition):
        e, t = eid(ion), TRANS.index(transition)
        self.log["calls"].append([1, e, charge, t])
        return RateExc(self.cfg, self.log, 1, e, charge, t, [])

    def recombination_pec(self, ion, charge, transition):
        e, t = eid(ion), TRANS.index(transition)
        self.log["calls"].append([2, e, charge, t])
        return RateRec(self.cfg, self.log, 2, e, charge, t, [])

    def thermal_cx_pec(self, donor_ion, donor_charge, receiver_ion, receiver_charge, transition):
        de, re_, t = eid(donor_ion), eid(receiver_ion), TRANS.index(transition)
        self.log["calls"].append([3, de, donor_charge, re_, receiver_charge, t])
        return RateTcx(self.cfg, self.log, de, donor_charge, re_, receiver_charge, t)

    def _power(self, cls, bit, kind, element, charge):
        e = eid(element)
        self.log["calls"].append([kind, e, charge])
        if (self.cfg["missing"] >> bit) & 1:
            return None
        return cls(self.cfg, self.log, kind, e, charge, 0, [kind])

    def line_radiated_power_rate(self, element, charge):
        return self._power(RatePlt, 0, 4, element, charge)

    def continuum_radiated_power_rate(self, element, charge):
        return self._power(RatePrb, 1, 5, element, charge)

    def cx_radiated_power_rate(self, element, charge):
        return self._power(RatePrc, 2, 6, element, charge)

    def free_free_gaunt_factor(self):
        self.log["calls"].append([7])
        return self._gaunt


def make_shape(log):
    class RecordingShape(LineShapeModel):
        def __init__(self, line, wavelength, target_species, plasma, atomic_data, *args, **kwargs):
            super().__init__(line, wavelength, target_species, plasma, atomic_data)
            log["shape_args"][:] = [list(args), sorted(kwargs.items())]
            self._tgt = [eid(target_species.element), target_species.charge]
            log["target"][:] = self._tgt

        def add_line(self, radiance, point, direction, spectrum):
            log["radiance"].append(radiance)
            log["shape_target"][:] = self._tgt
            return spectrum
    return RecordingShape


DIRECTION = Vector3D(0, 0, 1)
LINE_CLASSES = {1: ExcitationLine, 2: RecombinationLine, 3: ThermalCXLine}


def point(k):
    return Point3D(float(k), -0.5, 0.125)


def new_log():
    return {"calls": [], "evals": [], "target": [], "shape_target": [], "radiance": [], "gaunt": [], "tsamp": [], "shape_args": [], "notified": []}


def reset_log(log):
    for v in log.values():
        del v[:]


FORMS = ["float", "float", "int", "np64", "np32"]


class SeqPlasma:
    """One Plasma for a sequence of evaluation points (steps).  Step k is the point x = k; every species has a
    profile over the points.  The composition is re-set (with change notification) only where the list of
    (element, charge) keys (or the duplicate-entry marker) differs from the previous step's.
    step['dup'] = (q, n, t): the species list handed to Composition.set carries a second entry for the key of comp[q]
    at position q (density n, temperature t) and the real entry at the end: Composition keeps the position of the
    first and the value of the last, so the effective composition is comp."""
    def __init__(self, steps, log=None):
        self.steps, self.log, self.keys = steps, log, None
        self.frng = random.Random(steps[0].get("form_seed", 0))
        self.pl = Plasma()
        self.set_electrons()

    def set_electrons(self):
        self.pl.electron_distribution = Dist({k: (s["ne"], s["te"]) for k, s in enumerate(self.steps)},
                                             form=self.frng.choice(FORMS))

    @staticmethod
    def keys_of(step):
        return [(e, c) for (e, c, _, _) in step["comp"]] + [("dup", step.get("dup"))]

    def goto(self, k):
        """returns True when the composition was (re)set for this step"""
        keys = self.keys_of(self.steps[k])
        if keys == self.keys:
            return False
        j = k
        while j < len(self.steps) and self.keys_of(self.steps[j]) == keys:
            j += 1
        species = []
        for i, (e, c) in enumerate(keys[:-1]):
            table = {m: (self.steps[m]["comp"][i][2], self.steps[m]["comp"][i][3]) for m in range(k, j)}
            species.append(Species(ELEMS[e], c, Dist(table, (e, c), self.log, self.frng.choice(FORMS))))
        dup = self.steps[k].get("dup")
        if dup and species:
            q, dn, dt = dup
            q = min(q, len(species) - 1)
            real = species[q]
            species[q] = Species(real.element, real.charge, Dist({m: (dn, dt) for m in range(k, j)}, None, None))
            species.append(real)
        self.pl.composition.set(species)
        self.keys = keys
        return True


class Instance:
    """one emission model attached to one plasma, by the constructor ('ctor') or through plasma.models ('manager');
    in the second case emission is observed through the alternative entry point PlasmaMaterial.emission_function"""
    def __init__(self, sp, ad, route, build):
        self.sp, self.ad, self.route = sp, ad, route
        if route == "manager":
            from raysect.primitive import Sphere
            self.model = build(None, None)
            sp.pl.geometry = Sphere(100.0)
            sp.pl.atomic_data = ad
            sp.pl.models = [self.model]
        else:
            sp.pl.atomic_data = ad
            self.model = build(sp.pl, ad)

    def emission(self, k, spectrum):
        if self.route == "manager":
            mat = self.sp.pl.geometry.material
            return mat.emission_function(point(k), DIRECTION, spectrum, World(), Ray(), self.sp.pl.geometry,
                                         AffineMatrix3D(), AffineMatrix3D())
        return self.model.emission(point(k), DIRECTION, spectrum)

    def apply(self, op, new_ad=None):
        """a public mutation route between two evaluations; returns True when the model must re-populate its cache"""
        if op == "ad_new":
            self.ad = new_ad
            if self.route == "manager":
                self.sp.pl.atomic_data = new_ad
            else:
                self.model.atomic_data = new_ad
            return True
        if op == "ad_same":
            self.model.atomic_data = self.ad
            return True
        if op == "plasma_same":
            self.model.plasma = self.sp.pl
            return True
        if op == "edist":
            self.sp.set_electrons()
            return True
        if op == "models_reset" and self.route == "manager":
            self.sp.pl.models = [self.model]
            return True
        return False


def charge_arg(c, form):
    if form == "np_int":
        return np.int64(c)
    if form == "bool" and c in (0, 1):
        return bool(c)
    return c


def copy_log(log):
    return {k: [list(x) if isinstance(x, list) else x for x in v] for k, v in log.items()}


def step_op(inst, step, k, log, gaunt=None):
    """apply the mutation recorded for step k (k >= 1); returns True when the cache has to be re-populated"""
    op = step.get("op", "none") if k else "none"
    if op == "ad_new":
        return inst.apply(op, StubData(step["cfg"], log, gaunt=gaunt))
    return inst.apply(op)


def run_line_seq(steps, lineshape=None, window=(400.0, 600.0, 4)):
    """steps: single-point cases (kind, line identical; cfg, ne, te, comp per point) evaluated in order on ONE model
    instance attached to ONE plasma, with the public mutation step['op'] applied before the evaluation.  Returns one
    observation per step; obs['fresh'] says whether the model had to populate its cache at that step (first step,
    composition re-set, a mutation that notifies the model, or the previous populate failed)."""
    log = new_log()
    first = steps[0]
    e, c, t = first["line"]
    sp = SeqPlasma(steps, log if lineshape is None else None)
    shape = lineshape or make_shape(log)
    kw = {}
    if lineshape is None and first.get("shape_args"):
        kw = {"lineshape_args": list(first["shape_args"][0]), "lineshape_kwargs": dict(first["shape_args"][1])}
    line = Line(ELEMS[e], charge_arg(c, first.get("charge_form")), TRANS[t])
    inst = Instance(sp, StubData(first["cfg"], log), first.get("route", "ctor"),
                    lambda pl, ad: LINE_CLASSES[first["kind"]](line, plasma=pl, atomic_data=ad, lineshape=shape, **kw))
    out, must_populate = [], True
    for k, step in enumerate(steps):
        changed = sp.goto(k)
        notified = step_op(inst, step, k, log) or changed
        fresh = notified or must_populate
        reset_log(log)
        log["notified"].append(bool(notified))
        spec = Spectrum(*window)
        try:
            out_sp = inst.emission(k, spec)
        except RuntimeError:
            out.append(dict(copy_log(log), out="ErrRuntime", samples=[], fresh=fresh))
            must_populate = True
            continue
        except ValueError:
            out.append(dict(copy_log(log), out="ErrValue", samples=[], fresh=fresh))
            must_populate = True
            continue
        must_populate = False
        samples = [float(v) for v in out_sp.samples]
        o = copy_log(log)
        if not fresh:
            o["target"] = o["shape_target"]          # the line shape in use reports its target when it is handed a line
        if lineshape is not None:
            out.append(dict(o, out="Spectrum", samples=samples, delta=out_sp.delta_wavelength, fresh=fresh))
            continue
        if len(log["radiance"]) > 1:
            raise AssertionError("add_line called %d times" % len(log["radiance"]))
        if any(v != 0.0 for v in samples):
            raise AssertionError("the model wrote to the spectrum outside the line shape")
        out.append(dict(o, out=("Emit", log["radiance"][0]) if log["radiance"] else "Skip", samples=samples, fresh=fresh))
    return out


def run_line(case, lineshape=None, window=(400.0, 600.0, 4)):
    return run_line_seq([dict(case, op="none")], lineshape, window)[0]


def run_total_seq(steps):
    """steps: elem, charge identical; cfg, window, ne, te, comp per point"""
    log = new_log()
    first = steps[0]
    sp = SeqPlasma(steps, log)
    try:
        inst = Instance(sp, StubData(first["cfg"], log), first.get("route", "ctor"),
                        lambda pl, ad: TotalRadiatedPower(ELEMS[first["elem"]], charge_arg(first["charge"], first.get("charge_form")),
                                                          plasma=pl, atomic_data=ad))
    except ValueError:
        return [dict(copy_log(log), out="ErrValue", samples=[], fresh=True, notified=[False]) for _ in steps]
    out, must_populate = [], True
    for k, case in enumerate(steps):
        changed = sp.goto(k)
        notified = step_op(inst, case, k, log) or changed
        fresh = notified or must_populate
        reset_log(log)
        log["notified"].append(bool(notified))
        spec = Spectrum(case["minw"], case["maxw"], case["bins"])
        try:
            out_sp = inst.emission(k, spec)
        except RuntimeError:
            out.append(dict(copy_log(log), out="ErrRuntime", samples=[], fresh=fresh))
            must_populate = True
            continue
        must_populate = False
        samples = [float(v) for v in out_sp.samples]
        touched = bool(log["evals"]) or any(v != 0.0 for v in samples)
        # an early return and an emission of exactly zero leave the same spectrum: only "Skip or zero" can be observed
        o = dict(copy_log(log), out=("Emit", samples[0]) if touched else "SkipOrZero", samples=samples, fresh=fresh)
        o["rebased"] = second_call(inst, k, case)
        out.append(o)
    return out


def run_total(case):
    return run_total_seq([dict(case, op="none")])[0]


def array_form(vals, form):
    """the same numbers as another array-like the public API accepts (or documents a rejection for)"""
    vals = [float(v) for v in vals]
    if form == "tuple":
        return tuple(vals)
    if form == "int" and all(v.is_integer() and abs(v) < 2.0 ** 53 for v in vals):
        return [int(v) for v in vals]
    if form == "np_int" and vals and all(v.is_integer() and abs(v) < 2.0 ** 53 for v in vals):
        return np.array([int(v) for v in vals], dtype=np.int64)
    if form == "np32":
        with np.errstate(over="ignore"):
            a32 = np.array(vals, dtype=np.float32)
        if all(float(x) == v for x, v in zip(a32, vals)):
            return a32
    if form == "np64":
        return np.array(vals, dtype=np.float64)
    if form == "readonly":
        a = np.array(vals, dtype=np.float64)
        a.flags.writeable = False
        return a
    if form == "noncontig" and len(vals) >= 2:
        a = np.zeros(2 * len(vals))
        a[::2] = vals
        return a[::2]
    return vals


def run_bremsfn(case):
    """case: gaunt=(g0..g3), ne, te, zs=[(z, n)...], wvl, forms=(density form, charge form)"""
    log = new_log()
    fd, fz = case.get("forms", ("list", "list"))
    dens, chg = array_form([n for _, n in case["zs"]], fd), array_form([z for z, _ in case["zs"]], fz)
    rejected = [isinstance(a, np.ndarray) and a.dtype == np.float64 and (not a.flags.writeable or not a.flags.c_contiguous)
                for a in (dens, chg)]
    try:
        f = BremsFunction(GauntStub(case["gaunt"], log), dens, chg, as_form(case["ne"], case.get("scalar_form", "float")),
                          as_form(case["te"], case.get("scalar_form", "float")))
    except ValueError:
        return {"value": None, "rejected": True, "expected_rejection": any(rejected), "gaunt": []}
    return {"value": float(f(case["wvl"])), "rejected": False, "expected_rejection": any(rejected), "gaunt": log["gaunt"]}


def second_call(inst, k, case):
    """the same instance at the same point once more, into a spectrum that already holds case['baseline'] in every bin:
    returns (baseline, samples) or None"""
    if case.get("baseline") is None:
        return None
    spec = Spectrum(case["minw"], case["maxw"], case["bins"])
    spec.samples[:] = case["baseline"]
    out_sp = inst.emission(k, spec)
    return (case["baseline"], [float(v) for v in out_sp.samples])


def make_integrator(tight):
    return GaussianQuadrature(relative_tolerance=1e-13) if tight else GaussianQuadrature()


def run_brems_seq(steps):
    """steps: ne, te, comp, window, gaunt, tight, via_provider per point; ONE Bremsstrahlung instance (its BremsFunction
    caches the charge and density arrays between calls).  Ops: gaunt_user / gaunt_none (gaunt_factor setter in both
    directions), integrator (setter), and the generic ones."""
    log = new_log()
    first = steps[0]
    sp = SeqPlasma(steps, None)
    provider_gaunt = GauntStub(first["gaunt"], log)
    ad = StubData({"salt": 0, "sgn": 1.0, "cn": 0.0, "ct": 0.0, "cd": 0.0, "missing": 0}, log, gaunt=provider_gaunt)
    kw = {}
    if first.get("integrator_by", "ctor") == "ctor":
        kw["integrator"] = make_integrator(first["tight"])
    if not first["via_provider"]:
        kw["gaunt_factor"] = GauntStub(first["gaunt"], log)
    inst = Instance(sp, ad, first.get("route", "ctor"), lambda pl, a: Bremsstrahlung(plasma=pl, atomic_data=a, **kw))
    if "integrator" not in kw:
        inst.model.integrator = make_integrator(first["tight"])
    out, must_populate = [], True
    for k, case in enumerate(steps):
        changed = sp.goto(k)
        op = case.get("op", "none") if k else "none"
        muted = False
        if op == "gaunt_user":
            inst.model.gaunt_factor = GauntStub(case["gaunt"], log)
            muted = True
        elif op == "gaunt_none":
            provider_gaunt.g = case["gaunt"]
            inst.model.gaunt_factor = None
            muted = True
        elif op == "integrator":
            inst.model.integrator = make_integrator(case["tight"])
        else:
            muted = inst.apply(op)
        fresh = muted or changed or must_populate
        opcode = 2 if op == "gaunt_user" else 3 if op == "gaunt_none" else 1 if (muted or changed) else 0
        must_populate = False
        reset_log(log)
        spec = Spectrum(case["minw"], case["maxw"], case["bins"])
        out_sp = inst.emission(k, spec)
        o = {"samples": [float(v) for v in out_sp.samples], "gaunt_z": sorted({z for z, _ in log["gaunt"]}),
             "gaunt_te": sorted({t for _, t in log["gaunt"]}), "calls": [list(c) for c in log["calls"]], "fresh": fresh,
             "gaunt_is_set": inst.model.gaunt_factor is not None, "opcode": opcode,
             "user_at_start": not first["via_provider"]}
        o["rebased"] = second_call(inst, k, case)
        out.append(o)
    return out


def run_brems(case):
    return run_brems_seq([dict(case, op="none")])[0]


def run_radfn(case):
    """case: phi, minw, maxw, bins"""
    form = case.get("form", "callable")
    if form == "number":
        rf = RadiationFunction(case["phi"])
    elif form == "constant3d":
        from cherab.core.math import Constant3D
        rf = RadiationFunction(Constant3D(case["phi"]))
    else:
        rf = RadiationFunction(lambda x, y, z: case["phi"])
    ray = Ray(origin=Point3D(0, 0, 0), direction=DIRECTION, min_wavelength=case["minw"], max_wavelength=case["maxw"],
              bins=case["bins"])
    sp = ray.new_spectrum()
    out = rf.emission_function(point(0), DIRECTION, sp, World(), ray, None, AffineMatrix3D(), AffineMatrix3D())
    res = {"samples": [float(v) for v in out.samples], "rebased": None}
    if case.get("baseline") is not None:
        sp2 = ray.new_spectrum()
        sp2.samples[:] = case["baseline"]
        out2 = rf.emission_function(point(0), DIRECTION, sp2, World(), ray, None, AffineMatrix3D(), AffineMatrix3D())
        res["rebased"] = (case["baseline"], [float(v) for v in out2.samples])
    return res


# ---------------------------------------------------------------------------------------------------
# the provider's Gaunt factor (cherab/core/atomic/gaunt.pyx)
# ---------------------------------------------------------------------------------------------------
_MAXWELLIAN = {}


def gaunt_tables(case):
    if case["table"] == "maxwellian":
        if not _MAXWELLIAN:
            from cherab.core.atomic.gaunt import MaxwellianFreeFreeGauntFactor
            m = MaxwellianFreeFreeGauntFactor()
            _MAXWELLIAN.update(obj=m, u=np.array(m.raw_data["u"]), g2=np.array(m.raw_data["gamma2"]),
                               tab=np.array(m.raw_data["gaunt_factor"]))
        return _MAXWELLIAN["obj"], _MAXWELLIAN["u"], _MAXWELLIAN["g2"], _MAXWELLIAN["tab"]
    from cherab.core.atomic.gaunt import InterpolatedFreeFreeGauntFactor
    u, g2, tab = np.array(case["ugrid"]), np.array(case["g2grid"]), np.array(case["values"])
    return InterpolatedFreeFreeGauntFactor(case["ugrid"], case["g2grid"], case["values"]), u, g2, tab


def run_gaunt(case, consts):
    """case: table ('maxwellian' | custom grids), z, te, wvl, entry ('call' | 'evaluate').  Returns the value, the doubles u
    and gamma2 recomputed with the operations of gaunt.pyx, log(4/u) and the value of a twin raysect interpolator."""
    from raysect.core.math.function.float import Interpolator2DArray
    obj, u, g2, tab = gaunt_tables(case)
    z, te, wvl = case["z"], case["te"], case["wvl"]
    ph = consts["PLANCK_CONSTANT"] * consts["SPEED_OF_LIGHT"] * 1e9 / consts["ELEMENTARY_CHARGE"]
    g2_d = z * z * consts["RYDBERG_CONSTANT_EV"] / te
    u_d = ph / (te * wvl)
    umin, umax, g2min, g2max = float(u.min()), float(u.max()), float(g2.min()), float(g2.max())
    out = {"u_d": u_d, "g2_d": g2_d, "bounds": (umin, umax, g2min, g2max), "ln4u": math.log(4 / u_d), "interp": 0.0,
           "range": (tuple(obj.u_range), tuple(obj.gamma2_range))}
    if z != 0 and not (u_d >= umax or g2_d >= g2max) and not (u_d < umin or g2_d < g2min):
        twin = Interpolator2DArray(np.log10(u), np.log10(g2), tab, 'cubic', 'none', 0, 0)
        try:
            out["interp"] = float(twin(math.log10(u_d), math.log10(g2_d)))
        except ValueError as exc:
            out["twin_error"] = str(exc)
    try:
        out["value"] = float(obj(z, te, wvl) if case["entry"] == "call" else obj.evaluate(z, te, wvl))
    except ValueError as exc:
        out["error"] = str(exc)
    return out


def second_order_probes():
    """call sites of the anchored files that the emission path does not reach; returns (number of probes, failures)"""
    from cherab.core.atomic.gaunt import FreeFreeGauntFactor
    fails, n = [], 0

    def expect(name, fn, exc=None, check=None):
        nonlocal n
        n += 1
        try:
            r = fn()
        except Exception as e:          # noqa: the kind of the exception IS the observation
            if exc is None or not isinstance(e, exc):
                fails.append({"claim": name, "observed": "%s: %s" % (type(e).__name__, str(e)[:120])})
            return
        if exc is not None:
            fails.append({"claim": name, "observed": "no exception, returned %r" % (r,)})
        elif check is not None and not check(r):
            fails.append({"claim": name, "observed": repr(r)[:200]})

    log = new_log()
    line = Line(carbon, 3, (3, 2))
    spec = lambda: Spectrum(400.0, 600.0, 3)
    for cls in (ExcitationLine, RecombinationLine, ThermalCXLine):
        expect("%s: emission without a plasma is a RuntimeError" % cls.__name__, lambda: cls(line).emission(point(0), DIRECTION, spec()), RuntimeError)
        expect("%s: emission without atomic data is a RuntimeError" % cls.__name__,
               lambda: cls(line, plasma=SeqPlasma([{"ne": 1.0, "te": 1.0, "comp": []}]).pl).emission(point(0), DIRECTION, spec()), RuntimeError)
        expect("%s: a line shape that is not a LineShapeModel is a TypeError" % cls.__name__, lambda: cls(line, lineshape=int), TypeError)
        expect("%s: default line shape is accepted" % cls.__name__, lambda: cls(line, lineshape=None) is not None, None, bool)
        expect("%s: repr names element, charge and transition" % cls.__name__, lambda: repr(cls(line)), None,
               lambda r: "carbon" in r and "3" in r and "(3, 2)" in r)
    expect("TotalRadiatedPower: emission without a plasma is a RuntimeError",
           lambda: TotalRadiatedPower(carbon, 3).emission(point(0), DIRECTION, spec()), RuntimeError)
    expect("TotalRadiatedPower: emission without atomic data is a RuntimeError",
           lambda: TotalRadiatedPower(carbon, 3, plasma=SeqPlasma([{"ne": 1.0, "te": 1.0, "comp": []}]).pl).emission(point(0), DIRECTION, spec()),
           RuntimeError)
    for ch in (-1, 6, 7):
        expect("TotalRadiatedPower: charge %d of carbon is a ValueError" % ch, lambda: TotalRadiatedPower(carbon, ch), ValueError)
    expect("Bremsstrahlung: emission without a plasma is a RuntimeError", lambda: Bremsstrahlung().emission(point(0), DIRECTION, spec()), RuntimeError)
    expect("Bremsstrahlung: no Gaunt factor and no atomic data is a RuntimeError",
           lambda: Bremsstrahlung(plasma=SeqPlasma([{"ne": 1.0, "te": 1.0, "comp": []}]).pl).emission(point(0), DIRECTION, spec()), RuntimeError)
    expect("Bremsstrahlung: integrator = None is a TypeError", lambda: setattr(Bremsstrahlung(), "integrator", None), TypeError)
    gs = GauntStub((1.0, 0.0, 0.0, 0.0), log)
    b = Bremsstrahlung(gaunt_factor=gs)
    expect("Bremsstrahlung: gaunt_factor getter returns what was set", lambda: b.gaunt_factor is gs, None, bool)
    integ = GaussianQuadrature(relative_tolerance=1e-7)
    b.integrator = integ
    expect("Bremsstrahlung: integrator getter returns what was set", lambda: b.integrator is integ, None, bool)
    expect("Bremsstrahlung: default integrator is a GaussianQuadrature", lambda: isinstance(Bremsstrahlung().integrator, GaussianQuadrature), None, bool)
    b.gaunt_factor = None
    expect("Bremsstrahlung: gaunt_factor reset to None reads back None", lambda: b.gaunt_factor is None, None, bool)
    for ne, te in ((0.0, 1.0), (-0.0, 1.0), (-1.0, 1.0), (1.0, 0.0), (1.0, -0.0), (1.0, -5e-324)):
        expect("BremsFunction(ne=%r, te=%r) is a ValueError" % (ne, te), lambda: BremsFunction(gs, [1.0], [1.0], ne, te), ValueError)
    for ne, te in ((5e-324, 1.0), (1.0, 5e-324), (2.0 ** 60, 2.0 ** 60)):
        expect("BremsFunction(ne=%r, te=%r) is accepted" % (ne, te), lambda: BremsFunction(gs, [1.0], [1.0], ne, te)(500.0), None,
               lambda r: r >= 0.0)
    expect("FreeFreeGauntFactor.evaluate of the base class is a NotImplementedError", lambda: FreeFreeGauntFactor().evaluate(1, 1, 1), NotImplementedError)
    expect("FreeFreeGauntFactor.__call__ of the base class is a NotImplementedError", lambda: FreeFreeGauntFactor()(1, 1, 1), NotImplementedError)
    expect("FreeFreeGauntFactor.__call__ delegates to evaluate", lambda: GauntStub((0.5, 0.25, 0.0, 0.0), log)(2.0, 1.0, 1.0), None, lambda r: r == 1.0)
    expect("RadiationFunction default step", lambda: RadiationFunction(1.0).integrator.step, None, lambda r: abs(r - 0.1) < 1e-6)
    expect("RadiationFunction explicit step", lambda: RadiationFunction(1.0, step=0.25).integrator.step, None, lambda r: r == 0.25)
    return n, fails


# ---------------------------------------------------------------------------------------------------
# translator: the constants of cherab/core/utility/constants.pyx
# ---------------------------------------------------------------------------------------------------
_ALLOWED = (ast.Expression, ast.BinOp, ast.UnaryOp, ast.Constant, ast.Name, ast.Load, ast.Add, ast.Sub, ast.Mult,
            ast.Div, ast.Pow, ast.USub, ast.UAdd)


def read_constants(repo):
    """{'NAME': float} for every `double NAME = <arithmetic>` line, evaluated in double arithmetic as C does.
    Fails closed: an unknown construct raises."""
    path = os.path.join(repo, "cherab", "core", "utility", "constants.pyx")
    env = {"M_PI": math.pi}
    for line in open(path):
        m = re.match(r"\s*double\s+([A-Z0-9_]+)\s*=\s*([^#]+?)\s*(#.*)?$", line)
        if not m:
            continue
        tree = ast.parse(m.group(2), mode="eval")
        for node in ast.walk(tree):
            if not isinstance(node, _ALLOWED):
                raise ValueError("constants.pyx: unsupported expression %r" % m.group(2))
        env[m.group(1)] = float(eval(compile(tree, path, "eval"), {"__builtins__": {}}, dict(env)))
    need = ["RECIP_4_PI", "ELEMENTARY_CHARGE", "SPEED_OF_LIGHT", "PLANCK_CONSTANT", "ELECTRON_REST_MASS",
            "VACUUM_PERMITTIVITY"]
    missing = [n for n in need if n not in env]
    if missing:
        raise ValueError("constants.pyx: missing %s" % missing)
    return env


def read_source_tables(repo):
    """small fail-closed readers of literals the model copies from the anchored sources"""
    out = {}
    src = open(os.path.join(repo, "cherab", "core", "model", "plasma", "total_radiated_power.pyx")).read()
    m = re.findall(r"for\s+hyd_isotope\s+in\s+\(([^)]*)\)\s*:", src)
    if len(m) != 1:
        raise ValueError("total_radiated_power.pyx: hydrogen isotope loop not found exactly once")
    names = [n.strip() for n in m[0].split(",") if n.strip()]
    by_name = {e.name: i for i, e in enumerate(ELEMS)}
    out["hyd"] = [by_name[n] for n in names]          # KeyError = unknown element: fail closed
    src = open(os.path.join(repo, "cherab", "core", "atomic", "gaunt.pyx")).read()
    m = re.findall(r"^DEF\s+EULER_GAMMA\s*=\s*([0-9.eE+-]+)\s*$", src, re.M)
    if len(m) != 1:
        raise ValueError("gaunt.pyx: DEF EULER_GAMMA not found exactly once")
    out["euler_gamma"] = float(m[0])
    return out


def _function_body(repo, rel, start, ends):
    src = open(os.path.join(repo, rel)).read().splitlines()
    out, on = [], False
    for l in src:
        if not on and re.match(start, l):
            on = True
            continue
        if on and any(re.match(e, l) for e in ends):
            break
        if on:
            out.append(l)
    if not on:
        raise ValueError("%s: function not found (%s)" % (rel, start))
    return out


_SAMPLE_SOURCES = [
    (r"^self\._plasma\.get_electron_distribution\(\)\.density\(", 1),
    (r"^self\._plasma\.get_electron_distribution\(\)\.effective_temperature\(", 2),
    (r"^self\._target_species\.distribution\.density\(", 3),
    (r"^self\._line_rad_species\.distribution\.density\(", 5),
    (r"^self\._recom_species\.distribution\.density\(", 6),
    (r"^hyd_species\.distribution\.density\(", 7),
    (r"^species\.distribution\.effective_temperature\(", 9),
]


def read_guards(repo):
    """Fail-closed translator: the guard structure of the five emission() functions and of BremsFunction.evaluate as
    lists of (quantity, operator, action) in the order of the code (codes: coq/Model/C03_Guards.v).  Which quantity is
    sampled from which distribution, which one is tested with which operator, and what the test does.  Any `if` that is
    not of a known form, any test on a variable that is not a sampled quantity, raises ValueError."""
    tables = []
    for name in ("impact_excitation", "recombination", "thermal_cx", "total_radiated_power", "bremsstrahlung"):
        rel = "cherab/core/model/plasma/%s.pyx" % name
        lines = [re.sub(r"#.*$", "", l).strip() for l in
                 _function_body(repo, rel, r"\s*cpdef Spectrum emission\(", [r"\s*cdef int _populate_cache", r"\s*def "])]
        lines = [l for l in lines if l]
        var, ev = {}, []
        for i, l in enumerate(lines):
            m = re.match(r"^([\w.\[\]]+)\s*(\+?=)\s*(.+)$", l)
            if m and (".density(" in m.group(3) or ".effective_temperature(" in m.group(3)):
                rhs, q = m.group(3), None
                for pat, code in _SAMPLE_SOURCES:
                    if re.match(pat, rhs):
                        q = code
                if q is None and re.match(r"^species\.distribution\.density\(", rhs):
                    q = 4 if name == "thermal_cx" else 8 if name == "bremsstrahlung" else None
                if q is None:
                    raise ValueError("%s: unknown sampled quantity: %s" % (rel, l))
                var[m.group(1)] = q
                ev.append((q, 0, 0))
                continue
            m = re.match(r"^(?:if|elif)\s+(.+):$", l)
            if not m:
                if re.match(r"^(while|else)\b", l):
                    raise ValueError("%s: unexpected control flow: %s" % (rel, l))
                continue
            cond = m.group(1).strip()
            nxt = lines[i + 1] if i + 1 < len(lines) else ""
            g = re.match(r"^(\w+)\s*<=\s*0(?:\.0)?$", cond)
            if g:
                if g.group(1) not in var:
                    raise ValueError("%s: test on something that is not a sampled quantity: %s" % (rel, l))
                act = 1 if nxt == "return spectrum" else 2 if nxt == "continue" else None
                if act is None:
                    raise ValueError("%s: a `<= 0` test that neither returns the spectrum nor continues: %s / %s" % (rel, l, nxt))
                ev.append((var[g.group(1)], 1, act))
                continue
            if re.match(r"^self\._[\w.]+ is None$", cond) or cond == "not self._cache_loaded":
                continue
            g = re.match(r"^self\._(plt|prb|prc)_rate and (\w+) > 0(?: and (\w+) > 0)?$", cond)
            if g:
                act = {"plt": 3, "prb": 4, "prc": 5}[g.group(1)]
                for v in (g.group(2), g.group(3)):
                    if v is None:
                        continue
                    if v not in var:
                        raise ValueError("%s: test on something that is not a sampled quantity: %s" % (rel, l))
                    ev.append((var[v], 2, act))
                continue
            if cond == "species.charge > 0":
                ev.append((10, 2, 6))
                continue
            raise ValueError("%s: `if` of unknown form: %s" % (rel, l))
        tables.append(ev)
    lines = [re.sub(r"#.*$", "", l).strip() for l in
             _function_body(repo, "cherab/core/model/plasma/bremsstrahlung.pyx", r"\s*cdef double evaluate\(self, double wvl\)", [r"^cdef class ", r"^# todo"])]
    ifs = [l for l in lines if re.match(r"^(if|elif|else|while)\b", l)]
    if ifs != ["if ni > 0:"] or "ni = self.species_density_mv[i]" not in lines:
        raise ValueError("bremsstrahlung.pyx: BremsFunction.evaluate guard structure changed: %s" % ifs)
    tables.append([(8, 2, 6)])
    return tables


def probe_gq_defaults():
    """the integrator a Bremsstrahlung model gets when none is given (behavioural probe)"""
    g = Bremsstrahlung().integrator
    if type(g) is not GaussianQuadrature:
        raise ValueError("default integrator of Bremsstrahlung is %r" % type(g))
    return {"min_order": int(g.min_order), "max_order": int(g.max_order), "rtol": float(g.relative_tolerance)}


def frac(x):
    return Fraction(*float(x).as_integer_ratio())
