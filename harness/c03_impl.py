"""C03 -- running the real passive emission models of cherab on stub plasmas / stub atomic data.

The stub provider is the Python twin of `stub_provider` in coq/Model/C03_Check.v: the value of a
rate depends on every argument of the accessor call and of the evaluate() call, so a wrong species,
charge, donor or argument order changes the radiance.  Everything the implementation does is
observed from outside: accessor calls, evaluate() arguments, the species handed to the line shape,
the radiance handed to LineShapeModel.add_line, the spectrum samples.
"""
import ast
import math
import os
import re
from fractions import Fraction

from raysect.core import Point3D, Vector3D
from raysect.optical import Spectrum, Ray, World

from cherab.core import Plasma, Species
from cherab.core.distribution import DistributionFunction
from cherab.core.atomic import (Line, AtomicData, ImpactExcitationPEC, RecombinationPEC, ThermalCXPEC,
                                LineRadiationPower, ContinuumPower, CXRadiationPower, FreeFreeGauntFactor)
from cherab.core.atomic import hydrogen, deuterium, tritium, helium, carbon, nitrogen, neon, argon
from cherab.core.model import ExcitationLine, RecombinationLine, ThermalCXLine, TotalRadiatedPower, Bremsstrahlung
from cherab.core.model.lineshape import LineShapeModel, GaussianLine
from cherab.core.model.plasma.bremsstrahlung import BremsFunction
from cherab.core.math.integrators import GaussianQuadrature
from cherab.tools.emitters import RadiationFunction

ELEMS = [hydrogen, deuterium, tritium, helium, carbon, nitrogen, neon, argon]
HYD = [0, 1, 2]                    # ids of (hydrogen, deuterium, tritium), the order of total_radiated_power.pyx
TRANS = [(2, 1), (3, 2), (3, 1), (4, 2), (5, 4), (8, 7)]
WAVELENGTH = 500.0


def eid(element):
    for i, e in enumerate(ELEMS):
        if e is element:
            return i
    raise KeyError(element)


def znum(i):
    return ELEMS[i].atomic_number


def base(salt, kind, a, b, c, d, e):
    return (1 + (salt + 7 * kind + 13 * a + 31 * b + 3 * c + 17 * d + 5 * e) % 64) / 64


class Dist(DistributionFunction):
    """a spatially varying profile: table[k] = (density, temperature) at the point x = k"""
    def __init__(self, table, tag=None, log=None):
        super().__init__()
        self.table, self.tag, self.log = table, tag, log

    def density(self, x, y, z):
        return self.table[int(round(x))][0]

    def effective_temperature(self, x, y, z):
        if self.log is not None and self.tag is not None:
            self.log["tsamp"].append(list(self.tag))      # which ion species had its temperature sampled
        return self.table[int(round(x))][1]

    def bulk_velocity(self, x, y, z):
        return Vector3D(0, 0, 0)


def _mk_rate2(cls):
    class R(cls):
        def __init__(self, cfg, log, kind, e, c, t, tag):
            self.cfg, self.log, self.b, self.tag = cfg, log, base(cfg["salt"], kind, e, c, t, 0, 0), tag

        def evaluate(self, ne, te):
            self.log["evals"].append(self.tag + [ne, te])
            g = self.cfg
            return g["sgn"] * self.b * (1 + g["cn"] * ne + g["ct"] * te)
    return R


RateExc, RateRec = _mk_rate2(ImpactExcitationPEC), _mk_rate2(RecombinationPEC)
RatePlt, RatePrb, RatePrc = _mk_rate2(LineRadiationPower), _mk_rate2(ContinuumPower), _mk_rate2(CXRadiationPower)


class RateTcx(ThermalCXPEC):
    def __init__(self, cfg, log, de, dc, re_, rc, t):
        self.cfg, self.log, self.b, self.tag = cfg, log, base(cfg["salt"], 3, de, dc, re_, rc, t), [de, dc]

    def evaluate(self, ne, te, td):
        self.log["evals"].append(self.tag + [ne, te, td])
        g = self.cfg
        return g["sgn"] * self.b * (1 + g["cn"] * ne + g["ct"] * te + g["cd"] * td * td)


class GauntStub(FreeFreeGauntFactor):
    def __init__(self, g, log):
        self.g, self.log = g, log

    def evaluate(self, z, te, wvl):
        self.log["gaunt"].append((z, te))
        g0, g1, g2, g3 = self.g
        return g0 + g1 * z + g2 * wvl + g3 * te


class StubData(AtomicData):
    def __init__(self, cfg, log, gaunt=None):
        self.cfg, self.log, self._gaunt = cfg, log, gaunt

    def wavelength(self, ion, charge, transition):
        return WAVELENGTH

    def impact_excitation_pec(self, ion, charge, transition):
        e, t = eid(ion), TRANS.index(transition)
        self.log["calls"].append([1, e, charge, t])
        return RateExc(self.cfg, self.log, 1, e, charge, t, [])

    def recombination_pec(self, ion, charge, transition):
        e, t = eid(ion), TRANS.index(transition)
        self.log["calls"].append([2, e, charge, t])
        return RateRec(self.cfg, self.log, 2, e, charge, t, [])

    def thermal_cx_pec(self, donor_ion, donor_charge, receiver_ion, receiver_charge, transition):
        de, re_, t = eid(donor_ion), eid(receiver_ion), TRANS.index(transition)
        self.log["calls"].append([3, de, donor_charge, re_, receiver_charge, t])
        return RateTcx(self.cfg, self.log, de, donor_charge, re_, receiver_charge, t)

    def _power(self, cls, bit, kind, element, charge):
        e = eid(element)
        self.log["calls"].append([kind, e, charge])
        if (self.cfg["missing"] >> bit) & 1:
            return None
        return cls(self.cfg, self.log, kind, e, charge, 0, [kind])

    def line_radiated_power_rate(self, element, charge):
        return self._power(RatePlt, 0, 4, element, charge)

    def continuum_radiated_power_rate(self, element, charge):
        return self._power(RatePrb, 1, 5, element, charge)

    def cx_radiated_power_rate(self, element, charge):
        return self._power(RatePrc, 2, 6, element, charge)

    def free_free_gaunt_factor(self):
        self.log["calls"].append([7])
        return self._gaunt


def make_shape(log):
    class RecordingShape(LineShapeModel):
        def __init__(self, line, wavelength, target_species, plasma, atomic_data):
            super().__init__(line, wavelength, target_species, plasma, atomic_data)
            self._tgt = [eid(target_species.element), target_species.charge]
            log["target"][:] = self._tgt

        def add_line(self, radiance, point, direction, spectrum):
            log["radiance"].append(radiance)
            log["shape_target"][:] = self._tgt
            return spectrum
    return RecordingShape


DIRECTION = Vector3D(0, 0, 1)
LINE_CLASSES = {1: ExcitationLine, 2: RecombinationLine, 3: ThermalCXLine}


def point(k):
    return Point3D(float(k), -0.5, 0.125)


def new_log():
    return {"calls": [], "evals": [], "target": [], "shape_target": [], "radiance": [], "gaunt": [], "tsamp": []}


def reset_log(log):
    for v in log.values():
        del v[:]


class SeqPlasma:
    """One Plasma for a sequence of evaluation points (steps).  Step k is the point x = k; every species has a
    profile over the points.  The composition is re-set (with change notification) only where the list of
    (element, charge) keys differs from the previous step's."""
    def __init__(self, steps, log=None):
        self.steps, self.log, self.keys = steps, log, None
        self.pl = Plasma()
        self.pl.electron_distribution = Dist({k: (s["ne"], s["te"]) for k, s in enumerate(steps)})

    @staticmethod
    def keys_of(step):
        return [(e, c) for (e, c, _, _) in step["comp"]]

    def goto(self, k):
        """returns True when the composition was (re)set for this step"""
        keys = self.keys_of(self.steps[k])
        if keys == self.keys:
            return False
        j = k
        while j < len(self.steps) and self.keys_of(self.steps[j]) == keys:
            j += 1
        species = []
        for i, (e, c) in enumerate(keys):
            table = {m: (self.steps[m]["comp"][i][2], self.steps[m]["comp"][i][3]) for m in range(k, j)}
            species.append(Species(ELEMS[e], c, Dist(table, (e, c), self.log)))
        self.pl.composition.set(species)
        self.keys = keys
        return True


def run_line_seq(steps, lineshape=None, window=(400.0, 600.0, 4)):
    """steps: single-point cases (kind, cfg, line identical; ne, te, comp per point) evaluated in order on ONE model
    instance attached to ONE plasma.  Returns one observation per step; obs['fresh'] says whether the model had to
    populate its cache at that step (first step, composition re-set, or the previous populate failed)."""
    log = new_log()
    first = steps[0]
    e, c, t = first["line"]
    sp = SeqPlasma(steps, log if lineshape is None else None)
    ad = StubData(first["cfg"], log)
    sp.pl.atomic_data = ad
    model = LINE_CLASSES[first["kind"]](Line(ELEMS[e], c, TRANS[t]), plasma=sp.pl, atomic_data=ad,
                                        lineshape=lineshape or make_shape(log))
    out, must_populate = [], True
    for k in range(len(steps)):
        changed = sp.goto(k)
        fresh = changed or must_populate
        reset_log(log)
        spec = Spectrum(*window)
        try:
            out_sp = model.emission(point(k), DIRECTION, spec)
        except RuntimeError:
            out.append(dict(copy_log(log), out="ErrRuntime", samples=[], fresh=fresh))
            must_populate = True
            continue
        except ValueError:
            out.append(dict(copy_log(log), out="ErrValue", samples=[], fresh=fresh))
            must_populate = True
            continue
        must_populate = False
        samples = [float(v) for v in out_sp.samples]
        o = copy_log(log)
        if not fresh:
            o["target"] = o["shape_target"]          # the line shape in use reports its target when it is handed a line
        if lineshape is not None:
            out.append(dict(o, out="Spectrum", samples=samples, delta=out_sp.delta_wavelength, fresh=fresh))
            continue
        if len(log["radiance"]) > 1:
            raise AssertionError("add_line called %d times" % len(log["radiance"]))
        if any(v != 0.0 for v in samples):
            raise AssertionError("the model wrote to the spectrum outside the line shape")
        out.append(dict(o, out=("Emit", log["radiance"][0]) if log["radiance"] else "Skip", samples=samples, fresh=fresh))
    return out


def copy_log(log):
    return {k: [list(x) if isinstance(x, list) else x for x in v] for k, v in log.items()}


def run_line(case, lineshape=None, window=(400.0, 600.0, 4)):
    return run_line_seq([case], lineshape, window)[0]


def run_total_seq(steps):
    """steps: cfg, elem, charge, minw, maxw, bins identical; ne, te, comp per point"""
    log = new_log()
    first = steps[0]
    sp = SeqPlasma(steps, log)
    ad = StubData(first["cfg"], log)
    sp.pl.atomic_data = ad
    try:
        model = TotalRadiatedPower(ELEMS[first["elem"]], first["charge"], plasma=sp.pl, atomic_data=ad)
    except ValueError:
        return [dict(copy_log(log), out="ErrValue", samples=[], fresh=True) for _ in steps]
    out, must_populate = [], True
    for k, case in enumerate(steps):
        changed = sp.goto(k)
        fresh = changed or must_populate
        reset_log(log)
        spec = Spectrum(case["minw"], case["maxw"], case["bins"])
        try:
            out_sp = model.emission(point(k), DIRECTION, spec)
        except RuntimeError:
            out.append(dict(copy_log(log), out="ErrRuntime", samples=[], fresh=fresh))
            must_populate = True
            continue
        must_populate = False
        samples = [float(v) for v in out_sp.samples]
        touched = bool(log["evals"]) or any(v != 0.0 for v in samples)
        # an early return and an emission of exactly zero leave the same spectrum: only "Skip or zero" can be observed
        out.append(dict(copy_log(log), out=("Emit", samples[0]) if touched else "SkipOrZero", samples=samples, fresh=fresh))
    return out


def run_total(case):
    return run_total_seq([case])[0]


def run_bremsfn(case):
    """case: gaunt=(g0..g3), ne, te, zs=[(z, n)...], wvl"""
    log = new_log()
    f = BremsFunction(GauntStub(case["gaunt"], log), [n for _, n in case["zs"]], [z for z, _ in case["zs"]],
                      case["ne"], case["te"])
    return {"value": float(f(case["wvl"])), "gaunt": log["gaunt"]}


def run_brems_seq(steps):
    """steps: gaunt, minw, maxw, bins, tight, via_provider identical; ne, te, comp per point; ONE Bremsstrahlung instance
    (its BremsFunction caches the charge and density arrays between calls)"""
    log = new_log()
    first = steps[0]
    sp = SeqPlasma(steps, None)
    gs = GauntStub(first["gaunt"], log)
    ad = StubData({"salt": 0, "sgn": 1.0, "cn": 0.0, "ct": 0.0, "cd": 0.0, "missing": 0}, log, gaunt=gs)
    sp.pl.atomic_data = ad
    kw = {}
    if first["tight"]:
        kw["integrator"] = GaussianQuadrature(relative_tolerance=1e-13)
    if not first["via_provider"]:
        kw["gaunt_factor"] = gs
    model = Bremsstrahlung(plasma=sp.pl, atomic_data=ad, **kw)
    out, must_populate = [], True
    for k, case in enumerate(steps):
        changed = sp.goto(k)
        fresh = changed or must_populate
        must_populate = False
        reset_log(log)
        spec = Spectrum(case["minw"], case["maxw"], case["bins"])
        out_sp = model.emission(point(k), DIRECTION, spec)
        out.append({"samples": [float(v) for v in out_sp.samples], "gaunt_z": sorted({z for z, _ in log["gaunt"]}),
                    "gaunt_te": sorted({t for _, t in log["gaunt"]}), "calls": [list(c) for c in log["calls"]], "fresh": fresh})
    return out


def run_brems(case):
    return run_brems_seq([case])[0]


def run_radfn(case):
    """case: phi, minw, maxw, bins"""
    rf = RadiationFunction(lambda x, y, z: case["phi"])
    ray = Ray(origin=Point3D(0, 0, 0), direction=DIRECTION, min_wavelength=case["minw"], max_wavelength=case["maxw"],
              bins=case["bins"])
    sp = ray.new_spectrum()
    from raysect.core import AffineMatrix3D
    out = rf.emission_function(point(0), DIRECTION, sp, World(), ray, None, AffineMatrix3D(), AffineMatrix3D())
    return {"samples": [float(v) for v in out.samples]}


# ---------------------------------------------------------------------------------------------------
# translator: the constants of cherab/core/utility/constants.pyx
# ---------------------------------------------------------------------------------------------------
_ALLOWED = (ast.Expression, ast.BinOp, ast.UnaryOp, ast.Constant, ast.Name, ast.Load, ast.Add, ast.Sub, ast.Mult,
            ast.Div, ast.Pow, ast.USub, ast.UAdd)


def read_constants(repo):
    """{'NAME': float} for every `double NAME = <arithmetic>` line, evaluated in double arithmetic as C does.
    Fails closed: an unknown construct raises."""
    path = os.path.join(repo, "cherab", "core", "utility", "constants.pyx")
    env = {"M_PI": math.pi}
    for line in open(path):
        m = re.match(r"\s*double\s+([A-Z0-9_]+)\s*=\s*([^#]+?)\s*(#.*)?$", line)
        if not m:
            continue
        tree = ast.parse(m.group(2), mode="eval")
        for node in ast.walk(tree):
            if not isinstance(node, _ALLOWED):
                raise ValueError("constants.pyx: unsupported expression %r" % m.group(2))
        env[m.group(1)] = float(eval(compile(tree, path, "eval"), {"__builtins__": {}}, dict(env)))
    need = ["RECIP_4_PI", "ELEMENTARY_CHARGE", "SPEED_OF_LIGHT", "PLANCK_CONSTANT", "ELECTRON_REST_MASS",
            "VACUUM_PERMITTIVITY"]
    missing = [n for n in need if n not in env]
    if missing:
        raise ValueError("constants.pyx: missing %s" % missing)
    return env


def frac(x):
    return Fraction(*float(x).as_integer_ratio())
