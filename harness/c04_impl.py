"""C04 helper: case generator, scene builder / implementation runner, failing-input search.

A case is a JSON-able dict that fully describes one Beam + SingleRayAttenuator + Plasma scene (final
placement, stub species, stub stopping rates).  Nothing here evaluates the Coq model: the model is
evaluated by Coq on the text written by harness/c04.py.
"""
import json
import math
import os
from fractions import Fraction

import numpy as np

from common import dyadic, VERIF

BEAM_ELEMENTS = ["hydrogen", "deuterium", "tritium", "helium"]
SPECIES = [("deuterium", 1), ("hydrogen", 1), ("tritium", 1), ("helium", 2), ("helium", 1), ("beryllium", 4),
           ("carbon", 6), ("carbon", 5), ("nitrogen", 7), ("neon", 10), ("neon", 9), ("argon", 16)]


# ---------------------------------------------------------------------------------------------
# stub families (Python side: plain double arithmetic in the same order as Model/C04_Check.v)
# ---------------------------------------------------------------------------------------------
def prof_fn(p):
    if p[0] == "u":
        c = p[1]
        return lambda x, y, z: c
    if p[0] == "l":
        _, c, gx, gy, gz = p
        return lambda x, y, z: c + gx * x + gy * y + gz * z
    _, ax, ay, az, thr, lo, hi = p
    return lambda x, y, z: lo if ax * x + ay * y + az * z <= thr else hi


def rate_fn(r):
    if r[0] == "c":
        c = r[1]
        return lambda e, n, t: c
    _, c, a, b, d = r
    return lambda e, n, t: c * (1.0 + a * e + b * n + d * t)


CONFIG_FIELDS = ["element", "energy", "power", "sigma", "div_x", "div_y", "length", "step", "clamp", "clamp_sigma",
                 "att_via_setters", "att_route", "beam_ops", "plasma_ops", "beam_parent_ops", "species", "argforms",
                 "species_route"]


def _form(case, name, v):
    """Unusual but valid argument forms (class "argforms"): Python ints, numpy float64/float32/integer scalars, 0/1 for the
    clamp flag -- only where the value is exactly representable in that form, so the configuration is unchanged."""
    if not case.get("argforms"):
        return v
    if isinstance(v, bool):
        return int(v)
    f = float(v)
    if f.is_integer() and abs(f) < 2 ** 31:
        return {"energy": int(f), "power": np.int64(int(f)), "div_x": int(f), "clamp_sigma": np.int32(int(f)),
                "length": int(f)}.get(name, np.float64(f))
    if float(np.float32(f)) == f and name in ("sigma", "div_y", "step", "length", "x", "z"):
        return np.float32(f)
    return np.float64(f)


def _probe_args(case, x, y, z):
    return _form(case, "x", x), _form(case, "y", y), _form(case, "z", z)


def _stubs(log, keys):
    from raysect.core import Vector3D
    from cherab.core.atomic import AtomicData, BeamStoppingRate
    from cherab.core.distribution import DistributionFunction

    class Dist(DistributionFunction):
        def __init__(self, s):
            super().__init__()
            self._n, self._t = prof_fn(s["dens"]), prof_fn(s["temp"])
            self._v = [prof_fn(p) for p in s["vel"]]

        def density(self, x, y, z):
            return self._n(x, y, z)

        def effective_temperature(self, x, y, z):
            return self._t(x, y, z)

        def bulk_velocity(self, x, y, z):
            return Vector3D(self._v[0](x, y, z), self._v[1](x, y, z), self._v[2](x, y, z))

    class Rate(BeamStoppingRate):
        def __init__(self, idx, fn):
            self.idx, self.fn = idx, fn

        def evaluate(self, e, n, t):
            v = self.fn(e, n, t)
            if log is not None:
                log.append((self.idx, e, n, t, v))
            return v

    class Data(AtomicData):
        def __init__(self, species):
            super().__init__()
            self.table = {(s["element"], s["charge"]): Rate(i, rate_fn(s["rate"])) for i, s in enumerate(species)}

        def beam_stopping_rate(self, beam_ion, plasma_ion, charge):
            if keys is not None:
                keys.append([beam_ion.name, plasma_ion.name, int(charge)])
            return self.table[(plasma_ion.name, int(charge))]
    return Dist, Data


def _new_attenuator(cfg, beam=None, plasma=None, data=None):
    """every public route to a configured SingleRayAttenuator: constructor arguments, property setters, defaults,
    constructor with explicit beam/plasma/atomic_data"""
    from cherab.core.model import SingleRayAttenuator
    step, clamp, cs = _form(cfg, "step", cfg["step"]), _form(cfg, "clamp", cfg["clamp"]), _form(cfg, "clamp_sigma", cfg["clamp_sigma"])
    route = cfg.get("att_route") or ("setters" if cfg.get("att_via_setters") else "constructor")
    if route == "defaults":
        # the case was generated with step = 0.01, clamp_sigma = 5, clamp_to_zero = False: the documented defaults
        return SingleRayAttenuator()
    if route == "setters":
        att = SingleRayAttenuator(clamp_to_zero=clamp)          # clamp_to_zero is constructor-only
        att.step = step
        att.clamp_sigma = cs
        return att
    if route == "explicit":
        return SingleRayAttenuator(step, clamp, cs, beam, plasma, data)     # positional, with beam/plasma/atomic data
    return SingleRayAttenuator(step=step, clamp_to_zero=clamp, clamp_sigma=cs)


def _species_objects(cfg, Dist):
    from cherab.core import Species
    from cherab.core.atomic import elements
    return [Species(getattr(elements, s["element"]), s["charge"], Dist(s)) for s in cfg["species"]]


def _fresh(cfg, log=None, keys=None):
    """a freshly built scene for the flat configuration cfg"""
    from raysect.core import World, Node
    from cherab.core import Beam, Plasma
    from cherab.core.atomic import elements
    Dist, Data = _stubs(log, keys)
    world = World()
    plasma = Plasma(parent=world, transform=_transform(cfg["plasma_ops"]))
    data = Data(cfg["species"])
    plasma.atomic_data = data
    sp = _species_objects(cfg, Dist)
    if cfg.get("species_route") == "set":
        plasma.composition.set(sp)
    else:
        for o in sp:
            plasma.composition.add(o)
    parent = world
    if cfg["beam_parent_ops"]:
        parent = Node(parent=world, transform=_transform(cfg["beam_parent_ops"]))
    beam = Beam(parent=parent, transform=_transform(cfg["beam_ops"]))
    beam.atomic_data = data
    beam.plasma = plasma
    beam.attenuator = _new_attenuator(cfg, beam, plasma, data)
    beam.energy = _form(cfg, "energy", cfg["energy"])
    beam.power = _form(cfg, "power", cfg["power"])
    beam.element = getattr(elements, cfg["element"])
    beam.sigma = _form(cfg, "sigma", cfg["sigma"])
    beam.divergence_x = _form(cfg, "div_x", cfg["div_x"])
    beam.divergence_y = _form(cfg, "div_y", cfg["div_y"])
    beam.length = _form(cfg, "length", cfg["length"])
    return beam, plasma


INVALID = {"energy": [-1.0], "power": [-1.0], "sigma": [0.0, -0.5], "divergence_x": [-1.0], "divergence_y": [-0.25],
           "length": [0.0, -2.0]}


def _micro_steps(old, new):
    """The change old -> new as a list of single public mutations, each with the configuration that holds after it.
    Changed fields come first (one setter each, so that a setter that fails to invalidate cached data is observed before
    another setter repairs it), then every setter is re-assigned its current value."""
    import copy
    steps = []
    cur = copy.deepcopy(old)

    def push(kind, keys_):
        for k in keys_:
            cur[k] = copy.deepcopy(new.get(k))
        steps.append((kind, copy.deepcopy(cur)))
    for attr, key in (("length", "length"), ("energy", "energy"), ("divergence_y", "div_y"), ("sigma", "sigma"),
                      ("power", "power"), ("divergence_x", "div_x")):
        if old[key] != new[key]:
            push("beam." + attr, [key])
    if old["element"] != new["element"]:
        push("beam.element", ["element"])
    replace = old["clamp"] != new["clamp"] or new.get("att_route") in ("explicit", "defaults") or old.get("att_route") == "defaults"
    if replace:
        push("beam.attenuator", ["clamp", "clamp_sigma", "step", "att_route", "att_via_setters"])
    else:
        if old["step"] != new["step"]:
            push("attenuator.step", ["step"])
        if old["clamp_sigma"] != new["clamp_sigma"]:
            push("attenuator.clamp_sigma", ["clamp_sigma"])
    if old["plasma_ops"] != new["plasma_ops"]:
        push("plasma.transform", ["plasma_ops"])
    if old["beam_parent_ops"] != new["beam_parent_ops"]:
        push("beam.parent", ["beam_parent_ops"])
    if old["beam_ops"] != new["beam_ops"]:
        push("beam.transform", ["beam_ops"])
    if old["species"] != new["species"]:
        push("plasma.composition", ["species", "species_route"])
    for k in ("argforms", "att_route", "att_via_setters", "species_route"):
        cur[k] = copy.deepcopy(new.get(k))
    steps.append(("re-assign every setter", copy.deepcopy(cur)))
    return steps


def _apply(beam, plasma, kind, prev, cfg, log, keys, notes):
    """one public mutation of the LIVE scene (rejected values are tried first: they must raise ValueError and change nothing)"""
    from raysect.core import Node
    from cherab.core.atomic import elements
    Dist, Data = _stubs(log, keys)
    keymap = {"energy": "energy", "power": "power", "sigma": "sigma", "divergence_x": "div_x", "divergence_y": "div_y", "length": "length"}

    def set_beam(attr):
        for bad in INVALID[attr]:
            try:
                setattr(beam, attr, bad)
                notes.append("beam.%s = %r was accepted" % (attr, bad))
            except ValueError:
                pass
        setattr(beam, attr, _form(cfg, keymap[attr], cfg[keymap[attr]]))

    def set_att(attr, key):
        for bad in (0.0, -1.0):
            try:
                setattr(beam.attenuator, attr, bad)
                notes.append("attenuator.%s = %r was accepted" % (attr, bad))
            except ValueError:
                pass
        setattr(beam.attenuator, attr, _form(cfg, key, cfg[key]))
    if kind.startswith("beam.") and kind[5:] in keymap:
        set_beam(kind[5:])
    elif kind == "beam.element":
        beam.element = getattr(elements, cfg["element"])
    elif kind == "beam.attenuator":
        beam.attenuator = _new_attenuator(cfg, beam, plasma, beam.atomic_data)
    elif kind == "attenuator.step":
        set_att("step", "step")
    elif kind == "attenuator.clamp_sigma":
        set_att("clamp_sigma", "clamp_sigma")
    elif kind == "plasma.transform":
        plasma.transform = _transform(cfg["plasma_ops"])
    elif kind == "beam.parent":
        world = plasma.parent
        beam.parent = Node(parent=world, transform=_transform(cfg["beam_parent_ops"])) if cfg["beam_parent_ops"] else world
    elif kind == "beam.transform":
        beam.transform = _transform(cfg["beam_ops"])
    elif kind == "plasma.composition":
        data = Data(cfg["species"])
        same_keys = [(s["element"], s["charge"]) for s in prev["species"]] == [(s["element"], s["charge"]) for s in cfg["species"]]
        sp = _species_objects(cfg, Dist)
        route = cfg.get("species_route") or "set"
        if route == "add" and same_keys:
            for o in sp:
                plasma.composition.add(o)          # replaces the species with the same element and charge
        elif route == "set":
            plasma.composition.set(sp)
        else:
            plasma.composition.clear()
            for o in sp:
                plasma.composition.add(o)
        plasma.atomic_data = data
        beam.atomic_data = data
    else:                                          # re-assignment of every current value
        for attr in keymap:
            set_beam(attr)
        beam.element = getattr(elements, cfg["element"])
        if cfg.get("att_route") != "defaults":
            set_att("step", "step")
            set_att("clamp_sigma", "clamp_sigma")
        beam.transform = _transform(cfg["beam_ops"])
        plasma.transform = _transform(cfg["plasma_ops"])


def _step_probes(cfg):
    L, sg = cfg["length"], cfg["sigma"]
    return [(0.0, 0.0, 0.0), (0.0, 0.0, 0.5 * L), (sg, -0.5 * sg, L / 3.0), (0.0, 0.0, L), (0.0, 0.0, 1.5 * L), (2 * sg, sg, 0.25 * L)]


def _observe(beam, cfg):
    """what a user sees of the beam in configuration cfg: densities and directions at fixed points (exceptions by name)"""
    out = []
    for (x, y, z) in _step_probes(cfg):
        for fn in (beam.density, beam.direction):
            try:
                v = fn(x, y, z)
                out.append(repr(v) if fn == beam.direction else float(v).hex())
            except Exception as e:                               # noqa: BLE001 (compared, never swallowed)
                out.append("raise " + type(e).__name__)
    return out


def flat(cfg):
    return {k: cfg[k] for k in CONFIG_FIELDS if k in cfg}


def build(case, log=None, keys=None, trace=None):
    """The real scene in the configuration of `case`.  Without case["history"] it is freshly built.  With a history
    [c0, c1, ...] ONE live scene is built for c0 and observed; each change c_k -> c_k+1 (finally -> `case` itself) is
    made as a sequence of single public mutations, and after every one of them the live object is observed twice and
    compared with a freshly built object of the configuration that holds at that moment; `trace` (a list) receives
    every difference.  The very last mutation is not observed here: the caller evaluates the live object itself, so
    `log` / `keys` collect the stopping-rate evaluations / lookups made after the last mutation."""
    hist = case.get("history")
    if not hist:
        return _fresh(case, log, keys)
    chain = [flat(c) for c in hist] + [flat(case)]
    beam, plasma = _fresh(chain[0], log, keys)
    notes = []
    micro = [("fresh", chain[0])]
    for k in range(1, len(chain)):
        micro += _micro_steps(chain[k - 1], chain[k])
    for j, (kind, cfg) in enumerate(micro):
        if j > 0:
            _apply(beam, plasma, kind, micro[j - 1][1], cfg, log, keys, notes)
        if j == len(micro) - 1:
            break
        live = _observe(beam, cfg)
        again = _observe(beam, cfg)                               # second use of the same object
        if trace is not None:
            ref = _observe(_fresh(cfg)[0], cfg)
            if live != ref or again != ref:
                bad = [i for i, (a, b, c2) in enumerate(zip(live, again, ref)) if a != c2 or b != c2]
                trace.append({"step": j, "mutation": kind, "configuration": cfg, "previous": micro[j - 1][1] if j else None,
                              "probe": _step_probes(cfg)[bad[0] // 2], "live": live[bad[0]], "second_call": again[bad[0]],
                              "fresh": ref[bad[0]]})
    if trace is not None:
        for n_ in notes:
            trace.append({"step": "setter", "mutation": n_})
        case["_n_micro"] = len(micro) - 1
    if log is not None:
        del log[:]
    if keys is not None:
        del keys[:]
    # the object was last observed before the final mutation: make that one a mutation that changes something, so that
    # cached data must have been invalidated by it
    beam.energy = _form(case, "energy", case["energy"] * 2)
    beam.energy = _form(case, "energy", case["energy"])
    return beam, plasma


def placement(case):
    """beam-to-plasma matrix of the case as raysect computes it (axis = image of (0,0,1), origin)."""
    from raysect.core import World, Node
    world = World()
    p = Node(parent=world, transform=_transform(case["plasma_ops"]))
    parent = world
    if case["beam_parent_ops"]:
        parent = Node(parent=world, transform=_transform(case["beam_parent_ops"]))
    b = Node(parent=parent, transform=_transform(case["beam_ops"]))
    m = b.to(p)
    return [m[0, 2], m[1, 2], m[2, 2]], [m[0, 3], m[1, 3], m[2, 3]]


def constants():
    from cherab.core.utility import conversion
    from scipy.constants import atomic_mass
    return {"cf": float(conversion.EvAmuToMS.conversion_factor), "ec": float(conversion.EvToJ.conversion_factor),
            "amu": float(atomic_mass), "pi": math.pi}


# ---------------------------------------------------------------------------------------------
# generator
# ---------------------------------------------------------------------------------------------
# proper signed permutation matrices (rotations by multiples of 90 degrees, exact in binary)
def _signed_perms():
    import itertools
    out = []
    for perm in itertools.permutations(range(3)):
        for signs in itertools.product((1, -1), repeat=3):
            m = [[0] * 3 for _ in range(3)]
            for i in range(3):
                m[i][perm[i]] = signs[i]
            det = (m[0][0] * (m[1][1] * m[2][2] - m[1][2] * m[2][1]) - m[0][1] * (m[1][0] * m[2][2] - m[1][2] * m[2][0])
                   + m[0][2] * (m[1][0] * m[2][1] - m[1][1] * m[2][0]))
            if det == 1:
                out.append(m)
    return out


SIGNED_PERMS = _signed_perms()


def _transform(ops):
    from raysect.core import translate, rotate, AffineMatrix3D
    m = AffineMatrix3D()
    for op in ops:
        if op[0] == "t":
            m = m * translate(op[1], op[2], op[3])
        elif op[0] == "r":
            m = m * rotate(op[1], op[2], op[3])
        else:
            r = op[1]
            m = m * AffineMatrix3D([r[0] + [0.0], r[1] + [0.0], r[2] + [0.0], [0.0, 0.0, 0.0, 1.0]])
    return m


def _ops(rng, kind):
    if kind == "identity":
        return []
    t = ["t", dyadic(rng, -2, 2, 4), dyadic(rng, -2, 2, 4), dyadic(rng, -2, 2, 4)]
    if kind == "translated":
        return [t]
    if kind == "axis":
        return [t, ["m", [[float(v) for v in row] for row in rng.choice(SIGNED_PERMS)]]]
    return [t, ["r", rng.uniform(-180, 180), rng.uniform(-90, 90), rng.uniform(-180, 180)]]


def _dot(a, b):
    return a[0] * b[0] + a[1] * b[1] + a[2] * b[2]


def _pow2(k):
    return math.ldexp(1.0, k)


def _profile(rng, kind, base, p0, p1, axis, full):
    """a positive profile of magnitude ~base along the beam axis p0..p1 (plasma coordinates)"""
    if kind == "u":
        return ["u", base]
    dp = [p1[i] - p0[i] for i in range(3)]
    ext = math.sqrt(_dot(dp, dp))
    for _ in range(30):
        w = [rng.randint(-4, 4) / 4.0 for _ in range(3)]
        if abs(_dot(w, dp)) >= 0.3 * ext:
            break
    else:
        return ["u", base]
    if kind == "l":
        for _ in range(30):
            if full:
                g = [wi * base * rng.uniform(-1, 1) / max(ext, 0.5) for wi in w]
            else:
                g = [wi * base * rng.randint(-4, 4) / 4.0 * _pow2(-max(0, math.ceil(math.log2(max(ext, 0.5))))) for wi in w]
            c = base if not full else base * rng.uniform(0.5, 1.5)
            v0, v1 = c + _dot(g, p0), c + _dot(g, p1)
            if min(v0, v1) >= 0.15 * base and any(g):
                return ["l", c] + g
        return ["u", base]
    f = rng.uniform(0.05, 0.95)
    thr = _dot(w, [p0[i] + f * dp[i] for i in range(3)])
    if not full:
        thr = round(thr * 64) / 64.0 + 1.0 / 256
    lo, hi = (base, base * rng.choice([0.25, 0.5, 2.0, 3.0])) if not full else (base * rng.uniform(0.3, 1), base * rng.uniform(0.3, 1))
    return ["s"] + w + [thr, lo, hi]


def _gen_flat(rng, idx, special=None):
    case = {"id": idx}
    classes = []
    case["element"] = rng.choice(BEAM_ELEMENTS)
    full = rng.random() < 0.3 and special not in ("defaults", "nodes100")     # full-precision doubles vs short dyadic inputs
    case["energy"] = rng.uniform(2e3, 1.2e5) if full else float(rng.randint(4, 240) * 500)
    case["power"] = rng.uniform(1e4, 5e6) if full else float(rng.randint(1, 500) * 10000)
    case["sigma"] = rng.uniform(0.01, 0.3) if full else dyadic(rng, 0.01, 0.3, 8)
    dk = rng.choice(["zero", "equal", "unequal", "unequal", "onezero"])
    dv = (lambda: rng.uniform(0.05, 6)) if full else (lambda: dyadic(rng, 0.125, 6, 3))
    if dk == "zero":
        dx = dy = 0.0
    elif dk == "equal":
        dx = dy = dv()
    elif dk == "onezero":
        dx, dy = (0.0, dv()) if rng.random() < 0.5 else (dv(), 0.0)
    else:
        dx, dy = dv(), dv()
        if dx == dy:
            dy = dx + 0.5
    case["div_x"], case["div_y"] = dx, dy
    classes.append("div:" + dk)
    case["length"] = rng.uniform(0.2, 4) if full else dyadic(rng, 0.25, 4, 3)
    nk = rng.choice(["min4", "exact", "exact", "general", "general", "decimal"])
    L = case["length"]
    big = rng.random() < 0.15
    if nk == "min4":
        case["step"] = L * rng.choice([0.5, 1.0, 2.5, 0.75])
    elif nk == "exact":
        case["step"] = L / rng.choice([4, 8, 8, 16, 32] if big else [4, 4, 8, 8, 16])
    elif nk == "decimal":
        case["length"] = L = max(0.5, round(L, 1))
        case["step"] = rng.choice([0.1, 0.2, 0.25, 0.05]) if not big else rng.choice([0.01, 0.02]) * max(1.0, round(L / 0.4))
    else:
        case["step"] = L / (rng.uniform(3.2, 40.0) if big else rng.uniform(3.2, 14.0))
        if not full:
            case["step"] = max(round(case["step"] * 256), 1) / 256.0
    if special in ("nodes3", "nodes2"):
        # length / step exactly 3: 1 + 3 = 4 nodes without the lower bound acting; exactly 2: the lower bound of 4 acts
        k = 3 if special == "nodes3" else 2
        case["step"] = rng.uniform(0.1, 1.0) if full else dyadic(rng, 0.125, 1, 3)
        case["length"] = L = k * case["step"]
        nk = "k=%d" % k
    elif special == "nodes100":        # 99, 100 or 101 axis nodes
        k = rng.choice([98, 99, 100])
        case["length"], case["step"] = k / 32.0, 1 / 32.0
        L, nk = case["length"], "99-101"
    elif special == "defaults":        # SingleRayAttenuator() with its documented defaults
        case["length"] = L = dyadic(rng, 0.125, 0.3125, 4) if not full else rng.uniform(0.1, 0.3)
        case["step"], nk = 0.01, "default-step"
    classes.append("nodes:" + nk)
    case["clamp"] = rng.random() < 0.55
    case["clamp_sigma"] = rng.choice([5.0, 3.0, dyadic(rng, 1, 6, 3), rng.uniform(1.0, 6.0) if full else dyadic(rng, 1, 6, 2)])
    classes.append("clamp:on" if case["clamp"] else "clamp:off")
    case["att_route"] = rng.choice(["constructor", "constructor", "setters", "setters", "explicit"])
    if special == "defaults":
        case["att_route"], case["clamp"], case["clamp_sigma"] = "defaults", False, 5.0
        classes[-1] = "clamp:off"
    classes.append("attenuator:" + case["att_route"])
    if full:
        bk = rng.choice(["translated", "axis", "general", "general"])
        pk = rng.choice(["identity", "translated", "general"])
    else:
        bk = rng.choice(["identity", "translated", "axis", "axis", "axis"])
        pk = rng.choice(["identity", "translated", "axis"])
    case["beam_ops"] = _ops(rng, bk)
    case["plasma_ops"] = _ops(rng, pk)
    case["beam_parent_ops"] = _ops(rng, "general" if full else "axis") if rng.random() < 0.2 else []
    rotated = bk in ("axis", "general") or pk in ("axis", "general") or bool(case["beam_parent_ops"])
    classes.append("placement:" + ("rotated" if rotated else ("translated" if (bk != "identity" or pk != "identity") else "identity")))
    if bk == "general" or pk == "general" or (full and case["beam_parent_ops"]):
        classes.append("placement:general-rotation")
    axis, origin = placement(case)
    p0 = origin
    p1 = [origin[i] + L * axis[i] for i in range(3)]

    nsp = rng.choice([1, 2, 2, 3, 3, 4])
    if special == "nodes100":
        nsp = 1
    if special == "empty":             # a plasma without species: nothing stops the beam
        nsp = 0
    chosen = rng.sample(SPECIES, nsp)
    no_stopping = (idx % 8 == 3) or rng.random() < 0.04 or nsp == 0    # the no-stopping class is always present
    heavy = rng.random() < 0.15
    varying = False
    sp = []
    kinds = set()
    for (el, ch) in chosen:
        if full:
            base = rng.uniform(0.5, 8) * 10 ** rng.choice([17, 18, 19, 19]) / (ch if ch > 2 else 1)
            tb = rng.uniform(20, 8000)
        else:
            base = rng.randint(1, 255) * _pow2(rng.choice([52, 55, 58, 58]) - (3 if ch > 2 else 0))
            tb = float(rng.randint(20, 8000))
        dkind = rng.choice(["u", "u", "l", "l", "s"])
        tkind = rng.choice(["u", "u", "u", "l", "s"])
        if special == "nodes100":
            dkind, tkind = rng.choice(["u", "l"]), "u"
        dens = _profile(rng, dkind, base, p0, p1, axis, full)
        temp = _profile(rng, tkind, tb, p0, p1, axis, full)
        vk = rng.choice(["zero", "zero", "zero", "u", "u", "l"])
        if vk == "zero":
            vel = [["u", 0.0]] * 3
        elif vk == "u":
            vel = [["u", float(rng.randint(-200, 200) * 1024)] for _ in range(3)]
        else:
            vel = []
            for _ in range(3):
                c0 = float(rng.randint(-200, 200) * 1024)
                vel.append(["l", c0] + [float(rng.randint(-32, 32) * 1024) for _ in range(3)])
        varying = varying or dens[0] != "u" or temp[0] != "u" or vk == "l"
        if no_stopping:
            rate = ["c", 0.0]
        else:
            scale = rng.uniform(0.3, 4) * 1e-14 * (20 if heavy else 1) if full else rng.randint(1, 255) * _pow2(-50 + (4 if heavy else 0))
            if rng.random() < 0.4:
                rate = ["c", scale]
                kinds.add("const")
            elif full:
                rate = ["a", scale, rng.uniform(0, 2) / 1e5, rng.uniform(0, 2) / 1e20, rng.uniform(0, 2) / 1e4]
                kinds.add("affine")
            else:
                rate = ["a", scale, rng.randint(0, 32) / 16.0 * _pow2(-17), rng.randint(0, 32) / 16.0 * _pow2(-66),
                        rng.randint(0, 32) / 16.0 * _pow2(-13)]
                kinds.add("affine")
        sp.append({"element": el, "charge": ch, "dens": dens, "temp": temp, "vel": vel, "rate": rate})
    case["species"] = sp
    if not no_stopping:
        # rescale the rates by a power of two so that the optical depth of the whole beam is in a chosen range
        S, speed = documented_stopping(case, axis, origin, 2 * 1.602176634e-19 / 1.66053906660e-27)
        tau = 0.5 * (S(0.0) + S(L)) * L / speed
        target = rng.uniform(8, 40) if heavy else math.exp(rng.uniform(math.log(0.03), math.log(6)))
        fac = _pow2(int(round(math.log2(target / tau))))
        for s_ in sp:
            s_["rate"][1] *= fac
        case["optical_depth~"] = tau * fac
    classes.append("stopping=0" if no_stopping else "stopping>0")
    classes.append("profile:varying" if varying else "profile:uniform")
    classes += sorted({"density-profile:" + {"u": "uniform", "l": "linear", "s": "step"}[s["dens"][0]] for s in sp})
    classes.append("species:%d" % nsp)
    classes += ["rate:" + k for k in sorted(kinds)]
    classes.append("inputs:full-precision" if full else "inputs:dyadic")
    if heavy and not no_stopping:
        classes.append("stopping:heavy")
    case["classes"] = classes
    return case


def _scale_profile(p, fv, fg):
    """values * fv, positions * fg"""
    if p[0] == "u":
        return ["u", p[1] * fv]
    if p[0] == "l":
        return ["l", p[1] * fv] + [g * fv / fg for g in p[2:]]
    return ["s"] + p[1:4] + [p[4] * fg, p[5] * fv, p[6] * fv]


def rescale(case, kp, kd, kg):
    """The property is covariant under these exact (power-of-two) changes of units: beam power * 2^kp; plasma densities
    * 2^kd with stopping coefficients / 2^kd; all lengths * 2^kg with stopping coefficients / 2^kg."""
    fp, fd, fg = _pow2(kp), _pow2(kd), _pow2(kg)
    case["power"] *= fp
    for k in ("sigma", "length", "step"):
        case[k] *= fg
    for key in ("beam_ops", "plasma_ops", "beam_parent_ops"):
        case[key] = [["t", op[1] * fg, op[2] * fg, op[3] * fg] if op[0] == "t" else op for op in case[key]]
    for s_ in case["species"]:
        s_["dens"] = _scale_profile(s_["dens"], fd, fg)
        s_["temp"] = _scale_profile(s_["temp"], 1.0, fg)
        s_["vel"] = [_scale_profile(p, 1.0, fg) for p in s_["vel"]]
        r = s_["rate"]
        s_["rate"] = ["c", r[1] / fd / fg] if r[0] == "c" else ["a", r[1] / fd / fg, r[2], r[3] / fd, r[4]]
    return case


GUARDS = ["power=0", "energy=0", "divergence=0", "density=0", "rates=0", "temperature=0", "no-species"]


def _guard_config(rng, a):
    """the configuration a with one or two length/density/width-like inputs at the value where a guard or a special
    case of the code acts (zero)"""
    import copy
    g = copy.deepcopy(a)
    which = rng.sample(GUARDS, rng.choice([1, 1, 2]))
    for w in which:
        if w == "power=0":
            g["power"] = 0.0
        elif w == "energy=0":
            g["energy"] = 0.0
        elif w == "divergence=0":
            g["div_x"] = g["div_y"] = 0.0
        elif w == "density=0":
            for s_ in g["species"]:
                s_["dens"] = ["u", 0.0]
        elif w == "rates=0":
            for s_ in g["species"]:
                s_["rate"] = ["c", 0.0]
        elif w == "temperature=0":
            for s_ in g["species"]:
                s_["temp"] = ["u", 0.0]
        else:
            g["species"] = []
    return g, which


MIX_GROUPS = [["energy"], ["power"], ["element"], ["sigma"], ["div_x", "div_y"], ["length", "step"],
              ["clamp", "clamp_sigma", "att_route"], ["beam_ops"], ["plasma_ops"], ["beam_parent_ops"], ["species"]]

SPECIAL = {5: "nodes3", 9: "nodes2", 13: "nodes100", 17: "empty", 7: "defaults"}


def gen_case(rng, idx):
    """one configuration plus the regular extra classes: special node counts / empty plasma / default attenuator
    (by index), argument forms, unit scales, and -- every third case -- a history on one live object."""
    import copy
    special = SPECIAL.get(idx % 20)
    case = _gen_flat(rng, idx, special)
    classes = case["classes"]
    if special:
        classes.append("special:" + special)
    case["argforms"] = rng.random() < 0.4
    if case["argforms"]:
        classes.append("argforms:int/np.float32/np.float64/np.int")
    case["species_route"] = rng.choice(["add", "set", "clear"])
    if rng.random() < 0.35 and special != "defaults":
        kp, kd = rng.randint(-40, 30), rng.randint(-40, 20)
        kg = rng.randint(-10, 10) if special is None else 0
        rescale(case, kp, kd, kg)
        case["scale"] = {"power": kp, "density": kd, "length": kg}
        classes.append("scale:2^k")
    if idx % 3 == 1:
        a = flat(case)
        other = flat(_gen_flat(rng, idx))
        b = copy.deepcopy(a)
        changed = []
        for grp in MIX_GROUPS:
            if rng.random() < 0.5:
                for k in grp:
                    b[k] = copy.deepcopy(other[k])
                changed.append(grp[0])
        if not changed:
            b["sigma"], b["species"] = other["sigma"], copy.deepcopy(other["species"])
        g, which = _guard_config(rng, a)
        kind = rng.choice(["B", "B,G", "G", "same", "G,B", "B,G,B"])
        hist = {"B": [b], "B,G": [b, g], "G": [g], "same": [copy.deepcopy(a)], "G,B": [g, b], "B,G,B": [b, g, b]}[kind]
        case["history"] = hist
        classes.append("history:" + kind)
        classes += ["guard:" + w for w in which] if "G" in kind else []
    return case


def corpus_cases():
    out = []
    d = os.path.join(VERIF, "corpus", "C04")
    if os.path.isdir(d):
        for f in sorted(os.listdir(d)):
            if f.endswith(".json"):
                c = json.load(open(os.path.join(d, f)))
                c = c.get("case", c)
                c.setdefault("classes", ["corpus"])
                out.append(c)
    return out


# ---------------------------------------------------------------------------------------------
# implementation runner
# ---------------------------------------------------------------------------------------------
def _tan(div):
    return math.tan(math.pi / 180 * div)


def run_case(case):
    from cherab.core.atomic import elements
    log, keys, trace = [], [], []
    beam, plasma = build(case, log, keys, trace)
    k = constants()
    L = case["length"]
    nsp = len(case["species"])
    first = beam.density(0.0, 0.0, 0.0)            # triggers the attenuation calculation
    ncalls = len(log)
    if nsp:
        n_nodes = ncalls // nsp if ncalls % nsp == 0 else -1
        if ncalls == 0 and case.get("history"):
            trace.append({"step": "final", "mutation": "last mutation of the history", "configuration": flat(case),
                          "note": "the live object made no stopping-rate evaluation after the last mutation of its history (cached attenuation not invalidated, or the rates were never asked)"})
    else:
        # no species, no rate evaluations: the node count cannot be observed (and does not matter: every node value
        # is the source density); the documented count is used for the model's nodes
        n_nodes = max(1 + int(np.ceil(L / case["step"])), 4) if ncalls == 0 else -1
    m = beam.to(plasma)
    axis = [m[0, 2], m[1, 2], m[2, 2]]
    origin = [m[0, 3], m[1, 3], m[2, 3]]
    tx, ty = _tan(case["div_x"]), _tan(case["div_y"])
    out = {"const": k, "mass": float(getattr(elements, case["element"]).atomic_weight), "tx": tx, "ty": ty,
           "axis": axis, "origin": origin, "n_nodes": n_nodes,
           "keys": keys[:nsp] if len(keys) >= nsp else keys, "n_key_requests": len(keys),
           "keys_expected": [[case["element"], s["element"], s["charge"]] for s in case["species"]],
           "args": [(e, n, t) for (_, e, n, t, _) in log[:ncalls]], "coef": [v for (_, _, _, _, v) in log[:ncalls]],
           "history_fail": trace, "n_micro": case.pop("_n_micro", 0),
           "order_ok": [i for (i, _, _, _, _) in log[:ncalls]] == [j for _ in range(max(n_nodes, 0)) for j in range(nsp)]}

    s0 = case["sigma"] ** 2

    def sig(z):
        return math.sqrt(s0 + (z * tx) ** 2), math.sqrt(s0 + (z * ty) ** 2)

    # ---- probes (deterministic function of the case so that a replay reproduces them) ----
    import random
    prng = random.Random(json.dumps(case, sort_keys=True))
    zs = list(np.linspace(0.0, L, n_nodes)) if n_nodes >= 2 else [0.0, L]
    short = "inputs:dyadic" in case.get("classes", [])

    def rnd(v, bits=10):
        # short inputs: 10 significant bits (relative, so that it also works for rescaled geometries)
        if not short or v == 0:
            return v
        m, e = math.frexp(v)
        return math.ldexp(round(m * (1 << bits)) / float(1 << bits), e)
    # the node values themselves are compared bit for bit by the float replay; here: the zero-set (exact), the guards, and a
    # few values on and off the axis
    pts = [(0.0, 0.0, 0.0), (0.0, 0.0, -0.0), (-0.0, 0.0, rnd(0.5 * L)), (0.0, 0.0, L), (0.0, 0.0, float(np.nextafter(L, 2 * L))), (0.0, 0.0, L * 1.25),
           (0.0, 0.0, -1e-300), (0.0, 0.0, -0.5), (case["sigma"], 0.0, 0.0), (rnd(0.3 * case["sigma"]), rnd(-0.4 * case["sigma"]), L)]
    for zi in prng.sample(zs, min(1, len(zs))):
        pts.append((0.0, 0.0, float(zi)))
    for _ in range(1):
        pts.append((0.0, 0.0, min(rnd(prng.uniform(0, L)), L)))
    for _ in range(2):
        z = min(rnd(prng.uniform(0, L)), L)
        sx, sy = sig(z)
        pts.append((rnd(prng.uniform(-2.5, 2.5) * sx), rnd(prng.uniform(-2.5, 2.5) * sy), z))
    cs = case["clamp_sigma"]
    for fac in (0.999, 1.001, 1.0 - 1e-13, 1.5):
        z = min(rnd(prng.uniform(0, L)), L)
        sx, sy = sig(z)
        th = prng.uniform(0, 2 * math.pi)
        pts.append((fac * cs * sx * math.cos(th), fac * cs * sy * math.sin(th), z))
    errors = []

    def call(fn, x, y, z):
        # an exception on a valid input is a finding: recorded with the input, reported by c04.run
        try:
            return fn(*_probe_args(case, x, y, z))
        except Exception as e:                       # noqa: BLE001 (recorded, never swallowed)
            errors.append({"call": fn.__name__, "point": [x, y, z], "exception": "%s: %s" % (type(e).__name__, e)})
            return None
    dens = []
    for (x, y, z) in pts:
        v = call(beam.density, x, y, z)
        dens.append((x, y, z, -1.0 if v is None or v != v else v))
    dpts = [(0.0, 0.0, 0.5 * L), (0.3, -0.2, 0.0), (0.1, 0.1, -1.0), (case["sigma"], -case["sigma"], -0.0)]
    for _ in range(4):
        z = rnd(prng.uniform(1e-3, 1.2 * L)) or 0.5 * L
        sx, sy = sig(z)
        dpts.append((rnd(prng.uniform(-3, 3) * sx), rnd(prng.uniform(-3, 3) * sy), z))
    dirs = []
    for (x, y, z) in dpts:
        d = call(beam.direction, x, y, z)
        dirs.append((x, y, z, d.x, d.y, d.z) if d is not None and d.x == d.x and d.y == d.y and d.z == d.z else (x, y, z, 9.0, 9.0, 9.0))
    out["dens"], out["dirs"], out["errors"] = dens, dirs, errors
    out["first"] = first
    # intermediate values held by the attenuator (readonly attributes of the extension type)
    att = beam.attenuator
    out["src"] = float(att._source_density)
    out["intermediates_ok"] = (float(att._tanxdiv) == tx and float(att._tanydiv) == ty and float(att._step) == float(case["step"])
                               and abs(float(att._clamp_sigma_sqr) - cs * cs) <= 2.3e-16 * cs * cs)
    out["intermediates"] = {"_tanxdiv": float(att._tanxdiv), "_tanydiv": float(att._tanydiv), "_step": float(att._step),
                            "_clamp_sigma_sqr": float(att._clamp_sigma_sqr), "expected": [tx, ty, case["step"], cs * cs]}
    # SingleRayAttenuator.density called directly, on the axis: inside the beam, just inside / outside the
    # interpolator's extrapolation range (1e-9), far outside (ValueError expected -> recorded as -2)
    adens = []
    for z in (rnd(0.5 * L), -0.9e-9, -1.1e-9 if L > 1e-6 else -2e-9, L + 0.9e-9 if L + 0.9e-9 > L else L,
              L + max(1.1e-9, 4 * (float(np.nextafter(L, 2 * L)) - L))):
        try:
            v = att.density(0.0, 0.0, z)
            v = -1.0 if v != v else float(v)
        except ValueError:
            v = -2.0
        adens.append((0.0, 0.0, float(z), v))
    out["adens"] = adens
    # ---- data for the bit-exact replay of the attenuation loop (Model/C04_Float.v) ----
    out["exact"] = None
    if nsp and n_nodes >= 2 and first == first:
        from scipy.integrate import cumulative_trapezoid
        from raysect.core import Point3D
        from cherab.core.utility import EvAmuToMS
        zn = np.linspace(0.0, float(L), n_nodes)
        dfn = [prof_fn(s["dens"]) for s in case["species"]]
        terms, S = [], np.zeros(n_nodes)
        for i in range(n_nodes):
            p = Point3D(0.0, 0.0, zn[i]).transform(m)           # the point the attenuator samples (same raysect call)
            row, acc = [], 0.0
            for j, s in enumerate(case["species"]):
                d = float(dfn[j](p.x, p.y, p.z))
                row.append((d, float(s["charge"]), out["coef"][i * nsp + j]))
                acc += (d * s["charge"]) * out["coef"][i * nsp + j]
            terms.append(row)
            S[i] = acc
        spd = float(EvAmuToMS.to(float(case["energy"])))
        with np.errstate(all="ignore"):
            eargs = -cumulative_trapezoid(S, zn, initial=0) / spd
            evals = np.exp(eargs)
        ys = [float(att._density(float(zz))) for zz in zn[:-1]]
        if np.all(np.isfinite(eargs)) and np.all(np.isfinite(S)) and all(y == y and abs(y) != float("inf") for y in ys):
            out["exact"] = {"L": float(L), "n": n_nodes, "P": float(case["power"]), "E": float(case["energy"]), "m": out["mass"],
                            "ec": k["ec"], "cf": k["cf"], "speed": spd, "terms": terms,
                            "etab": [(float(a), float(v)) for a, v in zip(eargs, evals)], "ys": ys}

    # ---- oracle tables: libm values at the arguments the model is expected to ask for ----
    speed = math.sqrt(case["energy"] * k["cf"])
    sq = {speed, math.sqrt(axis[0] * axis[0] + axis[1] * axis[1] + axis[2] * axis[2])}
    ex = {}
    for (x, y, z, _) in dens + [a for a in adens if -2e-9 <= a[2] <= L + 2e-9 + 8 * (float(np.nextafter(L, 2 * L)) - L)]:
        if 0 <= z <= L or x == 0.0 == y:
            sx, sy = sig(z)
            sq.update((sx, sy))
            key = -0.5 * ((x / sx) ** 2 + (y / sy) ** 2)
            ex[key] = math.exp(key)
    if n_nodes >= 2:
        dfn = [prof_fn(s["dens"]) for s in case["species"]]
        S = []
        for i, z in enumerate(zs):
            p = [origin[j] + float(z) * axis[j] for j in range(3)]
            S.append(sum(Fraction(dfn[j](*p) * case["species"][j]["charge"]) * Fraction(out["coef"][i * nsp + j])
                         for j in range(nsp)))
        T = Fraction(0)
        key = 0.0
        ex[key] = math.exp(key)
        for i in range(1, n_nodes):
            T += (Fraction(L) * i / (n_nodes - 1) - Fraction(L) * (i - 1) / (n_nodes - 1)) * (S[i - 1] + S[i]) / 2
            key = -float(T / Fraction(speed))
            ex[key] = math.exp(key)
    out["sqrt_tab"] = sorted(sq)
    out["exp_tab"] = sorted(ex.items())
    return out


# ---------------------------------------------------------------------------------------------
# failing-input search: the property itself, evaluated on the real implementation
# ---------------------------------------------------------------------------------------------
_GL = {}


def _gauss_legendre(n):
    if n not in _GL:
        _GL[n] = np.polynomial.legendre.leggauss(n)
    return _GL[n]


def documented_stopping(case, axis, origin, cf):
    """S(z) = sum_i Z_i n_i S_i(E_i, sum_j Z_j^2 n_j / Z_i, T_i) on the beam axis, from the case description."""
    sp = case["species"]
    dfn = [prof_fn(s["dens"]) for s in sp]
    tfn = [prof_fn(s["temp"]) for s in sp]
    vfn = [[prof_fn(p) for p in s["vel"]] for s in sp]
    rfn = [rate_fn(s["rate"]) for s in sp]
    speed = math.sqrt(case["energy"] * cf)
    an = math.sqrt(_dot(axis, axis))
    bv = [a / an * speed for a in axis]

    def S(z):
        p = [origin[j] + z * axis[j] for j in range(3)]
        n = [f(*p) for f in dfn]
        dsum = sum(s["charge"] ** 2 * ni for s, ni in zip(sp, n))
        tot = 0.0
        for i, s in enumerate(sp):
            v = [bv[j] - vfn[i][j](*p) for j in range(3)]
            e = _dot(v, v) / cf
            tot += s["charge"] * n[i] * rfn[i](e, dsum / s["charge"], tfn[i](*p))
        return tot
    return S, speed


def search_case(case, thorough=False):
    """executable statement of the property on the real implementation; an exception raised by the implementation on
    these valid inputs is itself a failure (reported with the case and the traceback tail)"""
    import traceback
    try:
        return _search_case(case, thorough)
    except Exception as e:                           # noqa: BLE001 (reported as a failure, never swallowed)
        return [{"case": case, "claim": "Beam.density / Beam.direction are defined (raise nothing) on valid inputs",
                 "exception": "%s: %s" % (type(e).__name__, e), "where": traceback.format_exc().strip().splitlines()[-3:]}]


def _search_case(case, thorough=False):
    from cherab.core.atomic import elements
    fails = []
    beam, plasma = build(case)
    k = constants()
    L = case["length"]
    m = beam.to(plasma)
    axis = [m[0, 2], m[1, 2], m[2, 2]]
    origin = [m[0, 3], m[1, 3], m[2, 3]]
    S, speed = documented_stopping(case, axis, origin, k["cf"])
    mass = float(getattr(elements, case["element"]).atomic_weight)
    n0 = case["power"] / (case["energy"] * mass * k["ec"]) / speed
    tx, ty = _tan(case["div_x"]), _tan(case["div_y"])
    s0 = case["sigma"] ** 2
    info = {"case": case}

    def sig(z):
        return math.sqrt(s0 + (z * tx) ** 2), math.sqrt(s0 + (z * ty) ** 2)

    # reference exponent int_0^z S/v with an allowance for the documented discretisation (trapezoid on the
    # attenuator's nodes, linear interpolation of the node values)
    nn = max(1 + int(math.ceil(L / case["step"])), 4)
    h = L / (nn - 1)
    sub = 40 if thorough else 16
    seg_int, seg_osc = [], []
    for i in range(nn - 1):
        zz = [h * i + h * j / sub for j in range(sub + 1)]
        ss = [S(z) for z in zz]
        seg_int.append(sum((ss[j] + ss[j + 1]) / 2 for j in range(sub)) * h / sub)
        seg_osc.append((max(ss) - min(ss)) * h)

    def ref(z):
        i = min(int(z / h), nn - 2)
        tau = sum(seg_int[:i])
        allow = sum(seg_osc[:i + 1]) * (1 + 1.0 / sub)
        zz = [h * i + (z - h * i) * j / sub for j in range(sub + 1)]
        ss = [S(q) for q in zz]
        tau += sum((ss[j] + ss[j + 1]) / 2 for j in range(sub)) * (z - h * i) / sub
        dtau = seg_int[i] / speed
        return tau / speed, allow / speed + dtau * dtau / 8 * 1.01

    # (a) cross-section integral = P/(E m)/v exp(-int S/v)   (polar quadrature in x/sigma_x, y/sigma_y)
    cs = case["clamp_sigma"]
    R = min(cs * (1 - 1e-9), 9.0) if case["clamp"] else 9.0
    gx, gw = _gauss_legendre(48 if thorough else 32)
    nth = 16
    zlist = [0.0, L, 0.5 * L, 0.37 * L] + ([0.81 * L, 0.123 * L, h, 2.5 * h if 2.5 * h < L else 0.9 * L] if thorough else [])
    flux0 = None
    for z in zlist:
        sx, sy = sig(z)
        tot = 0.0
        for r, w in zip(gx, gw):
            rho = 0.5 * R * (r + 1)
            acc = 0.0
            for t in range(nth):
                th = 2 * math.pi * (t + 0.5) / nth
                acc += beam.density(sx * rho * math.cos(th), sy * rho * math.sin(th), z)
            tot += w * 0.5 * R * rho * acc * (2 * math.pi / nth)
        flux = tot * sx * sy
        tau, allow = ref(z)
        want = n0 * math.exp(-tau) * (1 - math.exp(-0.5 * R * R))
        tol = 1e-7 + math.expm1(min(allow, 50.0))
        if not abs(flux - want) <= tol * want:
            fails.append(dict(info, claim="cross-section integral of Beam.density equals P/(E m)/v * exp(-int_0^z S/v)",
                              z=z, flux=flux, expected=want, rel_tolerance=tol))
            break
        if all(s["rate"] == ["c", 0.0] for s in case["species"]):
            if flux0 is None:
                flux0 = flux
            elif not abs(flux - flux0) <= 1e-9 * flux0:
                fails.append(dict(info, claim="without stopping the flux is the same at every z", z=z, flux=flux, flux_at_0=flux0))
                break

    # (b) on-axis density never increases with z
    zs = sorted(set([h * i for i in range(nn)] + [L] + [L * j / 97.0 for j in range(98)]))
    zs = [z for z in zs if 0 <= z <= L]
    vals = [beam.density(0.0, 0.0, z) for z in zs]
    for a, b, za, zb in zip(vals, vals[1:], zs, zs[1:]):
        if not (b <= a * (1 + 1e-12)) or not b >= 0:
            fails.append(dict(info, claim="on-axis density never increases with z", z0=za, z1=zb, n0=a, n1=b))
            break

    # (c) zero before the source, beyond the length, outside the clamp radius; positive inside
    for (x, y, z) in [(0, 0, -1e-9), (0, 0, -1.0), (0.01, 0.0, -1e-300), (0, 0, float(np.nextafter(L, 2 * L))), (0, 0, L + 1e-9), (0.0, 0.01, 2 * L)]:
        v = beam.density(x, y, z)
        if v != 0:
            fails.append(dict(info, claim="density is zero before the source and beyond the beam length", point=[x, y, z], density=v))
            break
    for z in (0.0, 0.5 * L, L):
        sx, sy = sig(z)
        for th in (0.3, 1.9, 4.0):
            if case["clamp"]:
                v = beam.density(1.001 * cs * sx * math.cos(th), 1.001 * cs * sy * math.sin(th), z)
                if v != 0:
                    fails.append(dict(info, claim="with clamping on the density is zero outside the clamp radius", z=z, theta=th, density=v))
                    break
            fac = 0.999 * cs if case["clamp"] else 7.0
            v = beam.density(fac * sx * math.cos(th), fac * sy * math.sin(th), z)
            if not v > 0:
                fails.append(dict(info, claim="density is positive inside the beam envelope / clamp radius", z=z, theta=th, density=v))
                break

    # (d) direction: unit vector, (0,0,1) behind the source, streamlines keep x/sigma_x and y/sigma_y
    for (x, y, z) in [(0.1, -0.2, -0.3), (0.0, 0.0, 0.0), (0.2, 0.1, 0.0)]:
        d = beam.direction(x, y, z)
        if (d.x, d.y, d.z) != (0.0, 0.0, 1.0):
            fails.append(dict(info, claim="direction is the beam axis for z <= 0", point=[x, y, z], direction=[d.x, d.y, d.z]))
            break
    z0 = 0.02 * L
    sx0, sy0 = sig(z0)
    x, y = 0.7 * sx0, -1.3 * sy0
    u0, v0 = x / sx0, y / sy0
    nst = 600 if thorough else 300      # RK4: 60 steps left 7e-6 of integration error for sigma << length * tan (seed 3 false alarm)
    dz = (L - z0) / nst

    def slope(x, y, z):
        d = beam.direction(x, y, z)
        if abs(math.sqrt(d.x * d.x + d.y * d.y + d.z * d.z) - 1) > 1e-12:
            raise ArithmeticError((x, y, z, d.x, d.y, d.z))
        return d.x / d.z, d.y / d.z
    try:
        z = z0
        for _ in range(nst):
            k1 = slope(x, y, z)
            k2 = slope(x + 0.5 * dz * k1[0], y + 0.5 * dz * k1[1], z + 0.5 * dz)
            k3 = slope(x + 0.5 * dz * k2[0], y + 0.5 * dz * k2[1], z + 0.5 * dz)
            k4 = slope(x + dz * k3[0], y + dz * k3[1], z + dz)
            x += dz * (k1[0] + 2 * k2[0] + 2 * k3[0] + k4[0]) / 6
            y += dz * (k1[1] + 2 * k2[1] + 2 * k3[1] + k4[1]) / 6
            z += dz
        sx, sy = sig(z)
        if abs(x / sx - u0) > 1e-6 * abs(u0) + 1e-9 or abs(y / sy - v0) > 1e-6 * abs(v0) + 1e-9:
            fails.append(dict(info, claim="streamlines of Beam.direction keep x/sigma_x(z) and y/sigma_y(z) constant",
                              start=[0.7 * sx0, -1.3 * sy0, z0], end=[x, y, z], u=[u0, x / sx], v=[v0, y / sy]))
    except ArithmeticError as e:
        fails.append(dict(info, claim="direction is a unit vector", detail=[float(t) for t in e.args[0]]))
    fails += _search_extra(case, beam, plasma, info, sig)
    return fails


def _search_extra(case, beam, plasma, info, sig):
    """Blind-spot classes: alternative entry points and routes of the anchored files, order of the species, exact
    floating-point boundaries of the comparisons in the code, extreme magnitudes."""
    import copy
    from cherab.core.utility import conversion
    fails = []
    L, cs = case["length"], case["clamp_sigma"]
    att = beam.attenuator
    pts = [(0.0, 0.0, 0.25 * L), (0.6 * sig(0.5 * L)[0], -0.4 * sig(0.5 * L)[1], 0.5 * L), (0.0, 0.0, L), (0.1 * case["sigma"], 0.0, 0.0)]
    base = [beam.density(*p) for p in pts]

    # (e) second-order call sites: getters, attenuator.density called directly, explicit calculate_attenuation(),
    #     conversion round trips, every route to the same attenuator configuration (defaults vs explicit arguments)
    if att.step != case["step"] or abs(att.clamp_sigma - cs) > 4e-16 * cs or bool(att.clamp_to_zero) != bool(case["clamp"]):
        fails.append(dict(info, claim="attenuator getters return the configured step / clamp_sigma / clamp_to_zero",
                          got=[att.step, att.clamp_sigma, bool(att.clamp_to_zero)], want=[case["step"], cs, case["clamp"]]))
    direct = [att.density(*p) for p in pts]
    if direct != base:
        fails.append(dict(info, claim="attenuator.density called directly equals Beam.density inside the beam", points=pts, beam=base, attenuator=direct))
    att.calculate_attenuation()
    again = [beam.density(*p) for p in pts]
    if again != base:
        fails.append(dict(info, claim="calculate_attenuation() leaves the density unchanged", points=pts, before=base, after=again))
    e = case["energy"]
    v = conversion.EvAmuToMS.to(e)
    if abs(float(v) - math.sqrt(e * conversion.EvAmuToMS.conversion_factor)) > 1e-15 * float(v) or \
            abs(conversion.EvAmuToMS.inv(v) - e) > 1e-14 * e or abs(conversion.EvToJ.inv(conversion.EvToJ.to(e)) - e) > 1e-14 * e \
            or abs(conversion.EvToJ.to(e) - e * conversion.EvToJ.conversion_factor) > 1e-15 * e * conversion.EvToJ.conversion_factor:
        fails.append(dict(info, claim="EvAmuToMS / EvToJ conversions are sqrt(2 e E / amu), e E and their inverses", energy=e, speed=float(v)))
    for route in ("constructor", "setters", "explicit"):
        alt = copy.deepcopy(flat(case))
        alt["att_route"] = route
        other = _fresh(alt)[0]
        vals = [other.density(*p) for p in pts]
        if vals != base:
            fails.append(dict(info, claim="the density does not depend on the route by which the attenuator was configured",
                              route=route, points=pts, this=base, other=vals))
            break

    # (f) order of the species in the composition
    if len(case["species"]) > 1:
        alt = copy.deepcopy(flat(case))
        alt["species"] = alt["species"][::-1]
        alt["history"] = None
        other = _fresh(alt)[0]
        vals = [other.density(*p) for p in pts]
        # rounding of the sum over species is amplified by the optical depth and by raysect's interpolation (see tol_interp)
        if any(abs(a - b) > 1e-10 * abs(b) + 1e-15 * max(base) for a, b in zip(vals, base)):
            fails.append(dict(info, claim="the density does not depend on the order of the species in the composition",
                              points=pts, this=base, reversed=vals))

    # (g) one ulp either side of the clamp radius: positive ... positive, zero ... zero, switching once next to it
    if case["clamp"]:
        z = 0.5 * L
        sx, _ = sig(z)
        if beam.density(0.0, 0.0, z) > 0:
            xb = cs * sx
            xs = [xb]
            for _ in range(6):
                xs.insert(0, float(np.nextafter(xs[0], 0.0)))
                xs.append(float(np.nextafter(xs[-1], 2 * xb)))
            pos = [beam.density(x, 0.0, z) > 0 for x in xs]
            if not (pos[0] and not pos[-1] and pos == sorted(pos, reverse=True)):
                fails.append(dict(info, claim="the density switches to zero exactly once within a few ulp of the clamp radius",
                                  z=z, xs=xs, positive=pos))

    # (i) extreme clamp settings (clamp_sigma ** 2 under- / overflows): the zero-set clause must still hold.
    #     1e-170 is accepted and stores a zero radius: zero everywhere off the axis, positive on it;
    #     1e160 through the constructor stores +inf: nothing is clamped (the setter raises OverflowError instead: recorded
    #     as the expected outcome of that route, not asserted)
    if case["clamp"]:
        alt = copy.deepcopy(flat(case))
        alt["att_route"], alt["argforms"] = "constructor", False
        z = 0.5 * L
        sx, sy = sig(z)
        alt["clamp_sigma"] = 1e-170
        tiny = _fresh(alt)[0]
        alt["clamp_sigma"] = 1e160
        huge = _fresh(alt)[0]
        alt["clamp"] = False
        off = _fresh(alt)[0]
        p_far = (3.0 * cs * sx, -2.0 * cs * sy, z)
        got = [tiny.density(1e-3 * sx, 0.0, z), tiny.density(0.0, 0.0, z), huge.density(*p_far), off.density(*p_far), off.density(0.0, 0.0, z)]
        if not (got[0] == 0.0 and got[1] == got[4] and got[2] == got[3]):
            fails.append(dict(info, claim="extreme clamp_sigma (1e-170, 1e160): zero outside the clamp radius, unclamped inside",
                              z=z, point_far=p_far, values=got))

    # (h) extreme magnitudes of z in the direction field (z*z under- or overflows in double precision)
    sg = case["sigma"]
    for z in (5e-324, 1e-200, 1e-160, 1e160):
        try:
            d = beam.direction(sg, -sg, z)
            n = math.sqrt(d.x * d.x + d.y * d.y + d.z * d.z)
            ok = abs(n - 1) <= 1e-12
            got = [d.x, d.y, d.z]
        except Exception as ex:                          # noqa: BLE001 (reported)
            ok, got = False, "%s: %s" % (type(ex).__name__, ex)
        if not ok:
            fails.append({"key": "c04:direction-extreme-z", "claim": "direction is a unit vector for every z > 0 "
                          "(fails where z*z under- or overflows: 0 < z < 1.5e-154 or z > 1.3e154)",
                          "point": [sg, -sg, z], "got": got, "beam": {k: case[k] for k in ("sigma", "div_x", "div_y")}})
            break
    return fails


# ---------------------------------------------------------------------------------------------
# setter histories on a live Beam and a live SingleRayAttenuator (argument-validation policy)
# ---------------------------------------------------------------------------------------------
SET_FIELDS = [("FEnergy", "beam", "energy"), ("FPower", "beam", "power"), ("FTemperature", "beam", "temperature"),
              ("FDivX", "beam", "divergence_x"), ("FDivY", "beam", "divergence_y"), ("FLength", "beam", "length"),
              ("FSigma", "beam", "sigma"), ("FStep", "att", "step"), ("FClampSigma", "att", "clamp_sigma")]


def gen_sets(rng, n):
    """a history of n setter calls with values on both sides of every guard: +-0.0, +-smallest subnormal, +-tiny, negative,
    positive, huge, and the forms int / numpy scalar"""
    pool = [0.0, -0.0, 5e-324, -5e-324, 1e-300, -1e-300, -1.0, -0.125, 1.0, 0.5, 3.0, 1e300, -1e300, 2.0 ** -30, 7.0]
    ops = []
    for _ in range(n):
        f = rng.choice(SET_FIELDS)
        r = rng.random()
        v = rng.choice(pool) if r < 0.7 else (rng.uniform(-2, 5) if r < 0.85 else dyadic(rng, -1, 4, 4))
        if f[0] == "FClampSigma" and v > 1e150:
            v = 1e150          # clamp_sigma ** 2 overflows above 1.3e154 (Python raises OverflowError; state unchanged): not modelled
        if f[0] == "FClampSigma" and 0 < v < 1e-150:
            v = 2.0 ** -30     # clamp_sigma ** 2 underflows to 0.0 below 1.5e-162 (accepted, stores a zero radius): not modelled
        form = rng.choice(["float", "float", "int", "np.float64", "np.float32"])
        ops.append({"field": f[0], "value": v, "form": form})
    return ops


def run_sets(ops):
    from cherab.core import Beam
    from cherab.core.model import SingleRayAttenuator
    objs = {"beam": Beam(), "att": SingleRayAttenuator()}
    table = {f[0]: f for f in SET_FIELDS}
    oks, used = [], []
    for op in ops:
        _, who, attr = table[op["field"]]
        v = op["value"]
        if op["form"] == "int" and float(v).is_integer() and abs(v) < 2 ** 31:
            arg = int(v)
        elif op["form"] == "np.float32" and float(np.float32(v)) == v:
            arg = np.float32(v)
        elif op["form"] == "np.float64":
            arg = np.float64(v)
        else:
            arg = float(v)
        try:
            setattr(objs[who], attr, arg)
            oks.append(True)
        except ValueError:
            oks.append(False)
        used.append(float(v))
    finals = []
    for fname, who, attr in SET_FIELDS:
        g = float(getattr(objs[who], attr))
        finals.append((fname, float(objs["att"]._clamp_sigma_sqr) if fname == "FClampSigma" else g))
        if fname == "FClampSigma" and abs(g * g - float(objs["att"]._clamp_sigma_sqr)) > 1e-15 * g * g:
            finals.append(("FClampSigma", -1.0))          # getter is not the square root of the stored square
    return oks, finals
