"""C07 -- driving the real OpenADAS provider: repositories are written with the repository's own
add_* functions, rates are obtained through cherab.openadas.OpenADAS, evaluated through __call__.

Nothing here decides the property; it only stores data, calls the implementation and records what
came back."""
import copy
import math
import os
import shutil
from collections import namedtuple

Acc = namedtuple("Acc", "name coq family slots photon wl_slot")

# the 14 accessor methods of cherab/openadas/openadas.py
ACCS = [
    Acc("wavelength", "AWavelength", "wl", 1, False, 1),
    Acc("ionisation_rate", "AIonisation", "2d", 1, False, 0),
    Acc("recombination_rate", "ARecombination", "2d", 1, False, 0),
    Acc("thermal_cx_rate", "AThermalCXRate", "2d", 2, False, 0),
    Acc("beam_cx_pec", "ABeamCXPEC", "cx", 2, True, 2),
    Acc("beam_stopping_rate", "ABeamStopping", "beam", 2, False, 0),
    Acc("beam_population_rate", "ABeamPopulation", "beam", 2, False, 0),
    Acc("beam_emission_pec", "ABeamEmissionPEC", "beam", 2, True, 1),
    Acc("impact_excitation_pec", "AImpactExcitationPEC", "2d", 1, True, 1),
    Acc("recombination_pec", "ARecombinationPEC", "2d", 1, True, 1),
    Acc("thermal_cx_pec", "AThermalCXPEC", "3d", 2, True, 2),
    Acc("line_radiated_power_rate", "ALinePower", "2d", 1, False, 0),
    Acc("continuum_radiated_power_rate", "AContinuumPower", "2d", 1, False, 0),
    Acc("cx_radiated_power_rate", "ACXPower", "2d", 1, False, 0),
]
BY_NAME = {a.name: a for a in ACCS}

CH = 2            # charge of the single species of one-species accessors
RCH = 6           # receiver / target charge of two-species accessors
TR = (3, 2)       # transition of one-species accessors and of the beam atom
TR2 = (8, 7)      # transition of the receiver
MS = 2            # beam metastable (population) / donor metastable (beam CX)

_el = None


def elements():
    global _el
    if _el is None:
        from cherab.core.atomic import elements as e
        _el = e
    return _el


def species(acc, slot, kind):
    """slot 1 of a two-species accessor: hydrogen / deuterium / tritium; every other species: carbon / carbon13 / carbon12
    (kind: "el", "iso" = first isotope, "iso2" = a second isotope of the same element)"""
    e = elements()
    if acc.slots == 2 and slot == 1:
        return {"el": e.hydrogen, "iso": e.deuterium, "iso2": e.tritium}[kind]
    return {"el": e.carbon, "iso": e.carbon13, "iso2": e.carbon12}[kind]


def variant_key(acc, v):
    """the two repository keys (variant 0 / 1) an accessor can be asked for: a different charge, transition or
    metastable.  Returns (charge-like, transition, metastable)."""
    n = acc.name
    if n in ("ionisation_rate", "recombination_rate", "line_radiated_power_rate", "continuum_radiated_power_rate",
             "cx_radiated_power_rate"):
        return CH + v, None, None
    if n in ("thermal_cx_rate", "beam_stopping_rate"):
        return RCH - v, None, None
    if n == "beam_population_rate":
        return RCH, None, MS + v
    if n in ("beam_cx_pec", "thermal_cx_pec"):
        return RCH, (9, 8) if v else TR2, MS
    if n == "beam_emission_pec":
        return RCH, (4, 2) if v else TR, None
    return CH, (4, 2) if v else TR, None          # wavelength, impact_excitation_pec, recombination_pec


def wl_key(acc, sp1, sp2, v=0):
    """(species, charge, transition) whose wavelength converts photons to watts"""
    ch, tr, _ = variant_key(acc, v)
    if acc.name in ("beam_cx_pec", "thermal_cx_pec"):
        return sp2, RCH - 1, tr
    if acc.name == "beam_emission_pec":
        return sp1, 0, tr
    return sp1, CH, tr


# ---- tables --------------------------------------------------------------------------------------
def main_key(family):
    return {"2d": "rate", "3d": "rate", "beam": "sen", "cx": "qeb"}[family]


def scaled(family, data, f):
    import numpy as np
    d = copy.deepcopy(data)
    k = main_key(family)
    d[k] = (np.array(d[k], dtype=float) * f).tolist()
    return d


def store_rate(acc, repo, sp1, sp2, data, otherkey=False, variant=None, metastable=None):
    """write `data` for (sp1, sp2) with the repository's own functions under key variant 0 / 1
    (otherkey=True is variant 1: the file exists but the key asked for with variant 0 does not)"""
    from cherab.openadas import repository as R
    d = copy.deepcopy(data)
    n = acc.name
    v = (1 if otherkey else 0) if variant is None else variant
    ch, tr, ms = variant_key(acc, v)
    if metastable is not None:
        ms = metastable
    adf11 = lambda: {"ne": d["ne"], "te": d["te"], "rates": d["rate"]}
    if n == "ionisation_rate":
        R.add_ionisation_rate(sp1, ch, adf11(), repository_path=repo)
    elif n == "recombination_rate":
        R.add_recombination_rate(sp1, ch, adf11(), repository_path=repo)
    elif n == "thermal_cx_rate":
        R.add_thermal_cx_rate(sp1, 0, sp2, {ch: adf11()}, repository_path=repo)
    elif n == "beam_cx_pec":
        R.add_beam_cx_rate(sp1, ms, sp2, ch, tr, d, repository_path=repo)
    elif n == "beam_stopping_rate":
        R.add_beam_stopping_rate(sp1, sp2, ch, d, repository_path=repo)
    elif n == "beam_population_rate":
        R.add_beam_population_rate(sp1, ms, sp2, ch, d, repository_path=repo)
    elif n == "beam_emission_pec":
        R.add_beam_emission_rate(sp1, sp2, ch, tr, d, repository_path=repo)
    elif n == "impact_excitation_pec":
        R.add_pec_excitation_rate(sp1, ch, tr, d, repository_path=repo)
    elif n == "recombination_pec":
        R.add_pec_recombination_rate(sp1, ch, tr, d, repository_path=repo)
    elif n == "thermal_cx_pec":
        R.add_pec_thermal_cx_rate(sp1, 0, sp2, ch, tr, d, repository_path=repo)
    elif n == "line_radiated_power_rate":
        R.add_line_power_rate(sp1, ch, adf11(), repository_path=repo)
    elif n == "continuum_radiated_power_rate":
        R.add_continuum_power_rate(sp1, ch, adf11(), repository_path=repo)
    elif n == "cx_radiated_power_rate":
        R.add_cx_power_rate(sp1, ch, adf11(), repository_path=repo)
    else:
        raise KeyError(n)


def store_wavelength(acc, repo, sp1, sp2, value, variant=0):
    from cherab.openadas import repository as R
    s, ch, tr = wl_key(acc, sp1, sp2, variant)
    R.add_wavelength(s, ch, tr, value, repository_path=repo)


def call(acc, adas, sp1, sp2, variant=0, argform=0):
    """argform 0: Python int charge, tuple transition; 1: numpy integer charge / metastable, transition as a list of
    numpy integers; 2: transition levels as strings"""
    n = acc.name
    ch, tr, ms = variant_key(acc, variant)
    if argform == 1:
        import numpy as np
        ch = np.int64(ch)
        ms = None if ms is None else np.int32(ms)
        tr = None if tr is None else [np.int64(tr[0]), np.int16(tr[1])]
    elif argform == 2 and tr is not None:
        tr = (str(tr[0]), str(tr[1]))
    if n == "wavelength":
        return adas.wavelength(sp1, ch, tr)
    if n in ("ionisation_rate", "recombination_rate", "line_radiated_power_rate", "continuum_radiated_power_rate",
             "cx_radiated_power_rate"):
        return getattr(adas, n)(sp1, ch)
    if n == "thermal_cx_rate":
        return adas.thermal_cx_rate(sp1, 0, sp2, ch)
    if n == "beam_cx_pec":
        return adas.beam_cx_pec(sp1, sp2, ch, tr)
    if n == "beam_stopping_rate":
        return adas.beam_stopping_rate(sp1, sp2, ch)
    if n == "beam_population_rate":
        return adas.beam_population_rate(sp1, ms, sp2, ch)
    if n == "beam_emission_pec":
        return adas.beam_emission_pec(sp1, sp2, ch, tr)
    if n in ("impact_excitation_pec", "recombination_pec"):
        return getattr(adas, n)(sp1, ch, tr)
    if n == "thermal_cx_pec":
        return adas.thermal_cx_pec(sp1, 0, sp2, ch, tr)
    raise KeyError(n)


def make_adas(repo, pe, null, fb, form=0):
    """the provider; form 0: keyword arguments, 1: positional, 2: flags as ints, 3: only the flags that differ from
    the defaults are passed (default arguments vs explicit ones).  repo None: the default repository path"""
    from cherab.openadas import OpenADAS
    if form == 1:
        return OpenADAS(repo, pe, null, fb)
    if form == 2:
        return OpenADAS(repo, int(pe), int(null), int(fb))
    if form == 3:
        kw = {}
        if repo is not None:
            kw["data_path"] = repo
        if pe:
            kw["permit_extrapolation"] = True
        if null:
            kw["missing_rates_return_null"] = True
        if fb:
            kw["wavelength_element_fallback"] = True
        return OpenADAS(**kw)
    return OpenADAS(data_path=repo, permit_extrapolation=pe, missing_rates_return_null=null,
                    wavelength_element_fallback=fb)


def default_repository():
    """(path, usable): the repository OpenADAS() uses without data_path; usable only inside the check's scratch HOME"""
    from cherab.openadas.repository import DEFAULT_REPOSITORY_PATH as D
    sc = os.environ.get("VERIF_SCRATCH", "")
    return D, bool(sc) and os.path.abspath(D).startswith(os.path.abspath(sc) + os.sep)


def fresh_repo(base, name):
    p = os.path.join(base, name)
    shutil.rmtree(p, ignore_errors=True)
    os.makedirs(p)
    return p


# ---- evaluation ----------------------------------------------------------------------------------
def axes_of(family, data):
    """axes in the order of the arguments of evaluate()"""
    if family == "2d":
        return [data["ne"], data["te"]]
    if family == "3d":
        return [data["ne"], data["te"], data["td"]]
    if family == "beam":
        return [data["e"], data["n"], data["t"]]
    return [data["eb"], data["ti"], data["ni"], data["z"], data["b"]]


def guarded_args(family):
    """indices of the density / temperature / energy arguments (the property's zero guard)"""
    return {"2d": (0, 1), "3d": (0, 1, 2), "beam": (0, 1, 2), "cx": (0, 1, 2)}[family]


def free_axis(family, ax):
    """a single-point axis of a beam / beam-CX rate: the value does not depend on the argument"""
    return family in ("beam", "cx") and len(ax) == 1


def node_value(family, data, idx):
    """the stored table value at a grid point, BEFORE the photon conversion (exact Fractions)"""
    from fractions import Fraction as F
    fr = lambda x: F(*float(x).as_integer_ratio())
    if family == "2d":
        return fr(data["rate"][idx[0]][idx[1]])
    if family == "3d":
        return fr(data["rate"][idx[0]][idx[1]][idx[2]])
    if family == "beam":
        return fr(data["sen"][idx[0]][idx[1]]) * fr(data["st"][idx[2]]) / fr(data["sref"])
    q = fr(data["qeb"][idx[0]]) * fr(data["qti"][idx[1]]) * fr(data["qni"][idx[2]]) * fr(data["qz"][idx[3]]) \
        * fr(data["qb"][idx[4]])
    return q / fr(data["qref"]) ** 4


ERR = {RuntimeError: "ErrRuntime", ValueError: "ErrValue", TypeError: "ErrType", KeyError: "ErrKey"}


def err_name(e):
    return ERR.get(type(e), "ErrOther")


def evalpt(rate, args, style=0):
    """('val', float) | ('raise', coq error name, message) | ('bad', text)
    style 0: rate(*floats); 1: rate.evaluate(*floats) (the cpdef entry point); 2: numpy float64 scalars, and Python ints
    for integral values"""
    try:
        if style == 1:
            v = rate.evaluate(*args)
        elif style == 2:
            import numpy as np
            v = rate(*[int(a) if (float(a).is_integer() and abs(a) < 2 ** 53 and not (a == 0 and math.copysign(1, a) < 0))
                       else np.float64(a) for a in args])
        else:
            v = rate(*args)
    except Exception as e:                      # every exception type is recorded, none is swallowed
        return ("raise", err_name(e), "%s: %s" % (type(e).__name__, str(e)[:120]))
    if isinstance(v, float) and math.isfinite(v):
        return ("val", float(v))
    return ("bad", repr(v))


def apply_form(family, data, form):
    """the same numbers handed to the repository's add_* functions in another container form"""
    import numpy as np
    if form == "list":
        return copy.deepcopy(data)

    def conv(v):
        if not isinstance(v, list):
            return v
        a = np.array(v, dtype=np.float64)
        if form == "tuple":
            tup = lambda x: tuple(tup(y) for y in x) if isinstance(x, list) else x
            return tup(v)
        if form == "ndarray":
            return a
        if form == "fortran-readonly":
            a = np.asfortranarray(a)
            a.setflags(write=False)
            return a
        if form == "float32":
            return a.astype(np.float32)
        if form == "strided":
            big = np.zeros(tuple(2 * n for n in a.shape))
            view = big[tuple(slice(None, None, 2) for _ in a.shape)]
            view[...] = a
            return view
        raise KeyError(form)
    return {k: conv(v) for k, v in data.items()}


def direct_rate(acc, data, wavelength, pe, species_obj, how):
    """the rate class built directly (not through the provider) from numpy data; how 0: extrapolate passed by keyword,
    1: positionally, 2: omitted when False (the default)"""
    import numpy as np
    from cherab.openadas import rates as RT
    d = {k: (np.array(v, dtype=np.float64) if isinstance(v, list) else v) for k, v in data.items()}
    n = acc.name
    cls, pre = {
        "ionisation_rate": (RT.IonisationRate, (d,)), "recombination_rate": (RT.RecombinationRate, (d,)),
        "thermal_cx_rate": (RT.ThermalCXRate, (d,)),
        "impact_excitation_pec": (RT.ImpactExcitationPEC, (wavelength, d)),
        "recombination_pec": (RT.RecombinationPEC, (wavelength, d)), "thermal_cx_pec": (RT.ThermalCXPEC, (wavelength, d)),
        "beam_stopping_rate": (RT.BeamStoppingRate, (d,)), "beam_population_rate": (RT.BeamPopulationRate, (d,)),
        "beam_emission_pec": (RT.BeamEmissionPEC, (d, wavelength)), "beam_cx_pec": (RT.BeamCXPEC, (MS, wavelength, d)),
        "line_radiated_power_rate": (RT.LineRadiationPower, (species_obj, CH, d)),
        "continuum_radiated_power_rate": (RT.ContinuumPower, (species_obj, CH, d)),
        "cx_radiated_power_rate": (RT.CXRadiationPower, (species_obj, CH, d)),
    }[n]
    if how == 1:
        return cls(*pre, pe)
    if how == 2 and not pe:
        return cls(*pre)
    return cls(*pre, extrapolate=pe)
