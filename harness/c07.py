"""C07 -- OpenADAS rates reproduce stored tables and honour range / missing-data policy.

Theorems: coq/Properties/C07.v.
Tie (T): the policy table of the 14 accessors is probed from the running implementation over the complete
         finite domain (accessor x 3 flags x element/isotope x repository content), written to
         coq/Gen/C07/Policy.v, compared row by row with the model inside Coq and closed by the kernel-checked
         lemma Gen/C07/Tie.v: table_ok.
Tie (X): random positive tables (all families, single-point axes included) are stored with the repository's
         own functions, fetched through OpenADAS and evaluated at every grid point, strictly inside, at
         non-positive arguments and up to a decade outside each axis; every point is compared inside Coq
         (vm_compute) with the model run on the executable oracle instance.
Search : the executable statement of the property on the implementation, on the same points.
"""
import glob
import itertools
import json
import math
import os
import re
import shutil
from fractions import Fraction

from common import qlit, qlist, zlit, coqc, coqc_many, parse_evals, parse_zlist, VERIF

import c07_impl as I

THEOREMS = ["C07_policy_domain_complete", "C07_policy_model_meets_spec", "C07_policy_missing_data",
            "C07_policy_returned_rate", "C07_policy_wavelength", "C07_policy_isotope_wavelength", "C07_history_independent", "C07_policy_aligned_check_sound",
            "C07_rate2_node_partial", "C07_rate3_node_partial", "C07_beam_node_partial",
            "C07_beam_at_reference_partial", "C07_beam_cx_node_partial", "C07_nonneg", "C07_guard_zero",
            "C07_range_policy", "C07_exec_instance_lawful", "C07_checked_axis_is_axis",
            "C07_cubic1d_through_knots", "C07_cubic1d_fast_evaluator", "C07_oracle_laws_from_cubic1d", "C07_beam_cx_node_cubic",
            "C07_beam_node_single_axis_cubic", "C07_log_laws_satisfiable", "C07_null_zero_everywhere",
            "C07_bicubic_through_knots", "C07_tricubic_through_knots", "C07_rate2_node_bicubic", "C07_rate3_node_tricubic",
            "C07_beam_node_cubic", "C07_rate2_node_bicubic_rounded"]

NODE_REL = 2.0 ** -30          # the Coq comparator's tolerance (Model/C07_Check.v: tol)
WL_ISO, WL_EL = 400.0, 500.0   # wavelengths stored by the policy probe
DECOY = {("iso", "el"): 2.0, ("el", "iso"): 3.0, ("iso", "iso"): 5.0}

K_SINGLE = "c07:single-point-axis"
K_ENDPOINT = "c07:grid-endpoint:log10-mismatch"
K_CXGUARD = "c07:beam_cx_pec:nonpositive-temperature-density"


def K_WLSPECIES(acc):
    return "c07:policy:%s:wavelength-species" % acc


# =================================================================================================
# policy probe (T)
# =================================================================================================
def base_table(family):
    ne = [1e18, 1e19, 1e20]
    te = [1.0, 10.0, 100.0]
    if family == "2d":
        return {"ne": ne, "te": te, "rate": [[1e-14 * (1 + i + 3 * j) for j in range(3)] for i in range(3)]}
    if family == "3d":
        return {"ne": ne, "te": te, "td": [2.0, 20.0, 200.0],
                "rate": [[[1e-14 * (1 + i + 3 * j + 9 * k) for k in range(3)] for j in range(3)] for i in range(3)]}
    if family == "beam":
        return {"e": [1e3, 1e4, 1e5], "n": ne, "t": [10.0, 100.0, 1000.0],
                "sen": [[1e-14 * (1 + i + 3 * j) for j in range(3)] for i in range(3)],
                "st": [2e-14, 3e-14, 4e-14], "sref": 3e-14, "eref": 1e4, "nref": 1e19, "tref": 100.0}
    return {"eb": [1e3, 1e4, 1e5], "ti": [10.0, 100.0, 1000.0], "ni": ne, "z": [1.0, 2.0, 4.0], "b": [1.5, 3.0, 5.0],
            "qeb": [1e-14, 3e-14, 2e-14], "qti": [2e-14, 2.5e-14, 3e-14], "qni": [2e-14, 2.25e-14, 2.5e-14],
            "qz": [2e-14, 1.75e-14, 1.5e-14], "qb": [2e-14, 2.125e-14, 2.25e-14], "qref": 2e-14}


def policy_cases(acc):
    """the relevant cases of one accessor (mirrors Model/C07_Policy.v: relevant)"""
    kinds2 = ["el", "iso"] if acc.slots == 2 else ["el"]
    if acc.name == "wavelength":
        repos = [("NoFile", False, wi, we) for wi in (False, True) for we in (False, True)]
    elif acc.photon:
        repos = [(r, d, wi, we) for r in ("Present", "NoFile", "NoKey") for d in (False, True)
                 for wi in (False, True) for we in (False, True)]
    else:
        repos = [(r, d, False, False) for r in ("Present", "NoFile", "NoKey") for d in (False, True)]
    for rp in repos:
        for pe in (False, True):
            for null in (False, True):
                for fb in (False, True):
                    for k1 in ("el", "iso"):
                        for k2 in kinds2:
                            yield {"acc": acc.name, "pe": pe, "null": null, "fb": fb, "k1": k1, "k2": k2,
                                   "rate_av": rp[0], "decoy": rp[1], "wl_iso": rp[2], "wl_el": rp[3]}


def build_policy_repo(acc, base, rate_av, decoy, wl_iso, wl_el):
    repo = I.fresh_repo(base, "p_%s_%s_%d%d%d" % (acc.name, rate_av, decoy, wl_iso, wl_el))
    el1, iso1 = I.species(acc, 1, "el"), I.species(acc, 1, "iso")
    el2, iso2 = I.species(acc, 2, "el"), I.species(acc, 2, "iso")
    if acc.name != "wavelength":
        data = base_table(acc.family)
        if rate_av == "Present":
            I.store_rate(acc, repo, el1, el2, data)
        elif rate_av == "NoKey":
            I.store_rate(acc, repo, el1, el2, data, otherkey=True)
        if decoy:
            I.store_rate(acc, repo, iso1, el2, I.scaled(acc.family, data, DECOY[("iso", "el")]))
            if acc.slots == 2:
                I.store_rate(acc, repo, el1, iso2, I.scaled(acc.family, data, DECOY[("el", "iso")]))
                I.store_rate(acc, repo, iso1, iso2, I.scaled(acc.family, data, DECOY[("iso", "iso")]))
    if acc.photon or acc.name == "wavelength":
        # the wavelength belongs to the species of slot acc.wl_slot
        if wl_iso:
            I.store_wavelength(acc, repo, iso1, iso2, WL_ISO)
        if wl_el:
            I.store_wavelength(acc, repo, el1, el2, WL_EL)
    return repo


def classify_policy(acc, obj, cf, scale=1.0, lam_iso=WL_ISO, lam_el=WL_EL):
    """what came back, as a pout constructor (string) -- by behaviour only.
    scale: factor of the element's table currently stored; lam_iso / lam_el: wavelengths currently stored for the
    requested isotope / the element (None: not stored)"""
    if acc.name == "wavelength":
        return "PWave WIso" if obj == lam_iso else "PWave WEl" if obj == lam_el else "POther"
    objs = obj if isinstance(obj, list) else [obj]
    if acc.name == "beam_cx_pec":
        if not isinstance(obj, list) or len(obj) != 1:
            return "POther"
    data = base_table(acc.family)
    axes = I.axes_of(acc.family, data)
    node = [ax[1] for ax in axes]
    low = [axes[0][0] / 2] + node[1:]
    high = [axes[0][-1] * 2] + node[1:]
    rate = objs[0]
    r = I.evalpt(rate, node)
    if r[0] != "val":
        return "POther"
    if r[1] == 0.0:
        probes = [node, low, high, [0.0] + node[1:], [-1.0] + node[1:], [ax[0] for ax in axes], [ax[-1] * 7 for ax in axes]]
        return "PNull" if all(I.evalpt(rate, p) == ("val", 0.0) for p in probes) else "POther"
    base = float(I.node_value(acc.family, data, [1] * len(axes)))
    ratio = r[1] / base
    found = None
    for (s1, s2, f) in (("SrcEl", "SrcEl", scale), ("SrcIso", "SrcEl", 2.0), ("SrcEl", "SrcIso", 3.0), ("SrcIso", "SrcIso", 5.0)):
        if acc.photon:
            for w, lam in (("WIso", lam_iso), ("WEl", lam_el)):
                if lam is not None and abs(ratio / (f * cf / lam) - 1) < 1e-9:
                    found = (s1, s2, w)
        elif abs(ratio / f - 1) < 1e-9:
            found = (s1, s2, "WNone")
    if found is None:
        return "POther"
    lo, hi = I.evalpt(rate, low), I.evalpt(rate, high)
    if lo[0] == "raise" and hi[0] == "raise" and lo[1] == "ErrValue" and hi[1] == "ErrValue":
        out = "ORaise"
    elif lo[0] == "val" and hi[0] == "val" and lo[1] >= 0 and hi[1] >= 0:
        out = "OFinite"
    else:
        out = "OBad"
    return "PRate %s %s %s %s" % (found + (out,))


def coq_case(c):
    b = lambda v: "true" if v else "false"
    k = lambda v: "KIsotope" if v == "iso" else "KElement"
    return "mkcase %s %s %s %s %s %s %s %s %s %s" % (
        I.BY_NAME[c["acc"]].coq, b(c["pe"]), b(c["null"]), b(c["fb"]), k(c["k1"]), k(c["k2"]), c["rate_av"],
        b(c["decoy"]), b(c["wl_iso"]), b(c["wl_el"]))


def probe_policy(ctx, scratch, cf):
    rows = []
    repos = {}
    for acc in I.ACCS:
        for c in policy_cases(acc):
            key = (acc.name, c["rate_av"], c["decoy"], c["wl_iso"], c["wl_el"])
            if key not in repos:
                repos[key] = build_policy_repo(acc, scratch, *key[1:])
                ctx.crumb({"policy_repository": key})
            adas = I.make_adas(repos[key], c["pe"], c["null"], c["fb"])
            sp1, sp2 = I.species(acc, 1, c["k1"]), I.species(acc, 2, c["k2"])
            try:
                obj = I.call(acc, adas, sp1, sp2)
            except Exception as e:        # recorded as the outcome of this case, compared with the model in Coq
                out = "PRaise %s" % I.err_name(e)
                c = dict(c, message="%s: %s" % (type(e).__name__, str(e)[:100]))
            else:
                out = classify_policy(acc, obj, cf)
            rows.append((c, out))
    return rows


def aspect(expected, observed):
    e, o = expected.split(), observed.split()
    if e[0] != o[0]:
        return "kind"                       # rate / null / raise
    if e[0] == "PRaise":
        return "error-type"
    if e[0] == "PRate":
        if e[1:3] != o[1:3]:
            return "rate-source"
        if e[3] != o[3]:
            return "wavelength-species"
        return "outside-range"
    if e[0] == "PWave":
        return "wavelength-species"
    return "other"


def policy_tie(ctx, rows):
    """Gen/C07/Policy.v (table + row-by-row comparison inside Coq), then Gen/C07/Tie.v (kernel-checked lemma)"""
    txt = ["Require Import Cherab.Common.Qx Cherab.Model.C07_Policy.",
           "Definition impl_table : ptable := ["]
    txt.append(";\n".join("  (%s, %s)" % (coq_case(c), o) for c, o in rows))
    txt += ["].",
            "Eval vm_compute in (failing (rows_vs_model impl_table)).",
            "Eval vm_compute in (failing (rows_vs_spec impl_table)).",
            "Eval vm_compute in (failing (map (fun r => pout_eqb (code_outcome (fst r)) (snd r)) impl_table)).",
            "Eval vm_compute in (failing [cases_aligned all_cases impl_table]).",
            "Eval vm_compute in [Z.of_nat (length all_cases); Z.of_nat (length impl_table)]."]
    p = ctx.write_gen("Policy.v", "\n".join(txt) + "\n")
    ok, out = coqc(p, timeout=900)
    vals = parse_evals(out) if ok else []
    if not ok or len(vals) != 5:
        ctx.obligation("policy table compiles (Gen/C07/Policy.v)", "tie", False, out)
        ctx.broken.append("coqc failed on Gen/C07/Policy.v: " + out[-800:])
        return
    vs_model, vs_spec, vs_code, uncovered, sizes = [parse_zlist(v) for v in vals]
    n_dom, n_rows = sizes
    ctx.obligation("policy domain completely probed, rows in the order of all_cases (%d cases, %d rows)" % (n_dom, n_rows), "tie",
                   not uncovered and n_dom == n_rows, "rows not aligned with all_cases" if uncovered else "")
    # expected outcomes of the disagreeing rows, computed by Coq
    expected = {}
    if vs_model:
        ex = ["Require Import Cherab.Common.Qx Cherab.Model.C07_Policy."]
        for i in vs_model:
            ex.append("Eval vm_compute in (model_outcome (%s))." % coq_case(rows[i][0]))
        ok2, out2 = coqc(ctx.write_gen("Explain.v", "\n".join(ex) + "\n"), timeout=600)
        ev = parse_evals(out2) if ok2 else []
        for i, v in zip(vs_model, ev):
            expected[i] = v
    excluded, bad, harmless = [], [], []
    for i in vs_model:
        c, o = rows[i]
        exp = expected.get(i, "?")
        asp = aspect(exp, o)
        if i in vs_spec and i not in vs_code and asp in ("wavelength-species", "kind"):
            asp = "wavelength-species"       # exactly what the faithful model of the current source does
        key = "c07:policy:%s:%s" % (c["acc"], asp)
        info = {"case": c, "expected_by_model": exp, "observed": o, "violates_property_policy": i in vs_spec,
                "call": "OpenADAS(data_path=<repo>, permit_extrapolation=%s, missing_rates_return_null=%s, "
                        "wavelength_element_fallback=%s).%s(<%s>, <%s>)" % (c["pe"], c["null"], c["fb"], c["acc"], c["k1"], c["k2"])}
        if i in vs_spec:
            (excluded if key in ctx.known else bad).append((i, key, info))
        else:
            harmless.append((i, key, info))
    stray = [i for i in vs_spec if i not in vs_model]      # cannot happen (model meets spec); fail closed
    seen = set()
    for i, key, info in excluded + bad:
        if key in seen:
            continue
        seen.add(key)
        n_same = sum(1 for _, k, _ in excluded + bad if k == key)
        ctx.violation(key, "accessor policy: %s -- model expects %s, implementation gives %s (%d rows of the policy table)"
                      % (info["call"], info["expected_by_model"], info["observed"], n_same), info, found=True)
    for i, key, info in harmless[:3]:
        ctx.violation(key + ":rewrite", "accessor policy row differs from the model but still meets the property's policy: %s"
                      % info["call"], info, found=False)
    ctx.obligation("policy correspondence: implementation row == model_outcome, inside Coq (%d rows; %d differ, "
                   "%d of them under a known finding)" % (n_rows, len(vs_model), len(excluded)), "correspondence",
                   not bad and not harmless and not stray,
                   json.dumps([b[2] for b in (bad + harmless)[:5]], default=str))
    tie = ["Require Import Cherab.Common.Qx Cherab.Model.C07_Policy Cherab.Proofs.C07_Policy Cherab.Gen.C07.Policy.",
           "Definition excluded : list pcase := [" + ";\n  ".join(coq_case(rows[i][0]) for i, _, _ in excluded) + "].",
           "Lemma table_aligned : wf_aligned (minus all_cases excluded) (tminus impl_table excluded) = true.",
           "Proof. vm_cast_no_check (eq_refl true). Qed.",
           "Lemma table_ok : wf_on (minus all_cases excluded) (tminus impl_table excluded) = true.",
           "Proof. exact (wf_aligned_sound _ _ table_aligned). Qed.",
           "Eval vm_compute in [Z.of_nat (length (minus all_cases excluded))]."]
    ok3, out3 = coqc(ctx.write_gen("Tie.v", "\n".join(tie) + "\n"), timeout=900)
    v3 = parse_evals(out3) if ok3 else []
    n_checked = parse_zlist(v3[0])[0] if v3 else 0
    ctx.obligation("Gen/C07/Tie.v table_ok: wf_on (all_cases minus %d rows under known findings) impl_table = true "
                   "(%d cases)" % (len(excluded), n_checked), "tie", ok3 and n_checked == n_dom - len(excluded), out3)
    return {"domain": n_dom, "rows": n_rows, "differ_from_model": len(vs_model), "violating_policy": len(vs_spec),
            "excluded_known": len(excluded), "checked_by_lemma": n_checked,
            "outcomes": _hist(o.split()[0] + ((" " + o.split()[-1]) if o.startswith("PRate") else "") for _, o in rows),
            "raise_messages_sample": sorted({c.get("message", "") for c, o in rows if o.startswith("PRaise")})[:4]}


# =================================================================================================
# histories on one long-lived provider (T'): sequences of accessor calls and repository additions
# =================================================================================================
KIDX = {"el": 0, "iso": 1, "iso2": 2}
WL_BASE = {"el": 500.0, "iso": 400.0, "iso2": 300.0}


def wl_group(acc):
    return 1 if acc.name in ("beam_cx_pec", "thermal_cx_pec") else 2 if acc.name == "beam_emission_pec" else 0


WL_REP = {0: "wavelength", 1: "beam_cx_pec", 2: "beam_emission_pec"}     # an accessor of each wavelength group


class History:
    """one repository, one OpenADAS instance; every op is executed on the real code and written as a Coq hop"""

    def __init__(self, ctx, scratch, tag, flags, cf, form=0, default_path=False):
        if default_path:
            # repository_path=None everywhere and OpenADAS() without data_path: the default repository under $HOME
            d, usable = I.default_repository()
            assert usable, d
            shutil.rmtree(d, ignore_errors=True)
            self.repo = None
        else:
            self.repo = I.fresh_repo(scratch, "h_%s" % tag)
        self.flags, self.cf, self.ctx = flags, cf, ctx
        self.adas = I.make_adas(self.repo, *flags, form=form)
        self.n_calls = 0
        self.scale, self.decoy, self.wl, self.wl_n = {}, set(), {}, {}
        self.ops, self.observed, self.log = [], [], []

    def set_rate(self, acc, v):
        rs = I.ACCS.index(acc) * 2 + v
        self.scale[rs] = 7.0 if self.scale.get(rs) == 1.0 else 1.0          # storing again changes the numbers
        I.store_rate(acc, self.repo, I.species(acc, 1, "el"), I.species(acc, 2, "el"),
                     I.scaled(acc.family, base_table(acc.family), self.scale[rs]), variant=v)
        self.ops.append("HSetRate %d" % rs)
        self.log.append("add rate %s variant %d (table x %g)" % (acc.name, v, self.scale[rs]))

    def set_decoy(self, acc, v):
        rs = I.ACCS.index(acc) * 2 + v
        data = base_table(acc.family)
        kinds2 = ("el", "iso", "iso2") if acc.slots == 2 else ("el",)
        for a in ("el", "iso", "iso2"):
            for b in kinds2:
                f = {(False, False): None, (True, False): 2.0, (False, True): 3.0, (True, True): 5.0}[(a != "el", b != "el")]
                if f:
                    I.store_rate(acc, self.repo, I.species(acc, 1, a), I.species(acc, 2, b), I.scaled(acc.family, data, f), variant=v)
        self.decoy.add(rs)
        self.ops.append("HSetDecoy %d" % rs)
        self.log.append("add decoy tables under the isotope paths of %s variant %d" % (acc.name, v))

    def set_wl(self, group, v, kind):
        acc = I.BY_NAME[WL_REP[group]]
        w = group * 6 + v * 3 + KIDX[kind]
        self.wl_n[w] = self.wl_n.get(w, 0) + 1
        self.wl[w] = WL_BASE[kind] + 10.0 * self.wl_n[w] + v          # storing again changes the number
        sp1 = I.species(acc, 1, kind if acc.wl_slot == 1 else "el")
        sp2 = I.species(acc, 2, kind if acc.wl_slot == 2 else "el")
        I.store_wavelength(acc, self.repo, sp1, sp2, self.wl[w], variant=v)
        self.ops.append("HSetWl %d" % w)
        self.log.append("add wavelength group %d variant %d %s = %g" % (group, v, kind, self.wl[w]))

    def call(self, acc, v, k1, k2="el"):
        if acc.slots == 1:
            k2 = "el"
        rs = I.ACCS.index(acc) * 2 + v
        g = wl_group(acc)
        kw = k2 if acc.wl_slot == 2 else k1
        wi = g * 6 + v * 3 + KIDX[kw if kw != "el" else "iso"]
        we = g * 6 + v * 3
        self.ctx.crumb({"history_call": [acc.name, v, k1, k2], "flags": self.flags, "so_far": self.log[-12:]})
        try:
            self.n_calls += 1
            obj = I.call(acc, self.adas, I.species(acc, 1, k1), I.species(acc, 2, k2), variant=v, argform=self.n_calls % 3)
        except Exception as e:           # the outcome of this call; compared with the model inside Coq
            out = "PRaise %s" % I.err_name(e)
        else:
            out = classify_policy(acc, obj, self.cf, scale=self.scale.get(rs, 1.0),
                                  lam_iso=self.wl.get(wi) if kw != "el" else None, lam_el=self.wl.get(we))
        kq = lambda k: "KElement" if k == "el" else "KIsotope"
        self.ops.append("HCall %s %s %s %d %d %d" % (acc.coq, kq(k1), kq(k2), rs, wi, we))
        self.observed.append(out)
        self.log.append("%s(%s, %s) variant %d -> %s" % (acc.name, k1, k2, v, out))


def run_histories(ctx, scratch, cf, quick):
    rng = ctx.rng
    hs = []
    flagsets = [(p, n, f) for p in (False, True) for n in (False, True) for f in (False, True)]
    for ai, acc in enumerate(I.ACCS):
        g = wl_group(acc)
        pairs = ([("el", "el"), ("iso", "el"), ("el", "iso"), ("iso", "iso"), ("iso2", "iso2"), ("iso2", "iso"), ("el", "el"),
                  ("iso", "iso")] if acc.slots == 2 else [("el", "el"), ("iso", "el"), ("iso2", "el"), ("iso", "el"), ("el", "el"), ("el", "el")])
        # H1: everything stored; element / isotope / second isotope / same species twice; then the content changes
        h = History(ctx, scratch, "a%d" % ai, flagsets[ai % 8], cf, form=ai % 4)
        if acc.name != "wavelength":
            h.set_rate(acc, 0)
            h.set_decoy(acc, 0)
        for k in ("el", "iso", "iso2"):
            h.set_wl(g, 0, k)
        for k1, k2 in pairs:
            h.call(acc, 0, k1, k2)
        if acc.name != "wavelength":
            h.set_rate(acc, 0)
        h.call(acc, 0, "el", "el")
        h.call(acc, 0, "iso", "iso")
        h.set_wl(g, 0, "el")
        h.set_wl(g, 0, "iso")
        h.call(acc, 0, "iso", "iso")
        h.call(acc, 0, "el", "el")
        hs.append(h)
        # H2: isotope first, data arriving while the provider lives, the other charge / transition interleaved
        h = History(ctx, scratch, "b%d" % ai, flagsets[(ai + 3) % 8], cf, form=(ai + 1) % 4,
                    default_path=(ai % 5 == 0 and I.default_repository()[1]))
        h.call(acc, 0, "iso", "iso")
        h.call(acc, 0, "el", "el")
        if acc.name != "wavelength":
            h.set_rate(acc, 0)
        h.call(acc, 0, "iso", "iso")
        h.call(acc, 1, "el", "el")
        if acc.name != "wavelength":
            h.set_rate(acc, 1)
        h.set_wl(g, 1, "el")
        h.call(acc, 1, "el", "el")
        h.call(acc, 1, "iso", "el")
        h.set_wl(g, 0, "iso")
        h.call(acc, 0, "iso", "iso")
        h.call(acc, 0, "el", "iso")
        h.set_wl(g, 0, "el")
        h.call(acc, 0, "iso", "iso")
        h.call(acc, 0, "el", "el")
        h.call(acc, 1, "iso2", "iso2")
        hs.append(h)
    # random histories: all 14 accessors, charges / transitions / donors interleaved on one provider
    for r in range(24 if quick else 240):
        h = History(ctx, scratch, "r%d" % (r % 8), rng.choice(flagsets), cf, form=r % 4,
                    default_path=(r % 6 == 0 and I.default_repository()[1]))
        for _ in range(rng.randint(25, 45)):
            u = rng.random()
            acc = rng.choice(I.ACCS)
            v = rng.randint(0, 1)
            if u < 0.14 and acc.name != "wavelength":
                h.set_rate(acc, v)
            elif u < 0.18 and acc.name != "wavelength":
                h.set_decoy(acc, v)
            elif u < 0.32:
                h.set_wl(rng.randint(0, 2), v, rng.choice(["el", "iso", "iso2"]))
            else:
                h.call(acc, v, rng.choice(["el", "iso", "iso2"]), rng.choice(["el", "iso", "iso2"]))
        hs.append(h)
    return hs


def histories_tie(ctx, hs):
    b = lambda x: "true" if x else "false"
    txt = ["Require Import Cherab.Common.Qx Cherab.Model.C07_Policy."]
    for i, h in enumerate(hs):
        txt.append("Definition ops%d : list hop := [%s]." % (i, "; ".join(h.ops)))
        txt.append("Eval vm_compute in (hcheck %s %s %s ops%d [%s])." % (b(h.flags[0]), b(h.flags[1]), b(h.flags[2]), i, "; ".join(h.observed)))
    ok, out = coqc(ctx.write_gen("Histories.v", "\n".join(txt) + "\n"), timeout=900)
    vals = parse_evals(out) if ok else []
    n_calls = sum(len(h.observed) for h in hs)
    if not ok or len(vals) != len(hs):
        ctx.obligation("provider histories compile (Gen/C07/Histories.v)", "correspondence", False, out)
        ctx.broken.append("coqc failed on Gen/C07/Histories.v: " + out[-800:])
        return {}
    bad = [(i, parse_zlist(v)) for i, v in enumerate(vals) if parse_zlist(v)]
    expected = {}
    if bad:
        ex = ["Require Import Cherab.Common.Qx Cherab.Model.C07_Policy."]
        for i, _ in bad[:6]:
            h = hs[i]
            ex.append("Eval vm_compute in (hrun %s %s %s st0 [%s])." % (b(h.flags[0]), b(h.flags[1]), b(h.flags[2]), "; ".join(h.ops)))
        ok2, out2 = coqc(ctx.write_gen("ExplainH.v", "\n".join(ex) + "\n"), timeout=600)
        for (i, _), v in zip(bad[:6], parse_evals(out2) if ok2 else []):
            expected[i] = [t.strip() for t in v.strip().strip("[]").split(";")]
    seen = set()
    for i, idx in bad[:6]:
        h = hs[i]
        j = idx[0] if idx[0] < len(h.observed) else len(h.observed) - 1
        exp = expected.get(i, ["?"] * (j + 1))[j] if j < len(expected.get(i, [])) else "?"
        calls = [l for l in h.log if "->" in l]
        accname = calls[j].split("(")[0]
        key = "c07:history:%s:%s" % (accname, aspect(exp, h.observed[j]) if exp != "?" else "outcome")
        if key in seen:
            continue
        seen.add(key)
        upto = h.log.index(calls[j]) + 1
        ctx.violation(key, "one OpenADAS(permit_extrapolation=%s, missing_rates_return_null=%s, wavelength_element_fallback=%s) "
                           "instance, call %d of the history: %s -- the model gives %s for these arguments and the repository "
                           "content at that moment" % (h.flags + (j + 1, calls[j], exp)),
                      {"flags": h.flags, "history_up_to_the_failing_call": h.log[:upto], "expected_by_model": exp,
                       "observed": h.observed[j], "all_failing_call_positions": idx}, found=True)
    ctx.obligation("provider histories: every object returned by %d calls in %d histories on long-lived providers == model "
                   "outcome for its own arguments and the current repository content, inside Coq" % (n_calls, len(hs)),
                   "correspondence", not bad, "failing (history, call positions): %s" % bad[:10])
    return {"histories": len(hs), "calls": n_calls, "repository_additions": sum(len(h.ops) - len(h.observed) for h in hs),
            "outcomes": _hist(o.split()[0] for h in hs for o in h.observed),
            "calls_by_accessor": _hist(l.split("(")[0] for h in hs for l in h.log if "->" in l),
            "failing_histories": len(bad), "sample": hs[0].log[:8],
            "histories_on_the_default_repository_path": sum(1 for h in hs if h.repo is None),
            "call_argument_forms": "charge / metastable as int or numpy integer, transition as tuple, list of numpy integers or strings, in rotation"}


def _hist(it):
    h = {}
    for x in it:
        h[x] = h.get(x, 0) + 1
    return h


# =================================================================================================
# value correspondence (X): generators
# =================================================================================================
def gen_axis(rng, n, lo, hi, style, linear=False):
    """n strictly increasing positive values; log-uniform in [10^lo, 10^hi] (or uniform in [lo, hi])"""
    while True:
        if linear:
            xs = sorted(rng.uniform(lo, hi) for _ in range(n))
        else:
            xs = sorted(10 ** rng.uniform(lo, hi) for _ in range(n))
        if style == "nice":
            xs = [float("%.2e" % x) for x in xs]
        if all(b > a * 1.02 for a, b in zip(xs, xs[1:])):
            return xs


def gen_values(rng, shape):
    """positive table: smooth trend over a few decades plus noise"""
    a0 = rng.uniform(-16, -12)
    slopes = [rng.uniform(-1.5, 1.5) for _ in shape]

    def val(idx):
        e = a0 + sum(s * i / max(1, n - 1) for s, i, n in zip(slopes, idx, shape)) + rng.uniform(-0.3, 0.3)
        return 10 ** e

    def build(prefix, dims):
        if not dims:
            return val(prefix)
        return [build(prefix + [i], dims[1:]) for i in range(dims[0])]
    return build([], list(shape))


def single_pattern(rng, family, rnd):
    """which axes are single-point in round `rnd` of the rotation: every branch of the single-point handling
    (Constant2D / IsoMapper2D('x') / IsoMapper2D('y') / Constant1D per beam-CX axis) is visited in every
    run, whatever the seed; 2-D/3-D tables and the beam t axis get a single point every 6th round"""
    if family == "2d":
        return tuple(rnd % 6 == 5 and k == (rnd // 6) % 2 for k in range(2))
    if family == "3d":
        return tuple(rnd % 6 == 5 and k == (rnd // 6) % 3 for k in range(3))
    if family == "beam":
        return [(False, False, False), (True, False, False), (False, True, False), (True, True, False),
                (rng.random() < 0.3, rng.random() < 0.3, False), (False, False, True)][rnd % 6]
    r = rnd % 12
    if r == 0:
        return (False,) * 5
    if r <= 5:
        return tuple(k == r - 1 for k in range(5))
    if r == 6:
        return (True,) * 5
    return tuple(rng.random() < 0.3 for _ in range(5))


def rescale(family, d, kt, ka):
    """table values x 2^kt, axes x 2^ka (exact in binary floating point): magnitudes far from the usual ones"""
    ft, fa = 2.0 ** kt, 2.0 ** ka
    mul = lambda v, f: [mul(x, f) for x in v] if isinstance(v, list) else v * f
    tables = {"2d": ["rate"], "3d": ["rate"], "beam": ["sen", "st", "sref"], "cx": ["qeb", "qti", "qni", "qz", "qb", "qref"]}[family]
    axes = {"2d": ["ne", "te"], "3d": ["ne", "te", "td"], "beam": ["e", "n", "t", "eref", "nref", "tref"],
            "cx": ["eb", "ti", "ni", "z", "b"]}[family]
    return {k: (mul(v, ft) if k in tables else mul(v, fa) if k in axes else v) for k, v in d.items()}


def gen_data(rng, family, rnd):
    d, style = gen_data0(rng, family, rnd)
    if style == "scaled":
        d = rescale(family, d, rng.randint(-200, 200), rng.randint(-60, 60))
    return d, style


def gen_data0(rng, family, rnd):
    style = rng.choice(["nice", "full", "scaled"])
    single = single_pattern(rng, family, rnd)
    two = rnd % 6 == 2                     # every axis that is not single-point has exactly two points
    _randint = rng.randint
    lo_len = lambda hi: 2 if two else _randint(2, hi)
    if family in ("2d", "3d"):
        dims = 2 if family == "2d" else 3
        lens = [1 if single[k] else lo_len(6 if family == "2d" else 4) for k in range(dims)]
        d = {"ne": gen_axis(rng, lens[0], 16, 21, style), "te": gen_axis(rng, lens[1], -1, 4, style)}
        if family == "3d":
            d["td"] = gen_axis(rng, lens[2], -1, 4, style)
        d["rate"] = gen_values(rng, lens)
        return d, style
    if family == "beam":
        le, ln, lt = [1 if single[k] else lo_len(5) for k in range(3)]
        d = {"e": gen_axis(rng, le, 2.5, 5.5, style), "n": gen_axis(rng, ln, 17, 21, style),
             "t": gen_axis(rng, lt, 0, 4.5, style), "sen": gen_values(rng, [le, ln]), "st": gen_values(rng, [lt])}
        d["sref"] = d["st"][rng.randrange(lt)] if rng.random() < 0.5 else 10 ** rng.uniform(-15, -13)
        d["eref"], d["nref"], d["tref"] = d["e"][0], d["n"][0], d["t"][0]
        return d, style
    lens = [1 if single[k] else lo_len(5) for k in range(5)]
    d = {"eb": gen_axis(rng, lens[0], 2.5, 5.5, style), "ti": gen_axis(rng, lens[1], 0, 4.5, style),
         "ni": gen_axis(rng, lens[2], 17, 21, style), "z": gen_axis(rng, lens[3], 1.0, 6.0, style, linear=True),
         "b": gen_axis(rng, lens[4], 0.5, 8.0, style, linear=True)}
    qref = 10 ** rng.uniform(-15, -13)
    d["qref"] = qref
    d["qeb"] = gen_values(rng, [lens[0]])
    for k, n in (("qti", lens[1]), ("qni", lens[2]), ("qz", lens[3]), ("qb", lens[4])):
        d[k] = [qref * 10 ** rng.uniform(-0.5, 0.5) for _ in range(n)]
    return d, style


def gen_points(rng, family, data, max_nodes, pe=False):
    """[(class, args)] -- node / inside / guard / outside / ulp-inside / ulp-outside / far-outside / node-again"""
    axes = I.axes_of(family, data)
    pts = []
    all_idx = list(itertools.product(*[range(len(a)) for a in axes]))
    if len(all_idx) > max_nodes:
        corners = [tuple(0 for _ in axes), tuple(len(a) - 1 for a in axes)]
        per_axis = [tuple((len(a) - 1 if k == j else rng.randrange(len(a))) for k, a in enumerate(axes)) for j in range(len(axes))]
        all_idx = list(dict.fromkeys(corners + per_axis + rng.sample(all_idx, max_nodes)))
    for idx in all_idx:
        pts.append(("node", [axes[k][i] for k, i in enumerate(idx)]))

    def node_args():
        return [a[rng.randrange(len(a))] for a in axes]

    def inside(a):
        if len(a) == 1:
            return a[0] * rng.uniform(0.5, 2.0) if I.free_axis(family, a) else a[0]
        while True:
            x = math.exp(rng.uniform(math.log(a[0]), math.log(a[-1])))
            if a[0] < x < a[-1]:
                return x
    for _ in range(4):
        pts.append(("inside", [inside(a) for a in axes]))
    if family == "cx":
        # energy on its axis, the four linear-space arguments anywhere inside: compared with the exact cubic model
        for _ in range(4):
            args = [inside(a) for a in axes]
            args[0] = axes[0][rng.randrange(len(axes[0]))]
            pts.append(("inside-linear", args))
    for g in I.guarded_args(family):
        for bad in (0.0, -abs(axes[g][0]) * rng.uniform(0.1, 3.0)):
            args = node_args() if rng.random() < 0.7 else [inside(a) for a in axes]
            args[g] = bad
            pts.append(("guard", args))
    for k, a in enumerate(axes):
        if len(a) == 1:
            continue
        for x in (a[0] / 10 ** rng.uniform(0.001, 1.0), a[-1] * 10 ** rng.uniform(0.001, 1.0)):
            args = node_args()
            args[k] = x
            pts.append(("outside", args))
    # exact boundaries of the comparisons in evaluate(): -0.0 at the guard; one ulp inside the first / last knot
    # (in range); one ulp outside (closer to the bound than log10 can resolve: counted as ambiguous, only 'raises or
    # finite >= 0' is asked, not sent to the exact comparison); without extrapolation also the smallest subnormal and 1e300
    g = rng.choice(I.guarded_args(family))
    args = node_args()
    args[g] = -0.0
    pts.append(("guard", args))
    multi = [k for k, a in enumerate(axes) if len(a) > 1]
    if multi:
        k = rng.choice(multi)
        a = axes[k]
        for x, cls in ((math.nextafter(a[0], math.inf), "ulp-inside"), (math.nextafter(a[-1], 0.0), "ulp-inside"),
                       (math.nextafter(a[0], 0.0), "ulp-outside"), (math.nextafter(a[-1], math.inf), "ulp-outside")):
            args = node_args()
            args[k] = x
            pts.append((cls, args))
        if not pe:
            k = rng.choice(multi)
            for x in (5e-324, 1e300):
                args = node_args()
                args[k] = x
                pts.append(("far-outside", args))
    # one live object: the classes are interleaved (value, zero, raise, value ...), and after everything else the
    # object must still give the stored values
    rng.shuffle(pts)
    nodes = [pt for pt in pts if pt[0] == "node"]
    pts += [("node-again", list(args)) for _, args in rng.sample(nodes, min(2, len(nodes)))]
    return pts


FORMS = ["list", "ndarray", "tuple", "fortran-readonly", "float32", "strided"]


def gen_object(rng, acc, rnd, max_nodes=40):
    data, style = gen_data(rng, acc.family, rnd)
    form = FORMS[rnd % len(FORMS)] if rng.random() < 0.7 else rng.choice(FORMS)
    if form == "float32" and style != "scaled":
        import numpy as np
        r32 = lambda v: [r32(x) for x in v] if isinstance(v, list) else float(np.float32(v))
        data = {k: r32(v) for k, v in data.items()}
        axes = I.axes_of(acc.family, data)
        if any(b <= a for ax in axes for a, b in zip(ax, ax[1:])):
            form = "ndarray"
    elif form == "float32":
        form = "ndarray"                   # 2^+-200 magnitudes are outside the float32 range
    spec = {"acc": acc.name, "family": acc.family, "pe": rng.random() < 0.5, "null": rng.random() < 0.5,
            "fb": rng.random() < 0.5, "k1": rng.choice(["el", "iso"]),
            "k2": rng.choice(["el", "iso"]) if acc.slots == 2 else "el", "data": data, "style": style,
            "form": form, "adas_form": rnd % 4}
    if acc.name == "beam_cx_pec":
        # the provider returns one rate per stored donor metastable: several of them, stored in any order
        extra = rng.sample([(1, 11.0), (3, 13.0), (5, 17.0)], rng.randint(0, 2) if rnd % 3 else 2)
        spec["metastables"] = extra
        spec["store_order"] = rng.sample([I.MS] + [m for m, _ in extra], 1 + len(extra))
    lam_i, lam_e = rng.uniform(90.0, 1100.0), rng.uniform(90.0, 1100.0)
    spec["wl_iso"], spec["wl_el"] = lam_i, lam_e
    kind_w = spec["k2"] if acc.wl_slot == 2 else spec["k1"]
    if acc.photon and kind_w == "iso" and rng.random() < 0.25:
        spec["wl_iso"], spec["fb"] = None, True          # element's wavelength through the documented fallback
    spec["points"] = gen_points(rng, acc.family, data, max_nodes, pe=spec["pe"])
    # the same provider is asked several times: first for the other species kind of the same line (the kind of the
    # species that owns the wavelength is flipped for photon accessors), then for the object under test, then for it
    # again, then -- after the repository got a new table (x 7) and new wavelengths -- once more
    alt = dict(k1=spec["k1"], k2=spec["k2"])
    flip = "k2" if acc.wl_slot == 2 else "k1"
    alt[flip] = "el" if spec[flip] == "iso" else "iso"
    nodes = [pt for pt in spec["points"] if pt[0] == "node"]
    few = lambda n: rng.sample(nodes, min(n, len(nodes)))
    spec["seq"] = [{"what": "other-kind-first", "k1": alt["k1"], "k2": alt["k2"], "points": few(3)},
                   {"what": "main"},
                   {"what": "same-again", "points": few(2)},
                   {"what": "after-repository-change", "table_factor": 7.0, "wl_factor": 1.0 + rng.uniform(0.002, 0.05),
                    "points": few(3)}]
    if rng.random() < 0.5:
        spec["seq"][0], spec["seq"][1] = spec["seq"][1], spec["seq"][0]
    return spec


# =================================================================================================
# running one object on the implementation + the executable statement of the property
# =================================================================================================
def spec_wavelength(acc, spec):
    """the wavelength the PROPERTY asks for: of the requested species; the element's only via the fallback"""
    if not acc.photon:
        return None
    kind_w = spec["k2"] if acc.wl_slot == 2 else spec["k1"]
    if kind_w == "iso":
        if spec["wl_iso"] is not None:
            return spec["wl_iso"]
        return spec["wl_el"] if spec["fb"] else None
    return spec["wl_el"]


def evaluate_all(rate, sub):
    """every point on the same live object, cycling through the three ways of calling it"""
    return [I.evalpt(rate, args, style=i % 3) for i, (_, args) in enumerate(sub["points"])]


def fetch(acc, adas, sub, argform=0):
    sp1, sp2 = I.species(acc, 1, sub["k1"]), I.species(acc, 2, sub["k2"])
    try:
        obj = I.call(acc, adas, sp1, sp2, argform=argform)
    except Exception as e:       # recorded and judged by the property statement below
        return {"construct": ("raise", I.err_name(e), "%s: %s" % (type(e).__name__, str(e)[:160])), "outs": []}
    rate = obj
    if isinstance(obj, list):
        want = sorted([I.MS] + [m for m, _ in sub.get("metastables", [])])
        got = sorted(getattr(r, "donor_metastable", None) for r in obj)
        if got != want:
            return {"construct": ("bad", "beam_cx_pec returned rates for donor metastables %s, stored: %s" % (got, want)), "outs": []}
        rate = [r for r in obj if r.donor_metastable == sub.get("ms", I.MS)][0]
    return {"construct": ("ok",), "outs": evaluate_all(rate, sub), "impl_wavelength": getattr(rate, "wavelength", None)}


def run_sequence(spec, scratch, tag):
    """store; then ONE provider is asked for every step of spec['seq'] (a corpus object: just itself), the repository
    changing under it where the step says so.  Returns [(sub-spec, result)]: every returned object is evaluated and
    judged against the table / wavelength / species of ITS OWN request."""
    acc = I.BY_NAME[spec["acc"]]
    repo = I.fresh_repo(scratch, "x_%s" % tag)
    el1, iso1 = I.species(acc, 1, "el"), I.species(acc, 1, "iso")
    el2, iso2 = I.species(acc, 2, "el"), I.species(acc, 2, "iso")
    seq = spec.get("seq") or [{"what": "main"}]
    form = spec.get("form", "list")
    extras = spec.get("metastables", [])

    def canon(data):
        """the numbers the repository receives: in the float32 form every value is first rounded to float32"""
        if form != "float32":
            return data
        import numpy as np
        r32 = lambda v: [r32(x) for x in v] if isinstance(v, list) else float(np.float32(v))
        return {k: r32(v) for k, v in data.items()}

    def put(sp1, sp2, data, ms=None):
        I.store_rate(acc, repo, sp1, sp2, I.apply_form(acc.family, canon(data), form), metastable=ms)

    def store(data, wl_iso, wl_el):
        for ms in spec.get("store_order", [None]):
            f = dict(extras).get(ms, 1.0)
            put(el1, el2, I.scaled(acc.family, data, f) if f != 1.0 else data, ms)
        # different tables under the isotope paths: an isotope request must not pick them up
        put(iso1, el2, I.scaled(acc.family, data, 2.0))
        if acc.slots == 2:
            put(el1, iso2, I.scaled(acc.family, data, 3.0))
            put(iso1, iso2, I.scaled(acc.family, data, 5.0))
        if acc.photon:
            if wl_iso is not None:
                I.store_wavelength(acc, repo, iso1, iso2, wl_iso)
            if wl_el is not None:
                I.store_wavelength(acc, repo, el1, el2, wl_el)
    cur = {"data": spec["data"], "wl_iso": spec["wl_iso"], "wl_el": spec["wl_el"]}
    store(cur["data"], cur["wl_iso"], cur["wl_el"])
    adas = I.make_adas(repo, spec["pe"], spec["null"], spec["fb"], form=spec.get("adas_form", 0))   # the one long-lived provider
    out = []

    def sub_of(step, **over):
        sub = dict(spec, **cur)
        sub.pop("seq", None)
        sub.pop("_maxrel", None)
        sub["step"] = step["what"]
        sub["k1"], sub["k2"] = step.get("k1", spec["k1"]), step.get("k2", spec["k2"])
        sub["points"] = spec["points"] if step["what"] == "main" else step["points"]
        sub.update(over)
        return sub
    for n, step in enumerate(seq):
        if step["what"] == "after-repository-change":
            cur = {"data": canon(I.scaled(acc.family, cur["data"], step["table_factor"])),
                   "wl_iso": None if cur["wl_iso"] is None else cur["wl_iso"] * step["wl_factor"],
                   "wl_el": None if cur["wl_el"] is None else cur["wl_el"] * step["wl_factor"]}
            store(cur["data"], cur["wl_iso"], cur["wl_el"])
        sub = sub_of(step)
        out.append((sub, fetch(acc, adas, sub, argform=n % 3)))
        if step["what"] == "main":
            for ms, f in extras:            # the other donor metastables of the same request
                sub = sub_of({"what": "other-metastable", "points": step_points(spec, 3)}, ms=ms,
                             data=canon(I.scaled(acc.family, cur["data"], f)))
                out.append((sub, fetch(acc, adas, sub)))
    if "seq" in spec:
        # missing data on a provider that was asked for null rates: the object returned for a charge / transition /
        # metastable that is not stored must be zero at every kind of argument
        sub = sub_of({"what": "missing-data-null", "points": step_points(spec, 6, ("node", "inside", "guard", "outside", "far-outside", "ulp-inside"))},
                     is_null=True)
        adas_null = I.make_adas(repo, spec["pe"], True, spec["fb"], form=(spec.get("adas_form", 0) + 1) % 4)
        try:
            obj = I.call(acc, adas_null, I.species(acc, 1, sub["k1"]), I.species(acc, 2, sub["k2"]), variant=1)
        except Exception as e:   # judged below: a null rate was asked for
            out.append((sub, {"construct": ("raise", I.err_name(e), "%s: %s" % (type(e).__name__, str(e)[:160])), "outs": []}))
        else:
            rate = obj[0] if isinstance(obj, list) and len(obj) == 1 else obj
            out.append((sub, {"construct": ("ok",) if not isinstance(rate, list) else ("bad", "list of %d" % len(rate)),
                              "outs": [] if isinstance(rate, list) else evaluate_all(rate, sub)}))
        # the rate class constructed directly (not through the provider), extrapolate by keyword / position / default
        sub = sub_of({"what": "direct-construction", "points": step_points(spec, 4, ("node", "outside", "guard"))})
        lam = spec_wavelength(acc, sub)
        if not (acc.photon and lam is None):
            try:
                rate = I.direct_rate(acc, sub["data"], lam, spec["pe"], I.species(acc, 1, sub["k1"]), how=len(spec["points"]) % 3)
            except Exception as e:   # judged by judge_construct like an accessor failure
                out.append((sub, {"construct": ("raise", I.err_name(e), "%s: %s" % (type(e).__name__, str(e)[:160])), "outs": []}))
            else:
                out.append((sub, {"construct": ("ok",), "outs": evaluate_all(rate, sub),
                                  "impl_wavelength": getattr(rate, "wavelength", None)}))
    return out


def step_points(spec, n, classes=("node",)):
    """a deterministic small selection of the object's points (first n of the wanted classes, one per class first)"""
    sel = []
    for c in classes:
        sel += [pt for pt in spec["points"] if pt[0] == c][:max(1, n // len(classes))]
    return sel[:n] if len(sel) >= n else sel


def log10_endpoint_mismatch(family, data, args):
    """an argument equal to an end grid point whose libm log10 falls outside numpy's log10 of the axis"""
    import numpy as np
    axes = I.axes_of(family, data)
    log_axes = {"2d": (0, 1), "3d": (0, 1, 2), "beam": (0, 1, 2), "cx": (0,)}[family]
    for k in log_axes:
        a = axes[k]
        if len(a) < 2:
            continue
        la = np.log10(np.array(a, dtype=float))
        if a[0] <= args[k] <= a[-1] and not (la[0] <= math.log10(args[k]) <= la[-1]):
            return True
    return False


def point_class(family, data, args):
    """(guarded, outside, node) decided on the doubles, as the property reads"""
    axes = I.axes_of(family, data)
    guarded = any(args[g] <= 0 for g in I.guarded_args(family))
    outside = any((not I.free_axis(family, a)) and not (a[0] <= x <= a[-1]) for a, x in zip(axes, args))
    node = all(I.free_axis(family, a) or x in a for a, x in zip(axes, args))
    return guarded, outside, node


def judge_point(spec, lam, cf, args, out):
    """executable statement of the property at one evaluation point.  None = holds; else (key, text)"""
    family, data = spec["family"], spec["data"]
    acc = spec["acc"]
    guarded, outside, node = point_class(family, data, args)
    if guarded:
        if out == ("val", 0.0):
            return None
        if family == "cx" and args[0] > 0:
            return (K_CXGUARD, "BeamCXPEC with a non-positive temperature/density argument did not return 0: %s" % (out,))
        return ("c07:%s:guard" % acc, "non-positive density/temperature/energy argument did not give 0: %s" % (out,))
    if outside:
        if not spec["pe"]:
            return None if out[0] == "raise" else ("c07:%s:range-raise" % acc, "outside the tabulated range without "
                                                   "permit_extrapolation, but no exception: %s" % (out,))
        return None if out[0] == "val" and out[1] >= 0 else (
            "c07:%s:range-finite" % acc, "outside the tabulated range with permit_extrapolation: not a finite non-negative value: %s" % (out,))
    if out[0] != "val":
        if out[0] == "raise" and not spec["pe"] and log10_endpoint_mismatch(family, data, args):
            return (K_ENDPOINT, "evaluating exactly at an end grid point raised (knots use numpy.log10, evaluate uses libm "
                                "log10; they differ by one ulp for this value): %s" % (out,))
        return ("c07:%s:inside" % acc, "inside the tabulated range: %s" % (out,))
    if out[1] < 0:
        return ("c07:%s:negative" % acc, "negative rate %r" % out[1])
    if node:
        axes = I.axes_of(family, data)
        idx = [0 if I.free_axis(family, a) else a.index(x) for a, x in zip(axes, args)]
        want = I.node_value(family, data, idx)
        if lam is not None:
            want = want / Fraction(*lam.as_integer_ratio()) * Fraction(*cf.as_integer_ratio())
        want = float(want)
        if abs(out[1] - want) > 1e-9 * want:
            if lam is not None and spec.get("wl_el") and abs(out[1] * spec["wl_el"] / lam - want) <= 1e-9 * want:
                return (K_WLSPECIES(acc), "photon coefficient converted with the ELEMENT's wavelength %r instead of the "
                                          "requested isotope's %r" % (spec["wl_el"], lam))
            return ("c07:%s:node-value" % acc, "grid point value %r, stored table after conversion %r" % (out[1], want))
        spec.setdefault("_maxrel", 0.0)
        spec["_maxrel"] = max(spec["_maxrel"], abs(out[1] - want) / want)
    return None


def judge_construct(spec, res):
    """the accessor itself failed although the data are there"""
    family, data = spec["family"], spec["data"]
    c = res["construct"]
    if c[0] == "ok":
        return None
    axes = I.axes_of(family, data)
    msg = c[-1]
    if c[0] == "raise" and c[1] == "ErrValue" and "at least 2 spline knots" in msg:
        single = [k for k, a in enumerate(axes) if len(a) == 1]
        if single and (family in ("2d", "3d") or (family == "beam" and 2 in single)):
            return (K_SINGLE, "%s raised for a table with a single-point axis: %s" % (spec["acc"], msg))
    return ("c07:%s:construct" % spec["acc"], "accessor failed although rate and wavelength are stored: %s" % (c,))


# =================================================================================================
# Coq case files
# =================================================================================================
def q(x):
    """exact Q literal of a double: (dq mantissa exponent), mantissa < 2^53 as a primitive-integer literal
    (Model/C07_Check.v); read ~5x faster by coqc than Qmake with big numerator / denominator"""
    x = float(x)
    if math.isnan(x) or math.isinf(x):
        raise ValueError("non-finite value cannot be a Q literal: %r" % x)
    m, e = math.frexp(abs(x))
    mi = int(m * 2 ** 53)
    assert mi * Fraction(2) ** (e - 53) == Fraction(*abs(x).as_integer_ratio())
    while mi and mi % 2 == 0:
        mi //= 2
        e += 1
    return "(%s %d (%d))" % ("dqn" if (x < 0) else "dq", mi, e - 53)


def ql(xs):
    return "[" + "; ".join(q(x) for x in xs) + "]"


def ql2(t):
    return "[" + "; ".join(ql(r) for r in t) + "]"


def ql3(t):
    return "[" + "; ".join(ql2(r) for r in t) + "]"


def coq_object(name, spec, lam, cf):
    acc = I.BY_NAME[spec["acc"]]
    d = spec["data"]
    b = lambda v: "true" if v else "false"
    lamq = q(lam) if lam is not None else "1"
    fam = spec["family"]
    if fam == "2d":
        return "Definition %s := mk2 %s %s %s %s %s %s %s." % (name, b(acc.photon), q(cf), lamq, b(spec["pe"]),
                                                              ql(d["ne"]), ql(d["te"]), ql2(d["rate"])), "wf2", "pt2"
    if fam == "3d":
        return "Definition %s := mk3 %s %s %s %s %s %s %s %s." % (name, b(acc.photon), q(cf), lamq, b(spec["pe"]),
                                                                 ql(d["ne"]), ql(d["te"]), ql(d["td"]), ql3(d["rate"])), "wf3", "pt3"
    if fam == "beam":
        return "Definition %s := mkb %s %s %s %s %s %s %s %s %s %s." % (
            name, b(acc.photon), q(cf), lamq, b(spec["pe"]), ql(d["e"]), ql(d["n"]), ql(d["t"]), ql2(d["sen"]),
            ql(d["st"]), q(d["sref"])), "wfb", "ptb"
    return "Definition %s := mkcx %s %s %s %s %s %s %s %s %s %s %s %s %s %s." % (
        name, q(cf), lamq, b(spec["pe"]), ql(d["eb"]), ql(d["ti"]), ql(d["ni"]), ql(d["z"]), ql(d["b"]),
        ql(d["qeb"]), ql(d["qti"]), ql(d["qni"]), ql(d["qz"]), ql(d["qb"]), q(d["qref"])), "wfcx", "ptcx"


def coq_out(out):
    if out[0] == "val":
        return "(IVal %s)" % q(out[1])
    if out[0] == "raise" and out[1] == "ErrValue":
        return "IRaise"
    return "IBad"


# =================================================================================================
def run(ctx):
    ctx.trusted += [
        "Coq 8.16.1 kernel, vm_compute (no native_compute)",
        "harness/c07.py + c07_impl.py: repository writer calls, behavioural classification of what an accessor returned "
        "(ratio of a grid-point value to the stored tables and wavelengths), generators, Q literal printer, comparators in Model/C07_Check.v",
        "oracles (not verified): libm log10 / pow, numpy.log10, raysect Interpolator1D/2D/3DArray (cubic, extrapolation nearest/linear/quadratic), "
        "Constant1D/2D, IsoMapper2D -- the laws assumed of them (oracle_laws) are checked numerically at every generated grid point (relative 2^-30)",
        "scipy.constants Planck, speed_of_light (PhotonToJ.conversion_factor is compared in Coq with the exact SI value, relative 2^-40)",
        "json round trip of doubles through the repository files (Python repr is exact)",
    ]
    ctx.assumptions += [
        "the class has 14 accessor methods (wavelength + 13 rates); the '16' of the property text counts __init__ and data_path; all 14 are covered",
        "rate present but WAVELENGTH missing: RuntimeError is accepted for either value of missing_rates_return_null (the flag speaks of rates)",
        "a single-point axis of a beam / beam-CX table means 'no dependence on that argument' (as the source's Constant1D/Constant2D branches "
        "intend); the range policy is not tested along such an axis",
        "'raises' outside the range is checked as ValueError in the Coq comparison and as any exception in the executable property",
        "tables are positive and axes strictly increasing (what the ADAS parsers produce); beam-CX z_effective and b_field are not 'density, "
        "temperature or energy' arguments and are only tested for the range policy",
    ]
    ctx.rebuild()
    ctx.proofs("Properties.C07", THEOREMS, extra_modules=("Model.C07_Check", "Proofs.C07_Check"))

    import cherab
    from common import REPO
    assert list(cherab.__path__) == [REPO + "/cherab"], cherab.__path__
    from cherab.core.utility.conversion import PhotonToJ
    cf = float(PhotonToJ.conversion_factor)
    scratch = os.path.join(os.environ["VERIF_SCRATCH"], "c07")
    os.makedirs(scratch, exist_ok=True)
    rng = ctx.rng
    quick = ctx.quick

    # ---- (T) policy table ---------------------------------------------------------------------------
    rows = probe_policy(ctx, scratch, cf)
    _o = {False: 0, True: 1, "el": 0, "iso": 1, "Present": 0, "NoFile": 1, "NoKey": 2}
    _ai = {a.name: i for i, a in enumerate(I.ACCS)}
    rows.sort(key=lambda r: (_ai[r[0]["acc"]],) + tuple(_o[r[0][k]] for k in ("pe", "null", "fb", "k1", "k2", "rate_av", "decoy", "wl_iso", "wl_el")))
    ctx.log("policy probe: %d calls" % len(rows))
    pol = policy_tie(ctx, rows) or {}
    ctx.log("policy tie: %s" % {k: pol.get(k) for k in ("domain", "differ_from_model", "excluded_known", "checked_by_lemma")})

    # ---- (S) the model's static tables against the source text (ast translator, fail-closed) ------------------
    import c07_translate
    rows_txt, wl_ok, src_details = c07_translate.translate(os.path.join(REPO, "cherab", "openadas", "openadas.py"),
                                                           [(a.name, a.coq) for a in I.ACCS])
    src_v = ("Require Import Cherab.Common.Qx Cherab.Model.C07_Policy.\nDefinition src_rows : list srcrow :=\n  %s.\n"
             "Eval vm_compute in (failing (map src_row_ok src_rows)).\n"
             "Lemma source_ok : src_ok %s src_rows = true.\nProof. vm_compute. reflexivity. Qed.\n"
             % (rows_txt, "true" if wl_ok else "false"))
    oks, outs = coqc(ctx.write_gen("Source.v", src_v), timeout=600)
    ctx.obligation("Gen/C07/Source.v source_ok: openadas.py (ast) agrees with the model's accessor tables -- species reduced to "
                   "elements for the repository, try/except RuntimeError with null-or-re-raise, which species reaches "
                   "self.wavelength, extrapolate=self._permit_extrapolation, wavelength() fallback structure; no unmodelled method",
                   "tie", oks, outs[-1500:] + " | " + json.dumps({k: v for k, v in src_details.items()
                                                                    if (isinstance(v, dict) and v["unknown"]) or (k == "unmodelled_methods" and v)}, default=str))
    if not oks:
        bad_src = {k: v for k, v in src_details.items() if isinstance(v, dict)}
        ctx.violation("c07:source:openadas.py", "the text of cherab/openadas/openadas.py no longer has the structure the policy model "
                      "is written from (statements not recognised, or a table entry differs); see the policy / history rows for a failing call",
                      {"rows": rows_txt, "wavelength_method_ok": wl_ok, "details": bad_src}, found=False)

    # ---- (S2) the bicubic / tricubic kernels of the model against raysect's source text --------------------------
    import c07_cubicsrc
    try:
        gen_txt = c07_cubicsrc.generate()
        gen_err = ""
    except Exception as e:          # fail closed: an unreadable kernel is a broken tie, reported below
        gen_txt, gen_err = "", "%s: %s" % (type(e).__name__, e)
    have = open(os.path.join(VERIF, "coq", "Model", "C07_TensorGen.v")).read()
    ctx.obligation("Model/C07_TensorGen.v (calc_coefficients_2d/_3d, evaluate_cubic_2d/_3d) is exactly what the translator "
                   "produces from the installed raysect source (%s)" % c07_cubicsrc.source_path()[1], "tie",
                   gen_txt == have, gen_err or "generated text differs from the compiled model file")

    # ---- (T') histories on long-lived providers ---------------------------------------------------------
    hs = run_histories(ctx, scratch, cf, quick)
    hist_cov = histories_tie(ctx, hs) or {}
    ctx.log("histories: %s" % {k: hist_cov.get(k) for k in ("histories", "calls", "repository_additions", "failing_histories")})

    # ---- (X) objects: corpus first, then generated ----------------------------------------------------
    specs = []
    for path in sorted(glob.glob(os.path.join(VERIF, "corpus", "C07", "*.json"))):
        s = json.load(open(path))
        s["points"] = [(c, [float.fromhex(a) if isinstance(a, str) else float(a) for a in args]) for c, args in s["points"]]
        s["origin"] = "corpus/" + os.path.basename(path)
        specs.append(s)
    n_corpus = len(specs)
    rate_accs = [a for a in I.ACCS if a.name != "wavelength"]
    n_obj = 156 if quick else 2080
    for k in range(n_obj):
        acc = rate_accs[k % len(rate_accs)]
        s = gen_object(rng, acc, k // len(rate_accs), max_nodes=18 if quick else 60)
        s["origin"] = "generated #%d" % k
        specs.append(s)

    findings = {}          # key -> (text, replay)
    obj_lines, pt_lines, pt_meta = [], [], []      # pt_meta[i] = (spec index, point index or -1 for wf, verdict key)
    dist = {"objects_by_accessor": {}, "axis_lengths": {}, "point_classes": {}, "flags": {}, "species": {},
            "construct_failures": 0, "objects_with_single_point_axis": 0, "style": {}, "returned_objects_by_step": {}, "ambiguous_not_compared_exactly": 0,
            "container_forms": {}, "provider_constructor_forms": {}, "beam_cx_metastables_per_request": {}}
    n_eval, maxrel = 0, 0.0
    shards = []
    subs = []               # every object a provider returned: (sub-spec, origin spec index)
    for si0, s0 in enumerate(specs):
        acc = I.BY_NAME[s0["acc"]]
        ctx.crumb({"object": {k: v for k, v in s0.items() if k != "points"}})
        dist["objects_by_accessor"][acc.name] = dist["objects_by_accessor"].get(acc.name, 0) + 1
        axes = I.axes_of(s0["family"], s0["data"])
        for a in axes:
            dist["axis_lengths"][len(a)] = dist["axis_lengths"].get(len(a), 0) + 1
        dist["objects_with_single_point_axis"] += any(len(a) == 1 for a in axes)
        fl = "pe=%d fb=%d" % (s0["pe"], s0["fb"])
        dist["flags"][fl] = dist["flags"].get(fl, 0) + 1
        dist["style"][s0.get("style", "corpus")] = dist["style"].get(s0.get("style", "corpus"), 0) + 1
        for dk, dv in (("container_forms", s0.get("form", "list")), ("provider_constructor_forms", s0.get("adas_form", 0))):
            dist[dk][dv] = dist[dk].get(dv, 0) + 1
        if "metastables" in s0:
            nm = 1 + len(s0["metastables"])
            dist["beam_cx_metastables_per_request"][nm] = dist["beam_cx_metastables_per_request"].get(nm, 0) + 1
        for s, res in run_sequence(s0, scratch, "%d" % (si0 % 8)):
            si = len(subs)
            subs.append(s)
            dist["returned_objects_by_step"][s["step"]] = dist["returned_objects_by_step"].get(s["step"], 0) + 1
            sk = "%s/%s" % (s["k1"], s["k2"])
            dist["species"][sk] = dist["species"].get(sk, 0) + 1
            lam = spec_wavelength(acc, s)
            if s.get("is_null"):
                if res["construct"][0] != "ok":
                    findings.setdefault("c07:%s:null-missing" % s["acc"],
                                        ("missing data with missing_rates_return_null=True did not give a rate: %s" % (res["construct"],),
                                         {"object": _replay_obj(s), "construct": res["construct"]}))
                    continue
                for pi, ((cls, args), out) in enumerate(zip(s["points"], res["outs"])):
                    n_eval += 1
                    dist["point_classes"]["null:" + cls] = dist["point_classes"].get("null:" + cls, 0) + 1
                    key = None
                    if out != ("val", 0.0):
                        key = "c07:%s:null-not-zero" % s["acc"]
                        findings.setdefault(key, ("the null rate returned for missing data is not zero at %r: %s" % (args, out),
                                                  {"object": _replay_obj(s), "args": [float(a).hex() for a in args], "observed": out}))
                    pt_lines.append("ptnull_at [%s] %s" % ("; ".join(q(a) for a in args), coq_out(out)))
                    pt_meta.append((si, pi, key))
                continue
            jc = judge_construct(s, res)
            if jc:
                dist["construct_failures"] += 1
                findings.setdefault(jc[0], (jc[1], {"object": _replay_obj(s), "construct": res["construct"]}))
                continue
            name = "o%d" % si
            odef, wf, pt = coq_object(name, s, lam if lam is not None else 1.0, cf)
            obj_lines.append((si, odef))
            pt_lines.append("%s %s" % (wf, name))
            pt_meta.append((si, -1, None))
            for pi, ((cls, args), out) in enumerate(zip(s["points"], res["outs"])):
                n_eval += 1
                dist["point_classes"][cls] = dist["point_classes"].get(cls, 0) + 1
                if cls == "ulp-outside":
                    # one ulp beyond the first / last knot: the margin of the range decision is below what log10 resolves.
                    # Ambiguous (DESIGN 5.2): only 'raises, or a finite value >= 0' is asked; no exact comparison in Coq.
                    dist["ambiguous_not_compared_exactly"] += 1
                    if not (out[0] == "raise" or (out[0] == "val" and out[1] >= 0)):
                        findings.setdefault("c07:%s:ulp-outside" % s["acc"],
                                            ("one ulp outside the tabulated range: neither an exception nor a finite value >= 0: %s" % (out,),
                                             {"object": _replay_obj(s), "args": [float(a).hex() for a in args], "observed": out}))
                    continue
                v = judge_point(s, lam, cf, args, out)
                if v:
                    key = v[0] if s["step"] == "main" or v[0] in (K_SINGLE, K_ENDPOINT) else v[0] + ":" + s["step"]
                    v = (key, v[1] + " [object returned by step '%s' of a sequence of requests on one provider: %s]"
                         % (s["step"], [st["what"] for st in s0.get("seq", [])]))
                    findings.setdefault(v[0], (v[1], {"object": _replay_obj(s), "args": [float(a).hex() for a in args],
                                                      "args_decimal": args, "observed": out,
                                                      "sequence_on_one_provider": s0.get("seq"),
                                                      "impl_wavelength": res.get("impl_wavelength")}))
                ptf = "ptcx_cubic" if (cls == "inside-linear" and s["family"] == "cx" and not v) else pt
                pt_lines.append("%s %s %s %s" % (ptf, name, " ".join(q(a) for a in args), coq_out(out)))
                pt_meta.append((si, pi, v[0] if v else None))
            maxrel = max(maxrel, s.get("_maxrel", 0.0))
    n_seq = len(specs)
    specs = subs
    ctx.log('implementation runs done')
    # shard: <= 600 entries per file, object definitions included where used
    per = 1200
    files = []
    for lo in range(0, len(pt_lines), per):
        chunk = pt_lines[lo:lo + per]
        used = sorted({pt_meta[lo + i][0] for i in range(len(chunk))})
        defs = [d for si, d in obj_lines if si in used]
        txt = ("Require Import Cherab.Common.Qx Cherab.Model.C07_Rates Cherab.Model.C07_Check.\nFrom Coq Require Import Uint63.\nOpen Scope Q_scope.\n"
               + "\n".join(defs) + "\nDefinition results : list bool := [\n  " + ";\n  ".join(chunk)
               + "].\nEval vm_compute in (failing results).\n")
        files.append((ctx.write_gen("cases_%03d.v" % (lo // per), txt), lo, len(chunk)))
    head = ("Require Import Cherab.Common.Qx Cherab.Model.C07_Rates Cherab.Model.C07_Check.\nFrom Coq Require Import Uint63.\n"
            "Eval vm_compute in (failing [cf_ok %s]).\n" % q(cf))
    cfp = ctx.write_gen("cf.v", head)
    res = coqc_many([f for f, _, _ in files] + [cfp], timeout=900)
    # a coqc process that was killed from outside (observed: kernel OOM killer while 14 checks shared the machine)
    # leaves no Coq error message; such files are compiled once more, one at a time
    for f in list(res):
        ok, out = res[f]
        if not ok and "Error" not in out:
            ctx.log("re-running %s (no Coq error in the output of the first attempt)" % os.path.basename(f))
            res[f] = coqc(f, timeout=900)
    ctx.log('coq cases done')
    okc, outc = res[cfp]
    vc = parse_evals(outc) if okc else []
    ctx.obligation("PhotonToJ.conversion_factor == h c 1e9 (exact SI values), relative 2^-40, inside Coq", "correspondence",
                   okc and len(vc) == 1 and parse_zlist(vc[0]) == [], outc)
    import numpy as np
    from cherab.core.utility.conversion import PhotonToJ as P2J
    xs = np.array([10 ** rng.uniform(-40, -5) for _ in range(50)])
    ws = [rng.uniform(50.0, 2000.0) for _ in range(50)]
    conv_bad = []
    for w in ws[:5]:
        arr = P2J.to(xs, w)
        for x, y in zip(xs, arr):
            want = Fraction(*float(x).as_integer_ratio()) / Fraction(*w.as_integer_ratio()) * Fraction(*cf.as_integer_ratio())
            if not (abs(float(y) - float(want)) <= 1e-14 * float(want) and float(y) == P2J.to(float(x), w)
                    and abs(P2J.inv(float(y), w) / float(x) - 1) <= 1e-14):
                conv_bad.append((float(x).hex(), w, float(y)))
    ctx.obligation("PhotonToJ.to == x / wavelength * factor (exact rational, 1e-14), array == scalar, inv(to(x)) == x (250 values)",
                   "search", not conv_bad, str(conv_bad[:3]))
    if conv_bad:
        ctx.violation("c07:conversion:PhotonToJ", "PhotonToJ.to / inv is not x / wavelength * h c 1e9 and back", {"cases": conv_bad[:5]})
    n_diff = n_unexplained = 0
    for f, lo, n in files:
        ok, out = res[f]
        vals = parse_evals(out) if ok else []
        good = ok and len(vals) == 1
        failing = parse_zlist(vals[0]) if good else []
        unexplained = []
        for i in failing:
            si, pi, key = pt_meta[lo + i]
            n_diff += 1
            if key is None or key not in ctx.known:
                unexplained.append((si, pi, key))
        n_unexplained += len(unexplained)
        for si, pi, key in unexplained[:2]:
            s = specs[si]
            if key is None:
                what = "table not well-formed" if pi < 0 else "point %r" % (s["points"][pi],)
                findings.setdefault("c07-diff:%s" % s["acc"],
                                    ("model (run by Coq) and implementation disagree on %s of a %s object; the executable "
                                     "property found no failing input there" % (what, s["acc"]),
                                     {"object": _replay_obj(s), "point": s["points"][pi] if pi >= 0 else None,
                                      "file": os.path.basename(f), "no_failing_input": True}))
        ctx.obligation("correspondence %s (%d entries, %d differ, all under known findings: %s)"
                       % (os.path.basename(f), n, len(failing), not unexplained), "correspondence",
                       good and not unexplained, out if not good else "DIFF at local indices %s" % failing[:40])
        if not good:
            ctx.broken.append("coqc failed on %s: %s" % (f, out[-600:]))
    # Python verdicts that Coq did not flag would mean the two statements of the property drifted apart: fail closed
    flagged = set()
    for f, lo, n in files:
        ok, out = res[f]
        vals = parse_evals(out) if ok else []
        if ok and len(vals) == 1:
            flagged |= {lo + i for i in parse_zlist(vals[0])}
    drift = [m for i, m in enumerate(pt_meta) if m[2] is not None and i not in flagged]
    ctx.obligation("every point failing the executable property is also a DIFF inside Coq (%d)" % sum(1 for m in pt_meta if m[2]),
                   "search", not drift, str(drift[:5]))
    ctx.log("request sequences %d (corpus %d), returned objects %d, evaluations %d, coq DIFF %d (unexplained %d), max rel err at nodes %.2e"
            % (n_seq, n_corpus, len(specs), n_eval, n_diff, n_unexplained, maxrel))

    # ---- failing-input search result -------------------------------------------------------------------
    ctx.obligation("executable property on the implementation: %d evaluation points of %d rate objects, findings outside "
                   "known_findings.txt: %s" % (n_eval, len(specs), sorted(k for k in findings if k not in ctx.known)),
                   "search", all(k in ctx.known for k in findings), "")
    # known findings are always reported; of the others the first 6 keys (the obligation above lists all of them)
    shown = 0
    for key, (text, replay) in sorted(findings.items()):
        if key not in ctx.known:
            shown += 1
            if shown > 6:
                continue
        ctx.violation(key, text, replay, found=not replay.get("no_failing_input", False))

    ctx.coverage.update({
        "evaluations": n_eval + len(rows) + hist_cov.get("calls", 0),
        "distinct_nontrivial": n_eval + len(rows) + hist_cov.get("calls", 0),
        "rule": "policy: one case = one accessor call on a fresh provider and a repository prepared for it (complete finite domain, "
                "all_cases); histories: one case = one accessor call inside a sequence of calls and repository additions on ONE "
                "long-lived provider (two fixed histories per accessor: element / isotope / second isotope / same species twice / "
                "other charge or transition / data arriving or replaced between calls; plus random histories interleaving all 14 "
                "accessors), every returned object classified and compared with the model's outcome for its own arguments; "
                "values: one case = one evaluation of a rate object obtained through OpenADAS from a random positive table "
                "(13 rate accessors in rotation, every 6th round with a single-point axis), each table requested in a sequence on one "
                "provider (other species kind first or second, same request again, again after the table and the wavelengths were "
                "replaced) and EVERY returned object evaluated; all are non-trivial: each goes "
                "through the real repository files, the accessor and the compiled evaluate()",
        "distribution": dict(dist, policy=pol, provider_histories=hist_cov, corpus_objects=n_corpus,
                             generated_request_sequences=n_seq - n_corpus, returned_objects_evaluated=len(specs),
                             max_relative_error_at_grid_points=maxrel),
        "tolerance": {"grid point": "relative 2^-30 inside Coq (1e-9 in the executable property); measured max %.2e" % maxrel,
                      "guard": "exactly 0", "policy outcomes / exception kinds": "exact",
                      "null rate": "exactly 0 at every probed argument (ptnull_at)",
                      "BeamCXPEC strictly inside the t / n / Zeff / B ranges, energy on its axis": "exact rational cubic model (cubic1_r) "
                      "vs implementation, relative 2^-30, inside Coq",
                      "one ulp outside the range": "ambiguous, not compared exactly (only: raises or finite >= 0), counted",
                      "source structure (openadas.py, ast)": "exact, kernel-checked lemma source_ok",
                      "conversion factor": "relative 2^-40 of the exact SI value"},
        "partial": ["node theorems (C07_*_node_partial) assume oracle_laws; of these the 1-D through-knots laws are now theorems about the "
                    "Gallina model of raysect's cubic (C07_cubic1d_through_knots, C07_oracle_laws_from_cubic1d) and the 2-D / 3-D ones about the "
                    "kernels generated from raysect's source (C07_bicubic_through_knots, C07_tricubic_through_knots; derivative estimates "
                    "universally quantified); still assumed: the log10 / 10** laws of libm (exact form, or relative-error form in "
                    "C07_rate2_node_bicubic_rounded) -- checked numerically at every generated grid point, not proved",
                    "finiteness of extrapolated doubles is checked on the implementation only",
                    "the policy theorems hold for the cases of all_cases minus the rows excluded under known findings "
                    "(%d of %d)" % (pol.get("excluded_known", 0), pol.get("domain", 0))],
    })
    ctx.coverage["samples"] = [rows[0][0] | {"outcome": rows[0][1]},
                               {"object": _replay_obj(specs[-1], short=True), "first_point": specs[-1]["points"][0]}]
    ctx.grep_gate()


def _replay_obj(s, short=False):
    d = {k: v for k, v in s.items() if k not in ("points", "_maxrel")}
    if short:
        d["data"] = {k: (v if not isinstance(v, list) else "list[%d]" % len(v)) for k, v in s["data"].items()}
    return d
