"""C10 -- Ray-transfer matrices account for the whole chord and respect voxel maps
(cherab/tools/raytransfer/emitters.pyx, raytransfer.py, pipelines.py).

Theorems: coq/Properties/C10.v (all sample counts, cell sequences, voxel maps, intervals, periods).
Tie: correspondence -- the real cpdef integrators are called directly (and through RayTransferBox /
RayTransferCylinder + Ray.trace with a recording integrator) and every returned spectrum is compared
inside Coq (vm_compute) with the spectrum the Gallina model computes from the same inputs.
Search: the executable statement of the property itself on the real implementation (harness/c10_search.py).
"""
import math
import os
from fractions import Fraction

import numpy as np

from common import qlit, qlist, dyadic, coqc_many, parse_evals, parse_zlist, frac
import common


def zlit(n):
    return "(%d)%%Z" % int(n)


def zlist(xs):
    return "(" + common.zlist(xs) + ")%Z"

import c10_search as S
import c10_emitter as E

THEOREMS = ["C10_loop_is_per_sample_add", "C10_entry_is_dt_times_sample_count", "C10_inactive_cells_receive_nothing",
            "C10_entries_sum_to_active_length", "C10_all_active_sum_is_length", "C10_interval_sample_count",
            "C10_cartesian_cell_error_at_most_one_step", "C10_cell_error_k_intervals_partial",
            "C10_merged_map_additive", "C10_phi_index_periodic", "C10_dt_below_two_steps",
            "C10_mask_map_spec", "C10_sample_point_formula",
            "C10_pipeline0d_matrix_is_mean_of_own_samples", "C10_pipeline0d_history_independent",
            "C10_pipelineNd_rows_are_means", "C10_pipelineNd_history_independent",
            "C10_too_short_path_changes_nothing", "C10_integrate_entry_is_dt_times_samples",
            "C10_integrate_all_active_sums_to_length", "C10_ring_index_spec", "C10_cyl_region_met_in_at_most_two_intervals",
            "C10_axisymmetric_cell_met_in_at_most_two_intervals", "C10_rejected_assignment_changes_nothing",
            "C10_accepted_assignment_forgets_the_past", "C10_mask_assignment_roundtrip", "C10_ctrunc_respects_Qeq",
            "C10_executable_samples_give_the_code_cells", "C10_integrate_cartesian_cell_error_at_most_one_step",
            "C10_sign_q3_is_sign_of_real", "C10_model_sector_tests_are_convex", "C10_cyl_sector_cell_met_in_at_most_two_intervals",
            "C10_cell_error_two_steps_for_rational_brackets", "C10_pipeline0d_every_history_matrix_is_mean"]

PHI_TABLE = [(30, n) for n in (1, 2, 3, 4, 6, 12)] + [(45, n) for n in (1, 2, 4, 8)] + \
            [(60, n) for n in (1, 2, 3, 6)] + [(90, n) for n in (1, 2, 4)] + [(120, n) for n in (1, 3)] + \
            [(180, n) for n in (1, 2)] + [(360, 1)]


def vlit(p):
    return "(%s, %s, %s)" % tuple(qlit(float(v)) for v in p)


def mat12(A):
    return [float(A[i, j]) for i in range(3) for j in range(4)]


# ---------------------------------------------------------------------------------------------
# the implementation
# ---------------------------------------------------------------------------------------------
class Impl:
    def __init__(self):
        from raysect.optical import Point3D, AffineMatrix3D, Spectrum
        from cherab.tools.raytransfer import emitters
        self.Point3D, self.AffineMatrix3D, self.Spectrum, self.em = Point3D, AffineMatrix3D, Spectrum, emitters

    def material(self, g, vm=None, mask=None, np_args=False):
        """vm / mask: flat lists (converted to the canonical int32 / bool C arrays) or ready numpy arrays of any accepted
        dtype / layout; np_args: grid_shape as numpy integers, grid_steps as numpy float64 scalars"""
        shape = tuple(g["shape"])
        if vm is not None and not isinstance(vm, np.ndarray):
            vm = np.array(vm, dtype=np.int32).reshape(shape)
        if mask is not None and not isinstance(mask, np.ndarray):
            mask = np.array(mask, dtype=bool).reshape(shape)
        if np_args:
            shape = tuple(np.int64(v) for v in shape)
            g = dict(g)
            if g["kind"] == "cart":
                g["steps"] = [np.float64(v) for v in g["steps"]]
            else:
                g["dr"], g["dz"] = np.float64(g["dr"]), np.float64(g["dz"])
        if g["kind"] == "cart":
            return self.em.CartesianRayTransferEmitter(shape, tuple(g["steps"]), voxel_map=vm, mask=mask)
        return self.em.CylindricalRayTransferEmitter(shape, (g["dr"], float(g["dphi"]), g["dz"]), voxel_map=vm,
                                                     mask=mask, rmin=g["rmin"])

    def affine(self, m12):
        return self.AffineMatrix3D([m12[0:4], m12[4:8], m12[8:12], [0, 0, 0, 1]])

    def local(self, m12, p):
        q = self.Point3D(*p).transform(self.affine(m12))
        return (q.x, q.y, q.z)

    def length(self, m12, p0, p1):
        A = self.affine(m12)
        return self.Point3D(*p0).transform(A).vector_to(self.Point3D(*p1).transform(A)).length

    def integrator(self, kind, step, min_samples):
        cls = self.em.CartesianRayTransferIntegrator if kind == "cart" else self.em.CylindricalRayTransferIntegrator
        return cls(step, min_samples)

    def call(self, kind, material, step, min_samples, m12, p0, p1, init, integ=None, sp=None):
        """one call of <Integrator>.integrate; returns (samples afterwards, err) with err 0 | 1 (IndexError).
        integ / sp: a live integrator / Spectrum object to re-use (histories); otherwise fresh ones."""
        if integ is None:
            integ = self.integrator(kind, step, min_samples)
        if sp is None:
            sp = self.Spectrum(500., 501., len(init))
            sp.samples[:] = init
        A = self.affine(m12)
        err = 0
        try:
            integ.integrate(sp, None, None, None, material, self.Point3D(*p0), self.Point3D(*p1), A, A)
        except IndexError:
            err = 1
        return [float(v) for v in sp.samples], err

    def emission(self, material, p, init):
        from raysect.optical import Vector3D
        sp = self.Spectrum(500., 501., len(init))
        sp.samples[:] = init
        A = self.AffineMatrix3D()
        err = 0
        try:
            material.emission_function(self.Point3D(*p), Vector3D(0, 0, 1), sp, None, None, None, A, A)
        except IndexError:
            err = 1
        return [float(v) for v in sp.samples], err


# ---------------------------------------------------------------------------------------------
# generators
# ---------------------------------------------------------------------------------------------
SIZES = [0.25, 0.5, 1.0, 0.75, 1.5, 0.375, 0.125]


def gen_grid(rng, kind, exact, big, max_k=24):
    g = _gen_grid(rng, kind, exact, big)
    # scale covariance: dyadic grids are also generated at sizes 2^k, k in [-24, 24] (all lengths scale with the grid);
    # scenes traced by raysect: k in [-8, 8] (raysect's fixed intersection tolerances lose accuracy below ~1e-6 m and its
    # CSG tracer crashes above ~1e7 m with any material - not cherab code)
    k = rng.randint(-max_k, max_k) if (exact and rng.random() < 0.3) else 0
    g["scale"] = 2.0 ** k
    if k:
        f = g["scale"]
        if kind == "cart":
            g["steps"] = [v * f for v in g["steps"]]
            g["ext"] = [v * f for v in g["ext"]]
        else:
            for key in ("dr", "dz", "rmin", "rmax", "zmax"):
                g[key] *= f
    return g


def _gen_grid(rng, kind, exact, big):
    hi = 6 if big else 4
    if kind == "cart":
        while True:
            shape = [rng.randint(1, hi) for _ in range(3)]
            if shape[0] * shape[1] * shape[2] <= (120 if big else 48):
                break
        steps = [rng.choice(SIZES) if exact else rng.uniform(0.2, 1.5) for _ in range(3)]
        return {"kind": "cart", "shape": shape, "steps": steps, "ext": [shape[i] * steps[i] for i in range(3)]}
    dphi, nphi = rng.choice(PHI_TABLE)
    if rng.random() < 0.25:
        nphi = 1
    while True:
        nr, nz = rng.randint(1, hi), rng.randint(1, hi - 1)
        if nr * nphi * nz <= (150 if big else 60):
            break
    dr = rng.choice(SIZES) if exact else rng.uniform(0.2, 1.5)
    dz = rng.choice(SIZES) if exact else rng.uniform(0.2, 1.5)
    rmin = rng.choice([0.0, 0.0, 0.5, 1.0, 0.75, 2.0]) if exact else rng.choice([0.0, rng.uniform(0.1, 2.0)])
    return {"kind": "cyl", "shape": [nr, nphi, nz], "dr": dr, "dz": dz, "rmin": rmin, "dphi": dphi, "nphi": nphi,
            "period": dphi * nphi, "rmax": rmin + nr * dr, "zmax": nz * dz}


def gen_map(rng, ncells):
    """returns (map_kind, vm or None, mask or None)"""
    k = rng.random()
    if k < 0.3:
        return "identity", None, None
    if k < 0.55:
        while True:
            mask = [rng.random() < 0.6 for _ in range(ncells)]
            if any(mask):
                return "mask", None, mask
    if k < 0.8:
        B = rng.randint(1, max(1, ncells // 2))
        vm = [rng.randint(-1, B - 1) for _ in range(ncells)]
        vm[rng.randrange(ncells)] = B - 1
        return "merged", vm, None
    # long runs of the same source (neighbouring cells merged) with a few holes
    B = rng.randint(1, 3)
    vm = [(i * B) // ncells if rng.random() < 0.85 else -1 for i in range(ncells)]
    vm[-1] = B - 1
    return "blocks", vm, None


def gen_transform(rng, kind, scale=1.0):
    """returns (name, world_to_primitive 4x4 raysect matrix)"""
    from raysect.optical import translate, rotate_x, rotate_y, rotate_z, AffineMatrix3D
    if kind == "identity":
        return AffineMatrix3D()
    if kind == "translate":
        return translate(dyadic(rng, -4, 4, 3) * scale, dyadic(rng, -4, 4, 3) * scale, dyadic(rng, -4, 4, 3) * scale)
    return (rotate_z(rng.uniform(-180, 180)) * rotate_x(rng.uniform(-90, 90)) * rotate_y(rng.uniform(-90, 90))
            * translate(rng.uniform(-3, 3) * scale, rng.uniform(-3, 3) * scale, rng.uniform(-3, 3) * scale))


def coord(rng, lo, hi, exact):
    # relative to the interval, so that grids of any scale get few-bit coordinates
    return lo + (hi - lo) * dyadic(rng, 0, 1, 10) if exact else rng.uniform(lo, hi)


def gen_ray_cart(rng, g, exact):
    """returns (class, p0_local, p1_local, designed) ; designed rays need an exact transform"""
    ext, steps, shape = g["ext"], g["steps"], g["shape"]
    r = rng.random()
    inside = lambda a: coord(rng, 0.0, ext[a] * (1 - 2 ** -9), exact)
    if r < 0.30:
        return "generic", [inside(a) for a in range(3)], [inside(a) for a in range(3)], False
    if r < 0.45:     # axis-parallel, possibly lying in a cell face / along a cell edge
        ax = rng.randrange(3)
        p0, p1 = [0, 0, 0], [0, 0, 0]
        onface = 0
        for a in range(3):
            if a == ax:
                continue
            if rng.random() < 0.5:
                v = rng.randrange(shape[a]) * steps[a]
                onface += 1
            else:
                v = inside(a)
            p0[a] = p1[a] = v
        if rng.random() < 0.5:
            p0[ax], p1[ax] = 0.0, ext[ax] * (1 - 1e-5)
        else:
            p0[ax], p1[ax] = inside(ax), inside(ax)
        if rng.random() < 0.5:
            p0, p1 = p1, p0
        return "axis-parallel/%s" % ["interior", "in-face", "along-edge"][onface], p0, p1, True
    if r < 0.60:     # through cell corners / edges: both ends on lattice points (or one in a face centre)
        p0 = [rng.randrange(shape[a]) * steps[a] for a in range(3)]
        p1 = [rng.randrange(shape[a]) * steps[a] for a in range(3)]
        if rng.random() < 0.3:
            a = rng.randrange(3)
            p1[a] = min(p1[a] + steps[a] / 2, ext[a] * (1 - 2 ** -9))
        return "through-corners", p0, p1, True
    if r < 0.72:     # full chord: enters through one face, leaves through the opposite one (box shrunk by 1e-5 cell)
        ax = rng.randrange(3)
        p0 = [inside(a) for a in range(3)]
        p1 = [inside(a) for a in range(3)]
        p0[ax], p1[ax] = 0.0, ext[ax] - 1e-5 * steps[ax]
        if rng.random() < 0.5:
            p0, p1 = p1, p0
        return "face-to-face", p0, p1, False
    if r < 0.82:     # short paths
        p0 = [inside(a) for a in range(3)]
        return "short", p0, None, False
    if r < 0.92:     # dips below zero by less than a cell (the cast truncates towards zero: still index 0)
        p0 = [inside(a) for a in range(3)]
        p1 = [inside(a) for a in range(3)]
        a = rng.randrange(3)
        p0[a] = -rng.uniform(0.05, 0.9) * steps[a]
        return "below-zero", p0, p1, False
    p0 = [inside(a) for a in range(3)]
    p1 = [inside(a) for a in range(3)]
    a = rng.randrange(3)
    if rng.random() < 0.5:
        p1[a] = ext[a] + rng.uniform(0.05, 1.5) * steps[a]
    else:
        p1[a] = -rng.uniform(1.1, 2.5) * steps[a]
    return "leaves-grid", p0, p1, False


def gen_ray_cyl(rng, g, exact):
    rmin, rmax, zmax, dr = g["rmin"], g["rmax"], g["zmax"], g["dr"]
    zin = lambda: coord(rng, 0.0, zmax * (1 - 2 ** -9), exact)

    def annulus_point():
        rr = rng.uniform(rmin + 1e-3 * dr, rmax - 1e-3 * dr)
        ph = rng.uniform(-math.pi, math.pi)
        x, y = rr * math.cos(ph), rr * math.sin(ph)
        if exact:
            sc = g.get("scale", 1.0)
            x, y = round(x / sc * 1024) / 1024 * sc, round(y / sc * 1024) / 1024 * sc
            if not (rmin * rmin < x * x + y * y < rmax * rmax):
                return annulus_point()
        return [x, y, zin()]
    r = rng.random()
    if r < 0.30:
        return "generic", annulus_point(), annulus_point(), False
    if r < 0.45:     # chord that stays outside the inner cylinder
        for _ in range(50):
            p0, p1 = annulus_point(), annulus_point()
            if S.dist_axis(p0, p1) > rmin + 1e-3 * dr:
                return "outside-hole", p0, p1, False
        return "generic", p0, p1, False
    if r < 0.57:     # parallel to the axis, possibly exactly on a sector boundary / ring boundary
        k = rng.random()
        if k < 0.4:
            p = annulus_point()
            name = "z-parallel/interior"
        elif k < 0.7:    # on a coordinate axis (phi a multiple of 90 degrees), radius on a ring boundary or not
            rr = rmin + rng.randrange(g["shape"][0]) * dr if rng.random() < 0.5 else coord(rng, rmin, rmax * (1 - 2 ** -9), True)
            if rr == 0.0:
                rr = dr / 2
            p = [[rr, 0.0], [0.0, rr], [-rr, 0.0], [0.0, -rr]][rng.randrange(4)] + [0.0]
            name = "z-parallel/on-axis-plane"
        else:            # on a diagonal sector boundary (45 degrees)
            v = coord(rng, rmin / 1.4 + 0.05 * dr, rmax / 1.5, True)
            p = [v * rng.choice([-1, 1]), v * rng.choice([-1, 1]), 0.0]
            name = "z-parallel/on-diagonal"
        if not (rmin * rmin <= p[0] ** 2 + p[1] ** 2 < rmax * rmax):
            p = annulus_point()
            name = "z-parallel/interior"
        z0, z1 = (0.0, zmax * (1 - 1e-5)) if rng.random() < 0.5 else (zin(), zin())
        return name, [p[0], p[1], z0], [p[0], p[1], z1], True
    if r < 0.69:     # tangential to a ring boundary:  x = R exactly, y from -a to a
        i = rng.randint(0 if rmin > 0 else 1, g["shape"][0] - 1) if g["shape"][0] > 1 or rmin > 0 else 0
        R = rmin + i * dr
        if R <= 0:
            R = rmin + dr / 2
        a = math.sqrt(max(rmax * rmax - R * R, 0.0)) * rng.uniform(0.3, 0.98)
        sc = g.get("scale", 1.0)
        a = round(a / sc * 1024) / 1024 * sc
        p0, p1 = [R, -a, zin()], [R, a, zin()]
        if rng.random() < 0.5:   # rotate the tangent line by a quarter turn
            p0, p1 = [-p0[1], p0[0], p0[2]], [-p1[1], p1[0], p1[2]]
        return "tangential", p0, p1, True
    if r < 0.79:     # along a radius in the plane y = 0 or x = 0 (through the axis when rmin = 0)
        lo = -(rmax * (1 - 2 ** -9)) if rmin == 0 else rmin + dr * 2 ** -9
        a, b = (lo, rmax * (1 - 2 ** -9)) if rng.random() < 0.5 else (coord(rng, lo, rmax * (1 - 2 ** -9), True),
                                                                      coord(rng, lo, rmax * (1 - 2 ** -9), True))
        z0, z1 = zin(), zin()
        if rng.random() < 0.5:
            return "radial", [a, 0.0, z0], [b, 0.0, z1], True
        return "radial", [0.0, a, z0], [0.0, b, z1], True
    if r < 0.89:
        return "short", annulus_point(), None, False
    p0, p1 = annulus_point(), annulus_point()
    k = rng.random()
    if k < 0.4:
        f = (rmax + rng.uniform(0.05, 1.0) * dr) / math.hypot(p1[0], p1[1])
        p1 = [p1[0] * f, p1[1] * f, p1[2]]
    elif k < 0.7:
        p1[2] = zmax + rng.uniform(0.05, 1.0) * g["dz"]
    else:
        p1[2] = -rng.uniform(1.1, 2.0) * g["dz"]
    return "leaves-grid", p0, p1, False


def make_case(rng, impl, g, material, nmax, exact):
    """one call of integrate on grid g; returns the case dict or None when the case is rejected"""
    kind = g["kind"]
    cls, p0, p1, designed = (gen_ray_cart if kind == "cart" else gen_ray_cyl)(rng, g, exact)
    cellmin = min(g["steps"]) if kind == "cart" else min(g["dr"], g["dz"])
    if exact and rng.random() < 0.5:
        step = rng.choice([2 ** -4, 2 ** -3, 3 * 2 ** -4, 2 ** -2, 2 ** -1]) * cellmin
    else:
        step = rng.uniform(0.05, 0.9) * cellmin
    min_samples = rng.choice([2, 2, 2, 3, 7, 20])
    if cls == "short":
        f = rng.choice([0.01, 0.05, 0.09, 0.11, 0.3, 0.8, 1.0, 1.7])
        d = [rng.uniform(-1, 1) for _ in range(3)]
        nd = math.sqrt(sum(v * v for v in d))
        p1 = [p0[i] + d[i] / nd * f * step for i in range(3)]
    tk = rng.choice(["identity", "translate"]) if designed else rng.choice(["identity", "translate", "general", "general"])
    Mw2p = gen_transform(rng, tk, g.get("scale", 1.0))
    if tk == "identity":
        w0, w1 = p0, p1
    else:
        inv = Mw2p.inverse()
        q0, q1 = impl.Point3D(*p0).transform(inv), impl.Point3D(*p1).transform(inv)
        w0, w1 = [q0.x, q0.y, q0.z], [q1.x, q1.y, q1.z]
    m12 = mat12(Mw2p)
    length = impl.length(m12, w0, w1)
    if length <= 0.0:
        return None
    if length / step > nmax:
        step = length / rng.uniform(0.3 * nmax, nmax)
    return finish_case(rng, impl, g, material, cls, tk, m12, w0, w1, step, min_samples)


def finish_case(rng, impl, g, material, cls, tk, m12, w0, w1, step, min_samples, boundary=False, integ=None, sp=None):
    """runs the implementation on one call and returns the case dict; None when <int>(length/step) or the too-short test
    would be decided by rounding (boundary=True: the caller built an exact boundary value on purpose; such a case is
    marked coq_skip when the exact-arithmetic model cannot decide it and then goes to the search only)"""
    kind = g["kind"]
    length = impl.length(m12, w0, w1)
    if length <= 0.0:
        return None
    q = Fraction(length) / Fraction(step)
    fr = q - (q.numerator // q.denominator)
    coq_skip = False
    if fr != 0 and (fr < Fraction(1, 10 ** 6) or fr > 1 - Fraction(1, 10 ** 6)):
        if not boundary:
            return None      # <int>(length/step) would be decided by rounding
        coq_skip = True
    if abs(length - 0.1 * step) < 1e-9 * step:
        # exact only when 0.1 * step is an exact product (step a power of two)
        m, _ = math.frexp(step)
        if not (boundary and m == 0.5):
            return None
    bins = material.bins
    if sp is not None:
        init = [float(v) for v in sp.samples]
    else:
        init = [0.0] * bins if rng.random() < 0.5 else [dyadic(rng, 0, 4, 6) for _ in range(bins)]
    out, err = impl.call(kind, material, step, min_samples, m12, w0, w1, init, integ=integ, sp=sp)
    return {"kind": kind, "class": cls, "transform": tk, "step": step, "min_samples": min_samples, "m12": m12,
            "p0": [float(v) for v in w0], "p1": [float(v) for v in w1], "length": length,
            "start_local": list(impl.local(m12, w0)), "end_local": list(impl.local(m12, w1)), "init": init, "out": out,
            "err": err, "n": max(min_samples, int(length / step)), "short": length < 0.1 * step, "coq_skip": coq_skip}


IDENT12 = [1.0, 0.0, 0.0, 0.0, 0.0, 1.0, 0.0, 0.0, 0.0, 0.0, 1.0, 0.0]


def boundary_cases(rng, impl, g, material, nmax, exact):
    """exact boundary values of the two comparisons of integrate(): length against 0.1*step (below / equal / above by one
    ulp) and length/step against an integer (k*step exactly, one ulp either side); the path starts at coordinate 0.0 or -0.0"""
    kind = g["kind"]
    cellmin = min(g["steps"]) if kind == "cart" else min(g["dr"], g["dz"])
    step = 2.0 ** math.floor(math.log2(cellmin * rng.choice([0.5, 0.25, 0.125])))
    zero = rng.choice([0.0, -0.0])
    if kind == "cart":
        ax = rng.randrange(3)
        base = [coord(rng, 0.0, g["ext"][a] * (1 - 2 ** -9), exact) for a in range(3)]
        span = g["ext"][ax]
    else:
        ax = 2
        rr = g["rmin"] + g["dr"] * (rng.randrange(g["shape"][0]) + 0.5)
        base = [[rr, 0.0], [0.0, rr], [-rr, 0.0], [0.0, -rr]][rng.randrange(4)] + [0.0]
        span = g["zmax"]
    base[ax] = zero
    out = []
    L0 = 0.1 * step
    kmax = int(span * 0.98 / step)
    lens = [("short-boundary/below", math.nextafter(L0, 0.0)), ("short-boundary/equal", L0),
            ("short-boundary/above", math.nextafter(L0, 1e300))]
    if kmax >= 1:
        k = rng.randint(1, min(kmax, nmax))
        lens += [("n-boundary/exact", k * step), ("n-boundary/below", math.nextafter(k * step, 0.0)),
                 ("n-boundary/above", math.nextafter(k * step, 1e300))]
    for name, L in lens:
        p1 = list(base)
        p1[ax] = L
        c = finish_case(rng, impl, g, material, name, "identity", IDENT12, base, p1, step, rng.choice([2, 2, 3, 7]), boundary=True)
        if c is not None:
            out.append(c)
    return out


# ---------------------------------------------------------------------------------------------
# unusual but valid argument forms of masks / voxel maps
# ---------------------------------------------------------------------------------------------
def variant_form(rng, arr, what):
    """the same mask / voxel map in another dtype / memory layout; returns (array, name)"""
    arr = np.asarray(arr)
    dt = rng.choice([np.int32, np.int64, np.int8, np.float64] if what == "voxel_map" else [bool, np.int64, np.float64, np.uint8])
    if dt == np.int8 and arr.max() > 100:
        dt = np.int64
    a = arr.astype(dt)
    lay = rng.choice(["C", "noncontiguous", "readonly", "F"])
    if lay == "noncontiguous":
        a = np.repeat(a, 2, axis=2)[:, :, ::2]
    elif lay == "F":
        a = np.asfortranarray(a)
    elif lay == "readonly":
        a = a.copy()
        a.setflags(write=False)
    return a, "%s/%s" % (np.dtype(dt).name, lay)


# ---------------------------------------------------------------------------------------------
# histories on one live emitter + one live integrator (+ a re-used Spectrum)
# ---------------------------------------------------------------------------------------------
def live_history(rng, impl, g0, nmax, exact, mask_checks, fails, stats):
    """One material object and one integrator object are used for a whole sequence: integrate, change the mask / the voxel
    map (any dtype / layout; also to the same value), change step / min_samples through the setters, try rejected values
    (the state must stay as it was), integrate again with the same Spectrum object...  Every integrate() becomes an ordinary
    correspondence case (model fed the configuration current at that step) and is compared, in the search, with objects
    built afresh from that configuration.  Returns a list of grid entries (one per integrate call)."""
    kind, shape = g0["kind"], tuple(g0["shape"])
    ncells = shape[0] * shape[1] * shape[2]
    cellmin = min(g0["steps"]) if kind == "cart" else min(g0["dr"], g0["dz"])
    mk, vm, mask = gen_map(rng, ncells)
    mat = impl.material(g0, vm=vm, mask=mask)          # configured through the constructor
    integ = impl.integrator(kind, rng.uniform(0.1, 0.6) * cellmin, 2)
    entries, sp, forms = [], None, {}
    ops = ["mask", "voxel_map", "same", "step", "min_samples", "reject", "none"]
    for it in range(rng.randint(4, 7)):
        op = rng.choice(ops) if it else "none"
        before = np.array(mat.voxel_map).copy()
        before_cfg = (int(mat.bins), integ.step, integ.min_samples)
        rejected = None
        if op == "mask":
            if rng.random() < 0.2:
                mat.mask = None
                m = [True] * ncells
            else:
                m = [rng.random() < 0.6 for _ in range(ncells)]
                m[rng.randrange(ncells)] = True
                a, form = variant_form(rng, np.array(m, dtype=bool).reshape(shape), "mask")
                forms[form] = forms.get(form, 0) + 1
                mat.mask = a
            mask_checks.append("b2z (check_mask [%s] %s %s)" % ("; ".join("true" if b else "false" for b in m),
                                                                  zlist([int(v) for v in np.asarray(mat.voxel_map).ravel()]), zlit(mat.bins)))
        elif op == "voxel_map":
            B = rng.randint(1, max(1, ncells // 2))
            v = [rng.randint(-1, B - 1) for _ in range(ncells)]
            v[rng.randrange(ncells)] = B - 1
            a, form = variant_form(rng, np.array(v).reshape(shape), "voxel_map")
            forms[form] = forms.get(form, 0) + 1
            try:
                mat.voxel_map = a
            except ValueError as exc:
                fails.append({"claim": "a valid voxel map is accepted in any integer-valued dtype and memory layout (%s)" % form,
                              "given": v, "form": form, "error": "ValueError: %s" % exc, "grid": {k: g0[k] for k in ("kind", "shape")}})
                rejected = ("voxel_map/" + form, "ValueError")
            if rejected is None and ([int(x) for x in np.asarray(mat.voxel_map).ravel()] != v or mat.bins != B):
                fails.append({"claim": "voxel_map setter: the object holds the map it was given (any integer-valued dtype / layout) and "
                                       "bins = max + 1", "given": v, "form": form, "held": np.asarray(mat.voxel_map).ravel().tolist(),
                              "bins": int(mat.bins)})
        elif op == "same":
            if rng.random() < 0.5:
                mat.voxel_map = mat.voxel_map
            else:
                integ.step = integ.step
                integ.min_samples = integ.min_samples
        elif op == "step":
            integ.step = rng.uniform(0.05, 0.9) * cellmin
        elif op == "min_samples":
            integ.min_samples = rng.choice([2, 3, 7, 20])
        elif op == "reject":
            what = rng.choice(["step=0", "step<0", "min_samples=1", "mask-shape", "voxel_map-shape", "voxel_map-list", "mask-list",
                               "voxel_map-2d", "mask-transposed-shape"])
            want_exc = TypeError if what.endswith("-list") else ValueError
            if what == "mask-transposed-shape" and shape == shape[::-1]:
                what = "mask-shape"
            try:
                if what == "step=0":
                    integ.step = 0.0
                elif what == "step<0":
                    integ.step = -integ.step
                elif what == "min_samples=1":
                    integ.min_samples = 1
                elif what == "mask-shape":
                    mat.mask = np.ones((shape[0] + 1, shape[1], shape[2]), dtype=bool)
                elif what == "mask-transposed-shape":
                    mat.mask = np.ones(shape[::-1], dtype=bool)
                elif what == "voxel_map-shape":
                    mat.voxel_map = np.zeros((shape[0], shape[1] + 1, shape[2]), dtype=np.int32)
                elif what == "voxel_map-2d":
                    mat.voxel_map = np.zeros((shape[0], shape[1] * shape[2] + 1), dtype=np.int32)
                elif what == "voxel_map-list":
                    mat.voxel_map = np.zeros(shape, dtype=np.int32).tolist()
                else:
                    mat.mask = np.ones(shape, dtype=bool).tolist()
                rejected = (what, None)
            except (ValueError, TypeError, AttributeError) as exc:
                rejected = (what, type(exc).__name__)
            stats["rejected_updates"] = stats.get("rejected_updates", 0) + 1
            if rejected[1] is None:
                fails.append({"claim": "an invalid value (%s) is rejected" % what, "grid": {k: g0[k] for k in ("kind", "shape")}})
        if rejected is not None and rejected[1] is not None:
            # EVERY rejected assignment: the state the object reports AND the state integrate() uses are both unchanged
            what = rejected[0]
            after = np.array(mat.voxel_map)
            reported_same = after.shape == before.shape and np.array_equal(after, before) and \
                (int(mat.bins), integ.step, integ.min_samples) == before_cfg
            probe0, probe1 = ([coord(rng, 0.0, g0["ext"][a] * 0.99, False) for a in range(3)] for _ in range(2)) if kind == "cart" else \
                ([g0["rmin"] + 0.37 * g0["dr"], 0.11 * g0["dr"], 0.1 * g0["zmax"]], [-(g0["rmax"] - 0.21 * g0["dr"]) * 0.7, (g0["rmax"] - 0.2 * g0["dr"]) * 0.7, 0.9 * g0["zmax"]])
            nb = before_cfg[0]
            live_out, live_err = impl.call(kind, mat, before_cfg[1], before_cfg[2], IDENT12, probe0, probe1, [0.0] * max(nb, int(mat.bins)))
            ref_out, ref_err = impl.call(kind, impl.material(g0, vm=[int(x) for x in before.ravel()]), before_cfg[1], before_cfg[2],
                                         IDENT12, probe0, probe1, [0.0] * max(nb, int(mat.bins)))
            used_same = (live_out, live_err) == (ref_out, ref_err)
            if not (reported_same and used_same):
                fails.append({"claim": "a rejected assignment leaves the object as it was: the voxel_map / mask / bins it reports and the "
                                       "map integrate() uses are both the ones from before",
                              "assignment": what, "raised": rejected[1], "reported_unchanged": bool(reported_same), "used_unchanged": bool(used_same),
                              "grid": {k: v for k, v in g0.items() if k not in ("cases", "traces")},
                              "map_before": before.ravel().tolist(), "map_reported_after": after.ravel().tolist(),
                              "bins_before": before_cfg[0], "bins_after": int(mat.bins),
                              "probe": {"p0": probe0, "p1": probe1, "entries_live": live_out, "entries_with_map_before": ref_out}})
                mat.voxel_map = np.ascontiguousarray(before)      # re-synchronise and go on
        # ---- integrate with the live objects ----
        bins = int(mat.bins)
        g = dict(g0, vm=[int(x) for x in np.asarray(mat.voxel_map).ravel()], map_kind="live-history", exact=exact, bins=bins, cases=[])
        if sp is None or len(sp.samples) != bins or rng.random() < 0.3:
            sp = impl.Spectrum(500., 501., bins)
            if rng.random() < 0.5:
                sp.samples[:] = [dyadic(rng, 0, 4, 6) for _ in range(bins)]
        for _ in range(rng.randint(1, 2)):
            cls, p0, p1, designed = (gen_ray_cart if kind == "cart" else gen_ray_cyl)(rng, g0, exact)
            if cls == "short":
                d = [rng.uniform(-1, 1) for _ in range(3)]
                nd = math.sqrt(sum(x * x for x in d))
                p1 = [p0[i] + d[i] / nd * rng.choice([0.02, 0.3, 1.5]) * integ.step for i in range(3)]
            length = impl.length(IDENT12, p0, p1)
            if length <= 0 or length / integ.step > nmax:
                continue
            c = finish_case(rng, impl, g0, mat, "live/" + cls, "identity", IDENT12, p0, p1, integ.step, integ.min_samples, integ=integ, sp=sp)
            if c is None:
                continue
            c["live_op"] = op if rejected is None else "reject:" + rejected[0]
            g["cases"].append(c)
            if c["err"]:
                sp = None
                break
        if g["cases"]:
            entries.append(g)
    lf = stats.setdefault("live_forms", {})
    for k, v in forms.items():
        lf[k] = lf.get(k, 0) + v
    return entries


def emission_cases(rng, impl, g, material, exact):
    """emission_function(point) of the emitters (the entry point every other volume integrator uses)"""
    kind = g["kind"]
    lines = []
    bins = int(material.bins)
    for _ in range(3):
        if kind == "cart":
            p = [coord(rng, 0.0, g["ext"][a] * (1 - 2 ** -9), exact) for a in range(3)]
            if rng.random() < 0.4:
                a = rng.randrange(3)
                p[a] = rng.randrange(g["shape"][a] + 1) * g["steps"][a] * rng.choice([1.0, 1.0, -1.0])
        else:
            rr = rng.uniform(g["rmin"], g["rmax"]) if rng.random() < 0.6 else g["rmin"] + rng.randrange(g["shape"][0] + 1) * g["dr"]
            ph = math.radians(rng.choice([rng.uniform(-180, 180), rng.randrange(-12, 13) * 15.0]))
            p = [rr * math.cos(ph), rr * math.sin(ph), rng.uniform(0, g["zmax"]) if rng.random() < 0.7 else rng.randrange(g["shape"][2] + 1) * g["dz"]]
        init = [dyadic(rng, 0, 4, 4) for _ in range(bins)]
        out, err = impl.emission(material, p, init)
        head = grid_coq(g).replace("check_cart", "check_emission_cart").replace("check_cyl", "check_emission_cyl")
        lines.append("%s %s %s %s %s %s" % (head, zlist(g["vm"]), vlit(p), qlist(init), qlist(out), zlit(err)))
    return lines


def grid_coq(g):
    if g["kind"] == "cart":
        return "check_cart (%s, %s, %s) %s" % (zlit(g["shape"][0]), zlit(g["shape"][1]), zlit(g["shape"][2]), vlit(g["steps"]))
    return ("check_cyl (%s, %s, %s) {| cg_rmin := %s; cg_dr := %s; cg_dz := %s; cg_nphi := %s; cg_dphi := %s; cg_nr := %s |}"
            % (zlit(g["shape"][0]), zlit(g["shape"][1]), zlit(g["shape"][2]), qlit(g["rmin"]), qlit(g["dr"]), qlit(g["dz"]),
               zlit(g["nphi"]), zlit(g["dphi"]), zlit(g["shape"][0])))


def case_coq(g, vmname, c):
    return "%s %s %s %s %s %s %s %s %s %s" % (
        grid_coq(g), vmname, qlit(c["step"]), zlit(c["min_samples"]), vlit(c["start_local"]), vlit(c["end_local"]),
        qlit(c["length"]), qlist(c["init"]), qlist(c["out"]), zlit(c["err"]))


def pipe_case_coq(dim, hist, outs):
    kindc = {"power": "Power", "radiance": "Radiance"}
    smp = lambda sm: "(%s, %s)" % (qlist(sm[0]), qlit(sm[1]))
    pix = lambda k: "(%s, %s)" % ((zlit(k), zlit(0)) if dim == 1 else (zlit(k[0]), zlit(k[1])))
    if dim == 0:
        h = "[" + "; ".join("(%s, [%s])" % (kindc[ob["kind"]], "; ".join("[" + "; ".join(smp(sm) for sm in t) + "]" for t in ob["tasks"]))
                            for ob in hist) + "]"
        o = "[" + "; ".join(qlist([float(v) for v in m]) for m in outs) + "]"
        return "b2z (check_p0 %s %s)" % (h, o)
    h = "[" + "; ".join("(%s, %s, [%s])" % (kindc[ob["kind"]], zlit(ob["pixel_samples"]),
                                            "; ".join("(%s, [%s])" % (pix(k), "; ".join(smp(sm) for sm in t)) for k, t in ob["tasks"]))
                        for ob in hist) + "]"
    rows = []
    for ob, m in zip(hist, outs):
        if dim == 1:
            keys = list(range(ob["pixels"]))
        else:
            keys = [(x, y) for x in range(ob["pixels"][0]) for y in range(ob["pixels"][1])]
        rows.append("[" + "; ".join("(%s, %s)" % (pix(k), qlist([float(v) for v in m[k]])) for k in keys) + "]")
    return "b2z (check_pn %s %s)" % (h, "[" + "; ".join(rows) + "]")


HEADER = ("Require Import Cherab.Common.Qx Cherab.Model.C10_RayTransfer Cherab.Model.C10_Pipeline Cherab.Model.C10_Emitter "
          "Cherab.Model.C10_Check.\n"
          "Open Scope Q_scope.\n")


# ---------------------------------------------------------------------------------------------
# cases through RayTransferBox / RayTransferCylinder + Ray.trace
# ---------------------------------------------------------------------------------------------
def traced_cases(rng, impl, n_objects, rays_per, nmax):
    from raysect.optical import World, Ray, Point3D, Vector3D
    from raysect.optical.material import VolumeIntegrator
    from cherab.tools.raytransfer import RayTransferBox, RayTransferCylinder

    class Rec(VolumeIntegrator):
        """records every call the ray tracer makes and delegates to the real integrator"""
        def __init__(self, inner):
            self.inner, self.calls = inner, []

        def integrate(self, spectrum, world, ray, primitive, material, start_point, end_point, w2p, p2w):
            init = [float(v) for v in spectrum.samples]
            res = self.inner.integrate(spectrum, world, ray, primitive, material, start_point, end_point, w2p, p2w)
            self.calls.append({"p0": [start_point.x, start_point.y, start_point.z],
                               "p1": [end_point.x, end_point.y, end_point.z], "m12": mat12(w2p), "init": init,
                               "out": [float(v) for v in spectrum.samples]})
            return res

    objs = []
    for oi in range(n_objects):
        kind = "cart" if oi % 2 == 0 else "cyl"
        g = gen_grid(rng, kind, rng.random() < 0.5, False, 8)
        ncells = g["shape"][0] * g["shape"][1] * g["shape"][2]
        mk, vm, mask = gen_map(rng, ncells)
        vm3 = None if vm is None else np.array(vm, dtype=np.int32).reshape(g["shape"])
        mask3 = None if mask is None else np.array(mask, dtype=bool).reshape(g["shape"])
        tr = gen_transform(rng, rng.choice(["identity", "translate", "general"]), g.get("scale", 1.0)).inverse()
        world = World()
        cellmin = min(g["steps"]) if kind == "cart" else min(g["dr"], g["dz"])
        step = rng.uniform(0.08, 0.6) * cellmin
        if kind == "cart":
            size = max(g["ext"])
            step = max(step, 2.0 * size / nmax)
            obj = RayTransferBox(g["ext"][0], g["ext"][1], g["ext"][2], g["shape"][0], g["shape"][1], g["shape"][2],
                                 step=step, voxel_map=vm3, mask=mask3, parent=world, transform=tr)
            centre = [e / 2 for e in g["ext"]]
        else:
            size = 2 * g["rmax"] + g["zmax"]
            step = max(step, 2.0 * size / nmax)
            obj = RayTransferCylinder(g["rmax"], g["zmax"], g["shape"][0], g["shape"][2], radius_inner=g["rmin"],
                                      n_polar=g["nphi"], period=float(g["period"]), step=step, voxel_map=vm3, mask=mask3,
                                      parent=world, transform=tr)
            centre = [0.0, 0.0, g["zmax"] / 2]
            # RayTransferCylinder derives the cell sizes itself: read them back (they are inputs of the model)
            g = dict(g, dr=obj.material.dr, dz=obj.material.dz)
        rec = Rec(obj.material.integrator)
        obj.material.integrator = rec
        g["vm"] = [int(v) for v in np.asarray(obj.voxel_map).ravel()]
        g["map_kind"], g["traced"], g["bins"] = mk, True, int(obj.bins)
        g["cases"] = []
        g["traces"] = []
        for ri in range(rays_per):
            # aim from a point outside at a random point inside (sometimes starting inside)
            tgt = [centre[i] + rng.uniform(-0.45, 0.45) * size * 0.5 for i in range(3)]
            d = [rng.gauss(0, 1) for _ in range(3)]
            if rng.random() < 0.25:
                d[rng.randrange(3)] = 0.0
            nd = math.sqrt(sum(v * v for v in d)) or 1.0
            d = [v / nd for v in d]
            dist = size * (2.0 if rng.random() < 0.8 else 0.0)   # 0.0: origin inside the object
            org = [tgt[i] - d[i] * dist for i in range(3)]
            o_w = Point3D(*org).transform(tr)
            d_w = Vector3D(*d).transform(tr)
            ray = Ray(origin=o_w, direction=d_w, min_wavelength=500., max_wavelength=501., bins=obj.bins)
            before = len(rec.calls)
            try:
                sp = ray.trace(world)
            except Exception as exc:      # noqa: BLE001
                # the bounding primitive keeps every path inside the grid: an IndexError (or anything else) here is a finding
                g.setdefault("trace_errors", []).append({"origin_local": org, "dir_local": d, "step": step,
                                                         "error": "%s: %s" % (type(exc).__name__, exc)})
                del rec.calls[before:]
                continue
            calls = rec.calls[before:]
            tracesum = [float(v) for v in sp.samples]
            g["traces"].append({"origin_local": org, "dir_local": d, "result": tracesum, "ncalls": len(calls),
                                "step": step, "start_inside": dist == 0.0,
                                "last_out": calls[-1]["out"] if calls else [0.0] * obj.bins})
            for c in calls:
                length = impl.length(c["m12"], c["p0"], c["p1"])
                q = Fraction(length) / Fraction(step)
                fr = q - (q.numerator // q.denominator)
                if length <= 0 or (fr != 0 and (fr < Fraction(1, 10 ** 6) or fr > 1 - Fraction(1, 10 ** 6))):
                    continue
                c.update({"kind": kind, "class": "traced" + ("/start-inside" if dist == 0.0 else ""), "transform": "scene",
                          "start_local": list(impl.local(c["m12"], c["p0"])), "end_local": list(impl.local(c["m12"], c["p1"])),
                          "step": step, "min_samples": 2, "length": length, "err": 0,
                          "n": max(2, int(length / step)), "short": length < 0.1 * step})
                g["cases"].append(c)
        objs.append(g)
    return objs


# ---------------------------------------------------------------------------------------------
def run(ctx):
    ctx.trusted += [
        "Coq 8.16.1 kernel, vm_compute (no native_compute)",
        "harness/c10.py + c10_search.py: grid/ray generators, Q literal printer, comparator in Model/C10_Check.v "
        "(tolerances amb_eps 2^-40, rel_tol 2^-36, len_tol 2^-30)",
        "IEEE double rounding, libm sqrt/atan2/fmod, raysect Point3D.transform / Vector3D.length / AffineMatrix3D, "
        "ray-primitive intersection of Box / Cylinder / Subtract (their hit points are inputs of the model)",
        "the value |end-start| enters the model as the implementation's own double (checked: len^2 within 2^-30 of the exact square)",
        "axioms of the standard library's real numbers under the three sqrt(3) theorems (C10_sign_q3_is_sign_of_real, "
        "C10_model_sector_tests_are_convex, C10_cyl_sector_cell_met_in_at_most_two_intervals): ClassicalDedekindReals.sig_forall_dec, "
        "ClassicalDedekindReals.sig_not_dec, FunctionalExtensionality.functional_extensionality_dep; every other theorem is closed "
        "under the global context",
        "not formalised: gsector = j exactly on the wedge between borders j and j+1 (nphi > 1); rational brackets arbitrarily close "
        "to the square-root end points of ring cells",
    ]
    ctx.assumptions += [
        "the ray stays inside the grid (RayTransferBox / RayTransferCylinder shrink the bounding primitive by 1e-5 cell); "
        "outside it the implementation raises IndexError (modelled and compared) or, for coordinates in (-cell, 0), "
        "truncates towards zero (modelled and compared)",
        "'integration step' in the property text is dt = length / n, the quantity the code itself calls the integration step; "
        "dt < 2 * step is a theorem",
        "angular sector decision of the model is exact (no atan2) and covers sector sizes that are multiples of 30 or 45 "
        "degrees; other sector sizes are exercised only by the search on the implementation",
    ]
    ctx.rebuild()
    ctx.proofs("Properties.C10", THEOREMS, extra_modules=("Model.C10_Check",))

    import cherab
    from common import REPO
    assert list(cherab.__path__) == [REPO + "/cherab"], cherab.__path__
    impl = Impl()
    rng = ctx.rng
    quick = ctx.quick
    nmax = 90 if quick else 250
    n_grids = 28 if quick else 240
    rays_per = 6 if quick else 16

    # ---- corpus of past disagreements first ---------------------------------------------------
    corpus_dir = os.path.join(os.path.dirname(os.path.dirname(os.path.abspath(__file__))), "corpus", "C10")
    grids = []
    if os.path.isdir(corpus_dir):
        import json
        for f in sorted(os.listdir(corpus_dir)):
            if f.endswith(".json"):
                g = json.load(open(os.path.join(corpus_dir, f)))
                mat = impl.material(g, vm=g["vm"])
                for c in g["cases"]:
                    c["out"], c["err"] = impl.call(g["kind"], mat, c["step"], c["min_samples"], c["m12"], c["p0"], c["p1"], c["init"])
                    c["length"] = impl.length(c["m12"], c["p0"], c["p1"])
                    c["start_local"], c["end_local"] = list(impl.local(c["m12"], c["p0"])), list(impl.local(c["m12"], c["p1"]))
                g["corpus"] = f
                grids.append(g)
    n_corpus = len(grids)

    # ---- direct calls of the cpdef integrators --------------------------------------------------
    mask_checks, emission_lines, pre_fails, arg_forms, live_stats = [], [], [], {}, {}
    rejected = 0
    def one_grid(gi):
        nonlocal rejected
        kind = "cart" if gi % 2 == 0 else "cyl"
        exact = rng.random() < 0.6
        g = gen_grid(rng, kind, exact, not quick)
        ncells = g["shape"][0] * g["shape"][1] * g["shape"][2]
        mk, vm, mask = gen_map(rng, ncells)
        # the mask / voxel map is handed over in an arbitrary accepted dtype / memory layout (half of the grids)
        form = "canonical"
        vm_arg, mask_arg = vm, mask
        if rng.random() < 0.5:
            if vm is not None:
                vm_arg, form = variant_form(rng, np.array(vm).reshape(g["shape"]), "voxel_map")
            elif mask is not None:
                mask_arg, form = variant_form(rng, np.array(mask, dtype=bool).reshape(g["shape"]), "mask")
        np_args = rng.random() < 0.3
        arg_forms[form + ("+numpy-scalars" if np_args else "")] = arg_forms.get(form + ("+numpy-scalars" if np_args else ""), 0) + 1
        try:
            mat = impl.material(g, vm=vm_arg, mask=mask_arg, np_args=np_args)
        except ValueError as exc:
            pre_fails.append({"claim": "a valid mask / voxel map is accepted in any dtype and memory layout (%s)" % form,
                              "grid": {k: g[k] for k in ("kind", "shape")}, "voxel_map": vm, "mask": mask, "error": "ValueError: %s" % exc})
            mat = impl.material(g, vm=vm, mask=mask)
        g["vm"] = [int(v) for v in np.asarray(mat.voxel_map).ravel()]
        g["map_kind"], g["exact"], g["bins"] = mk, exact, int(mat.bins)
        if vm is not None and g["vm"] != [int(v) for v in vm]:
            pre_fails.append({"claim": "the emitter holds the voxel map it was given (dtype / layout: %s)" % form, "given": vm, "held": g["vm"]})
        if mask is not None:
            mask_checks.append("b2z (check_mask [%s] %s %s)" % ("; ".join("true" if b else "false" for b in mask),
                                                                  zlist(g["vm"]), zlit(mat.bins)))
            if not np.array_equal(np.asarray(mat.mask).ravel(), np.array(mask, dtype=bool)):
                ctx.violation("c10:mask-getter", "material.mask differs from the mask it was given", {"grid": g, "mask": mask})
        else:
            mask_checks.append("b2z (check_bins %s %s)" % (zlist(g["vm"]), zlit(mat.bins)))
        g["cases"] = []
        tries = 0
        while len(g["cases"]) < rays_per and tries < 4 * rays_per:
            tries += 1
            c = make_case(rng, impl, g, mat, nmax, exact)
            if c is None:
                rejected += 1
                continue
            g["cases"].append(c)
        if gi % 2 == 0 or not quick:
            g["cases"] += boundary_cases(rng, impl, g, mat, nmax, exact)
        emission_lines.extend(emission_cases(rng, impl, g, mat, exact))
        grids.append(g)
    for gi in range(n_grids):
        S.guard(pre_fails, "direct integrate() calls on one grid", {"grid_index": gi, "seed": ctx.seed}, one_grid, gi)
    # ---- histories on one live emitter + integrator (+ re-used spectrum) ------------------------------
    for li in range(8 if quick else 80):
        g0 = gen_grid(rng, "cart" if li % 2 == 0 else "cyl", rng.random() < 0.7, False)
        ent = S.guard(pre_fails, "history on one live emitter / integrator", {k: v for k, v in g0.items()},
                      live_history, rng, impl, g0, nmax, g0["scale"] != 1.0 or rng.random() < 0.7, mask_checks, pre_fails, live_stats)
        grids += ent or []
    # ---- calls made by the ray tracer through RayTransferBox / RayTransferCylinder ------------------
    traced = S.guard(pre_fails, "rays traced through RayTransferBox / RayTransferCylinder", {"seed": ctx.seed}, traced_cases, rng, impl, 8 if quick else 60, 6 if quick else 12, nmax) or []
    grids += traced

    # ---- angular formula of the code against the exact sector decision ----------------------------
    phi_cases = []
    for _ in range(100 if quick else 2000):
        dphi, nphi = rng.choice([t for t in PHI_TABLE if t[1] > 1])
        k = rng.random()
        if k < 0.7:
            x, y = dyadic(rng, -4, 4, 8), dyadic(rng, -4, 4, 8)
        elif k < 0.85:
            x, y = rng.uniform(-4, 4), rng.uniform(-4, 4)
        else:
            v = dyadic(rng, 0.1, 4, 6)
            x, y = rng.choice([(v, 0.0), (-v, 0.0), (0.0, v), (0.0, -v), (v, v), (-v, v), (v, -v), (-v, -v)])
        phi = (180. / math.pi) * math.atan2(y, x)
        phi_cases.append("b2z (check_phi {| cg_rmin := 0; cg_dr := 1; cg_dz := 1; cg_nphi := %s; cg_dphi := %s; cg_nr := 1 |} %s %s %s)"
                         % (zlit(nphi), zlit(dphi), qlit(x), qlit(y), qlit(phi)))

    ctx.log('generated %d grids' % len(grids))
    # ---- the model's exact Cartesian chord (slab) against the harness's exact cut of the segment ----------
    chord_cases = []
    for g in grids:
        if g["kind"] != "cart":
            continue
        for c in g["cases"]:
            if c["short"] or c["err"] or c["class"] in ("below-zero", "leaves-grid") or len(chord_cases) >= (120 if quick else 1500):
                continue
            seq = S.chords_cart(g, c["start_local"], c["end_local"])
            tot = {}
            for cell, fr in seq:
                tot[cell] = tot.get(cell, 0) + fr
            cells = list(tot)[:2] + [tuple(rng.randrange(g["shape"][a]) for a in range(3))]
            for cell in cells:
                chord_cases.append("b2z (check_chord %s %s %s %s (%s, %s, %s) %s)" % (
                    vlit(g["steps"]), vlit(c["start_local"]), vlit(c["end_local"]), qlit(c["length"]),
                    zlit(cell[0]), zlit(cell[1]), zlit(cell[2]), qlit(Fraction(tot.get(cell, 0)))))
    # ---- write the case files and run the model inside Coq ---------------------------------------
    per_file = 25 if quick else 60
    files = []
    cur_defs, cur_cases, cur_ids = [], [], []
    flat = []         # (grid index, case index)
    for gi, g in enumerate(grids):
        if not g["cases"]:
            continue
        name = "vm%d" % gi
        cur_defs.append("Definition %s : list Z := %s." % (name, zlist(g["vm"])))
        for ci, c in enumerate(g["cases"]):
            if not c.get("coq_skip"):      # decided by rounding: search only
                cur_cases.append(case_coq(g, name, c))
                cur_ids.append(len(flat))
            flat.append((gi, ci))
        if len(cur_cases) >= per_file:
            files.append((cur_defs, cur_cases, cur_ids))
            cur_defs, cur_cases, cur_ids = [], [], []
    if cur_cases:
        files.append((cur_defs, cur_cases, cur_ids))
    paths = []
    for fi, (defs, cs, ids) in enumerate(files):
        txt = (HEADER + "\n".join(defs) + "\nDefinition results : list Z := [\n  " + ";\n  ".join(cs)
               + "].\nEval vm_compute in results.\n")
        paths.append((ctx.write_gen("cases_%03d.v" % fi, txt), ids))
    # ---- pipelines.py: histories of observations on the same pipeline object, driven through its own methods ----
    pipe_hist = []
    for i in range(24 if quick else 300):
        dim = i % 3
        hist = S.gen_pipeline_history(rng, dim)
        pipe_hist.append((dim, hist, S.drive_pipeline_api(dim, hist)))
    pipe_cases = [pipe_case_coq(dim, hist, outs) for dim, hist, outs in pipe_hist]
    # ---- emitters: state-machine histories and argument validation (model: Model/C10_Emitter.v) ----
    em_lines, em_dist = S.guard(pre_fails, "emitter assignment histories", {"seed": ctx.seed}, E.emitter_histories, rng, impl,
                                16 if quick else 240, lambda r, k, e, b: gen_grid(r, k, e, False, 0), variant_form, pre_fails) or ([], {})
    val_lines = E.validation_cases(rng, impl, 30 if quick else 400, pre_fails)
    offp_stats = {"rays": 0, "cells_compared": 0, "periodic": 0, "merged": 0, "traced_rays": 0}
    offp_lines = E.offperiod_cases(rng, impl, 20 if quick else 300, S, pre_fails, offp_stats)
    aux_all = mask_checks + phi_cases + chord_cases + pipe_cases + emission_lines + em_lines + val_lines + offp_lines
    # ---- translator: the numeric constants of the model regenerated from the current source + tie lemma ----
    try:
        consts_path = ctx.write_gen("Consts.v", E.translate_constants())
    except ValueError as exc:
        consts_path = None
        ctx.obligation("Gen tie Consts.v (constants of the model = constants of emitters.pyx)", "tie", False, str(exc))
    aux_paths = []
    for ai in range(0, len(aux_all), 400):
        aux_paths.append(ctx.write_gen("maps_phi_%03d.v" % (ai // 400), HEADER + "Definition results : list Z := [\n  "
                                       + ";\n  ".join(aux_all[ai:ai + 400]) + "].\nEval vm_compute in results.\n"))
    import time as _t
    _t0 = _t.time()
    res = coqc_many([p for p, _ in paths] + aux_paths + ([consts_path] if consts_path else []), timeout=1500)
    for p_ in list(res):
        if not res[p_][0] and not res[p_][1].strip():
            # killed without output (memory pressure when many checks run at once): once more, alone
            res[p_] = common.coqc(p_, timeout=1500)
    ctx.log('coqc on %d files: %.1fs' % (len(paths) + len(aux_paths), _t.time() - _t0))
    if consts_path:
        ok_c, out_c = res[consts_path]
        ctx.obligation("Gen tie Consts.v (constants of the model = constants of emitters.pyx: 0.1, 0.5, 360, 180, 1e-3, guards)", "tie", ok_c, out_c[-800:])
    codes = {}
    diff = []
    for p, ids in paths:
        ok, out = res[p]
        vals = parse_evals(out) if ok else []
        good = ok and len(vals) == 1
        zs = parse_zlist(vals[0]) if good else []
        good = good and len(zs) == len(ids)
        bad = [ids[i] for i, z in enumerate(zs) if z == 0] if good else []
        ctx.obligation("correspondence %s (%d calls)" % (os.path.basename(p), len(ids)), "correspondence",
                       good and not bad, out[-1500:] if not good else "DISAGREE at case ids %s" % bad)
        if not good:
            ctx.broken.append("coqc failed on %s: %s" % (p, out[-500:]))
        for i, z in enumerate(zs if good else []):
            codes[ids[i]] = z
        diff += bad
    zs, good, out = [], True, ""
    for ap in aux_paths:
        ok, o = res[ap]
        vals = parse_evals(o) if ok else []
        if ok and len(vals) == 1:
            zs += parse_zlist(vals[0])
        else:
            good, out = False, o
            ctx.broken.append("coqc failed on %s: %s" % (ap, o[-500:]))
    good = good and len(zs) == len(aux_all)
    bad_aux = [i for i, z in enumerate(zs) if z == 0]
    ctx.obligation("correspondence maps_phi_*.v (%d mask/voxel-map setters, %d angular-formula points, %d exact Cartesian chords, "
                   "%d pipeline histories, %d emission_function points, %d emitter histories, %d validation cases, "
                   "%d emission points on grids with period on either side of 360/k)"
                   % (len(mask_checks), len(phi_cases), len(chord_cases), len(pipe_cases), len(emission_lines), len(em_lines), len(val_lines),
                      len(offp_lines)),
                   "correspondence", good and not bad_aux,
                   out[-1500:] if not good else "DISAGREE at %s" % bad_aux)
    n_calls = len(flat)
    ctx.log("correspondence: %d calls in %d files (%d traced), %d disagree; %d map / %d phi checks, %d disagree"
            % (n_calls, len(paths), sum(len(g["cases"]) for g in traced), len(diff), len(mask_checks), len(phi_cases), len(bad_aux)))

    # ---- failing-input search: the property itself on the implementation ---------------------------
    fails = list(pre_fails)
    stats = {"rays": 0, "cells_compared": 0, "periodic": 0, "merged": 0, "traced_rays": 0}
    stats.update(live_stats)
    stats["argument_forms"] = arg_forms
    stats["emitter_history_ops"] = em_dist
    stats["period_classes(360/k: exact | user +-1e-4..9e-4 | n_polar*dphi rounding above / below)"] = offp_stats.get("period_classes", {})
    stats["off_period_rays"] = offp_stats.get("off_period_rays", 0)
    for kk in ("rays", "cells_compared", "merged"):
        stats[kk] += offp_stats.get(kk, 0)
    order = sorted(range(n_calls), key=lambda i: (0 if i in set(diff) else 1, i))
    budget = len(order) if quick else min(len(order), 4000)
    for i in order[:budget]:
        gi, ci = flat[i]
        g, c = grids[gi], grids[gi]["cases"][ci]
        if c["short"] or c["err"]:
            continue
        r_ = S.guard(fails, "executable property on one integrate() call",
                     {"grid": {k: v for k, v in g.items() if k not in ("cases", "traces") and not k.startswith("_")},
                      "call": {k: c[k] for k in ("class", "step", "min_samples", "m12", "p0", "p1")}}, S.search_call, impl, g, c, rng, stats)
        fails += r_ or []
        if len(fails) > 20:
            break
    for g in traced:
        fails += S.search_traced(impl, g, stats)
        for te in g.get("trace_errors", []):
            fails.append({"claim": "a ray crossing a ray-transfer box or cylinder is integrated without error (it stays inside the grid)",
                          "grid": {k: v for k, v in g.items() if k not in ("cases", "traces", "_mat_id", "_mat_vm", "trace_errors")},
                          "trace": te})
    # angular periods / sector sizes outside the model's table (search only)
    fails += S.guard(fails, "search_other_periods", {"seed": ctx.seed}, S.search_other_periods, impl, rng, 20 if quick else 200, stats) or []
    # pipelines.py: matrix of a sight line = entries of its (single) ray
    fails += S.guard(fails, "search_second_order", {"seed": ctx.seed}, S.search_second_order, impl, rng, 6 if quick else 40, stats, lambda r, k, e, b: gen_grid(r, k, e, b, 8)) or []
    fails += S.guard(fails, "search_pipeline_api", {"seed": ctx.seed}, S.search_pipeline_api, pipe_hist, stats) or []
    fails += S.guard(fails, "search_pipeline_histories", {"seed": ctx.seed}, S.search_pipeline_histories, impl, rng, 6 if quick else 40, stats, lambda r, k, e, b: gen_grid(r, k, e, b, 8)) or []
    for i in bad_aux:
        if len(mask_checks) + len(phi_cases) <= i < len(mask_checks) + len(phi_cases) + len(chord_cases):
            ctx.broken.append("model chord_cart differs from the harness's exact cut: " + chord_cases[i - len(mask_checks) - len(phi_cases)][:400])
        if i < len(mask_checks):
            fails.append({"claim": "mask / voxel_map setter: voxel_map = running index of the active cells (C order), "
                                   "-1 elsewhere, bins = max + 1", "check": mask_checks[i][:300]})
    unknown_fails = [f for f in fails if (f.get("key") or "c10:" + f["claim"][:60]) not in ctx.known]
    ctx.obligation("executable property on the implementation (%d rays, %d cell entries, %d periodic, %d merged, %d traced, %d pipeline)"
                   % (stats["rays"], stats["cells_compared"], stats["periodic"], stats["merged"], stats["traced_rays"],
                      stats.get("pipeline_observations", 0) + stats.get("pipeline_api_observations", 0)),
                   "search", not unknown_fails, str(unknown_fails[:2])[:1500])
    seen = set()
    for f in fails:
        key = f.get("key") or "c10:" + f["claim"][:60]
        if key in seen:
            continue
        seen.add(key)
        ctx.violation(key, f["claim"], f, found=True)
    if (diff or bad_aux) and not unknown_fails:
        for i in diff[:3]:
            gi, ci = flat[i]
            g = {k: v for k, v in grids[gi].items() if k not in ("cases", "traces")}
            ctx.violation("c10-diff:%s:%s" % (g["kind"], grids[gi]["cases"][ci]["class"]),
                          "model spectrum and implementation spectrum differ for a %s call (%s); the executable property "
                          "found no failing input" % (g["kind"], grids[gi]["cases"][ci]["class"]),
                          {"grid": g, "case": grids[gi]["cases"][ci], "correspondence": "coq/Gen/C10/cases_*.v"}, found=False)
        if bad_aux and not diff:
            ctx.violation("c10-diff:aux", "a mask / angular-formula / pipeline-history correspondence case no longer agrees with the model",
                          {"cases": [aux_all[i][:600] for i in bad_aux[:3]]}, found=False)

    # ---- coverage ----------------------------------------------------------------------------------
    dist = {"class": {}, "kind": {}, "map_kind": {}, "transform": {}, "err": {}, "n_samples": {}}
    for gi, ci in flat:
        g, c = grids[gi], grids[gi]["cases"][ci]
        for k, v in (("class", c["class"]), ("kind", g["kind"]), ("map_kind", g["map_kind"]), ("transform", c["transform"]),
                     ("err", "IndexError" if c["err"] else ("too-short" if c["short"] else "ok")),
                     ("n_samples", "<=2" if c["n"] <= 2 else "<=20" if c["n"] <= 20 else "<=100" if c["n"] <= 100 else ">100")):
            dist[k][v] = dist[k].get(v, 0) + 1
    code_names = {0: "disagree", 1: "agree_up_to_rounding", 2: "agree_within_dt_x_ambiguous_samples", 3: "leaves_grid_ambiguous_not_compared"}
    dist["comparison"] = {}
    for i, z in codes.items():
        dist["comparison"][code_names.get(z, str(z))] = dist["comparison"].get(code_names.get(z, str(z)), 0) + 1
    dist["phi_tables_used"] = sorted({"%dx%d" % (g["dphi"], g["nphi"]) for g in grids if g["kind"] == "cyl"})
    dist["rejected_rounding_decides_n"] = rejected
    dist["corpus_grids"] = n_corpus
    dist["search"] = stats
    nontrivial = sum(1 for i, (gi, ci) in enumerate(flat)
                     if codes.get(i) == 1 and not grids[gi]["cases"][ci]["short"] and not grids[gi]["cases"][ci]["err"]
                     and sum(1 for a, b in zip(grids[gi]["cases"][ci]["init"], grids[gi]["cases"][ci]["out"]) if a != b) >= 2)
    ctx.coverage.update({
        "evaluations": n_calls + len(aux_all),
        "distinct_nontrivial": nontrivial,
        "rule": "one case = one call of integrate(); non-trivial = compared up to rounding only (no ambiguous sample), "
                "returned normally and changed at least two spectral bins",
        "distribution": dist,
        "tolerance": {"per_bin": "dt * (#samples within 2^-40 of a cell border) + (n + 4) * 2^-51 * (length + |entry|)  [n = number of samples; "
                                 "rounding of dt and of n + #flushes additions]",
                      "exact": "IndexError / too-short, voxel_map, bins, reported mask and error kind after every emitter assignment, "
                               "argument-validation error kinds, emission_function increments, model chord vs harness cut (Fractions)",
                      "pipelines": "every matrix entry of every observation: relative 2^-40",
                      "constants": "0.1 (too-short factor), 0.5, 360, 180, 1e-3, min_samples guard: regenerated from emitters.pyx, tie lemma by reflexivity",
                      "length_oracle": "len^2 within 2^-30 relative of the exact |end-start|^2",
                      "discrete": "IndexError / too-short / voxel_map / bins compared exactly",
                      "search": "entries against exact chord lengths: 2 dt + 1e-9 per cell (Cartesian chords exact in Fractions, "
                                "cylindrical in double); sums, merged maps and periodic images: 1e-9 relative"},
        "partial": ["cylindrical per-cell bound: theorem for a cell meeting the line in k intervals (error <= k dt); that an "
                    "annular-sector cell meets a line in at most two intervals is a geometric hypothesis, not proved",
                    "the model decides angular sectors exactly only for sector sizes that are multiples of 30 or 45 degrees",
                    "sqrt/atan2 are not modelled: the length enters as a checked oracle value, the angle through the exact sector test"],
    })
    samples = []
    for gi, ci in flat[:1] + flat[-1:]:
        g = {k: v for k, v in grids[gi].items() if k not in ("cases", "traces")}
        samples.append({"grid": g, "case": grids[gi]["cases"][ci]})
    ctx.coverage["samples"] = samples
    ctx.grep_gate()
