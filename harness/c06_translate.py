"""C06 translator: regenerates from the current source of cherab/openadas the tables the Coq model of the
repository was written against, so that they are compared with the model by the kernel on every run
(coq/Gen/C06/Source.v + Tie.v).  Fail-closed: anything unexpected (a function with two path templates,
a new function that formats a '.json' path, an argument form that is not understood) raises TranslateError.

Extracted (with Python's ast, nothing is executed):
  paths   : for every function of the eight repository modules that formats a '<...>.json' path: the template
            with explicitly numbered fields and the role of every argument
            ('lsym' = <arg>.symbol.lower(), 'sym' = <arg>.symbol, 'num' = a bare name, 'cls' = the PEC class)
  routes  : who delegates to whom and whether repository_path is handed on:
            add_* -> update_* (and update_beam_stopping/population_rates -> add_*), get_pec_*_rate -> _get_pec_rate,
            install_adf* -> repository.update_* (with the ADF11 file type), install_files -> install_adf*,
            populate -> install_files / update_wavelengths
  consts  : DEFAULT_REPOSITORY_PATH, the format and the case folding of encode_transition, valid_classes,
            the comparison of valid_charge, the metastable guards, the ADF11 file types with the ADAS charge shift
"""
import ast
import os

REPO_MODULES = ["repository/atomic.py", "repository/pec.py", "repository/radiated_power.py", "repository/wavelength.py",
                "repository/beam/cx.py", "repository/beam/stopping.py", "repository/beam/population.py",
                "repository/beam/emission.py"]


class TranslateError(Exception):
    pass


def _src(base, rel):
    p = os.path.join(base, "cherab", "openadas", rel)
    return ast.parse(open(p).read(), p)


def _funcs(tree):
    return [n for n in tree.body if isinstance(n, ast.FunctionDef)]


def _number_fields(t):
    """'a/{}/{}.json' -> 'a/{0}/{1}.json' ; explicit numbers are kept"""
    out, i, k = "", 0, 0
    while i < len(t):
        if t[i] == "{":
            j = t.index("}", i)
            inner = t[i + 1:j]
            if inner == "":
                out += "{%d}" % k
                k += 1
            elif inner.isdigit():
                out += "{%s}" % inner
            else:
                raise TranslateError("format field not understood: %r" % t)
            i = j + 1
        else:
            out += t[i]
            i += 1
    return out


def _role(a, fname):
    if isinstance(a, ast.Name):
        return "cls" if a.id == "cls" else "num"
    if isinstance(a, ast.Attribute) and a.attr == "symbol" and isinstance(a.value, ast.Name):
        return "sym"
    if (isinstance(a, ast.Call) and not a.args and isinstance(a.func, ast.Attribute) and a.func.attr == "lower"
            and isinstance(a.func.value, ast.Attribute) and a.func.value.attr == "symbol"):
        return "lsym"
    raise TranslateError("%s: path argument not understood: %s" % (fname, ast.dump(a)))


def _passes_root(call):
    for a in call.args:
        if isinstance(a, ast.Name) and a.id == "repository_path":
            return True
    for k in call.keywords:
        if k.arg == "repository_path" and isinstance(k.value, ast.Name) and k.value.id == "repository_path":
            return True
    return False


def _callee(call):
    f = call.func
    if isinstance(f, ast.Name):
        return f.id
    if isinstance(f, ast.Attribute) and isinstance(f.value, ast.Name) and f.value.id == "repository":
        return f.attr
    return None


def extract(base):
    paths, routes, consts = [], [], {}
    # ---- repository modules ----------------------------------------------------------------------------------
    for rel in REPO_MODULES:
        tree = _src(base, rel)
        for fn in _funcs(tree):
            tmpl = []
            for n in ast.walk(fn):
                if (isinstance(n, ast.Call) and isinstance(n.func, ast.Attribute) and n.func.attr == "format"
                        and isinstance(n.func.value, ast.Constant) and isinstance(n.func.value.value, str)
                        and n.func.value.value.endswith(".json")):
                    tmpl.append((_number_fields(n.func.value.value), [_role(a, fn.name) for a in n.args]))
            if len(tmpl) > 1:
                raise TranslateError("%s formats %d paths" % (fn.name, len(tmpl)))
            if tmpl:
                paths.append((fn.name, tmpl[0][0], tmpl[0][1]))
            # delegation
            for n in ast.walk(fn):
                if isinstance(n, ast.Call):
                    c = _callee(n)
                    if c and c != fn.name and c.startswith(("update_", "add_", "_get_", "_update_and_write")):
                        if c.startswith("_update_and_write"):
                            continue          # private writer of the same module: takes the finished path
                        tag = "root" if _passes_root(n) else "noroot"
                        if c == "_get_pec_rate":
                            if not (n.args and isinstance(n.args[0], ast.Constant)):
                                raise TranslateError("%s: class argument of _get_pec_rate not a constant" % fn.name)
                            tag += ":" + n.args[0].value
                        if c == "update_pec_rates" and fn.name.startswith("add_"):
                            d = n.args[0]
                            if not (isinstance(d, ast.Dict) and len(d.keys) == 1 and isinstance(d.keys[0], ast.Constant)):
                                raise TranslateError("%s: class key not a constant" % fn.name)
                            tag += ":" + d.keys[0].value
                        routes.append((fn.name, c, tag))
            # guards
            if fn.name in ("update_beam_cx_rates", "add_beam_population_rate"):
                for n in ast.walk(fn):
                    if isinstance(n, ast.Compare) and any(isinstance(x, ast.Name) and "metastable" in x.id for x in [n.left]):
                        neg = False
                        consts[fn.name + ".metastable"] = "%s %s %s" % (n.left.id.split("_")[-1], type(n.ops[0]).__name__,
                                                                         ast.literal_eval(n.comparators[0]))
            if fn.name == "update_pec_rates":
                for n in ast.walk(fn):
                    if isinstance(n, ast.Assign) and isinstance(n.targets[0], ast.Name) and n.targets[0].id == "valid_classes":
                        consts["valid_classes"] = ",".join(ast.literal_eval(n.value))
    # every 'not metastable >= 0' is wrapped in a Not: record it
    tree = _src(base, "repository/beam/cx.py")
    for n in ast.walk(tree):
        if isinstance(n, ast.UnaryOp) and isinstance(n.op, ast.Not) and isinstance(n.operand, ast.Compare) \
                and isinstance(n.operand.left, ast.Name) and n.operand.left.id == "metastable":
            consts["update_beam_cx_rates.metastable"] = "not " + consts["update_beam_cx_rates.metastable"]
    # ---- utility.py -------------------------------------------------------------------------------------------
    tree = _src(base, "repository/utility.py")
    for n in tree.body:
        if isinstance(n, ast.Assign) and isinstance(n.targets[0], ast.Name) and n.targets[0].id == "DEFAULT_REPOSITORY_PATH":
            v = n.value
            if not (isinstance(v, ast.Call) and isinstance(v.func, ast.Attribute) and v.func.attr == "expanduser"
                    and isinstance(v.args[0], ast.Constant)):
                raise TranslateError("DEFAULT_REPOSITORY_PATH not expanduser(<constant>)")
            consts["DEFAULT_REPOSITORY_PATH"] = v.args[0].value
    for fn in _funcs(tree):
        if fn.name == "encode_transition":
            lowers = sum(1 for n in ast.walk(fn) if isinstance(n, ast.Call) and isinstance(n.func, ast.Attribute)
                         and n.func.attr == "lower" and isinstance(n.func.value, ast.Call)
                         and isinstance(n.func.value.func, ast.Name) and n.func.value.func.id == "str")
            fmts = [n.func.value.value for n in ast.walk(fn) if isinstance(n, ast.Call) and isinstance(n.func, ast.Attribute)
                    and n.func.attr == "format" and isinstance(n.func.value, ast.Constant)]
            ret = [n for n in ast.walk(fn) if isinstance(n, ast.Return)]
            args = [a.id for a in ret[0].value.args] if ret and isinstance(ret[0].value, ast.Call) else []
            if len(fmts) != 1:
                raise TranslateError("encode_transition: format not found")
            consts["encode_transition"] = "%s|str().lower() x%d|%s" % (_number_fields(fmts[0]), lowers, ",".join(args))
        if fn.name == "valid_charge":
            ret = [n for n in ast.walk(fn) if isinstance(n, ast.Return)][0].value
            if not (isinstance(ret, ast.Compare) and isinstance(ret.left, ast.Name) and isinstance(ret.comparators[0], ast.Attribute)):
                raise TranslateError("valid_charge: not a single comparison")
            consts["valid_charge"] = "%s %s %s" % (ret.left.id, type(ret.ops[0]).__name__, ret.comparators[0].attr)
    # ---- install.py -------------------------------------------------------------------------------------------
    tree = _src(base, "install.py")
    for fn in _funcs(tree):
        if fn.name.startswith("install_adf"):
            ft = ""
            for n in ast.walk(fn):
                if isinstance(n, ast.Call) and isinstance(n.func, ast.Name) and n.func.id == "_notation_adf11_adas2cherab":
                    ft = ":" + n.args[1].value
            calls = [n for n in ast.walk(fn) if isinstance(n, ast.Call) and _callee(n) and _callee(n).startswith("update_")]
            calls.sort(key=lambda n: (n.lineno, n.col_offset))
            if not calls:
                raise TranslateError("%s calls no repository.update_*" % fn.name)
            for i, n in enumerate(calls):
                routes.append((fn.name, _callee(n), ("root" if _passes_root(n) else "noroot") + ft + "#%d" % (i + 1)))
        if fn.name == "install_files":
            for n in ast.walk(fn):
                if isinstance(n, ast.If) and isinstance(n.test, ast.Compare) and isinstance(n.test.comparators[0], ast.Constant):
                    key = n.test.comparators[0].value
                    inner = [c for c in ast.walk(n) if isinstance(c, ast.Call) and isinstance(c.func, ast.Name)
                             and c.func.id.startswith("install_")]
                    if len(inner) != 1:
                        raise TranslateError("install_files: branch %r" % key)
                    routes.append(("install_files[%s]" % key, inner[0].func.id, "root" if _passes_root(inner[0]) else "noroot"))
        if fn.name == "_notation_adf11_adas2cherab":
            lists = [ast.literal_eval(n.comparators[0]) for n in ast.walk(fn) if isinstance(n, ast.Compare)
                     and isinstance(n.ops[0], ast.In) and isinstance(n.comparators[0], ast.List)]
            shifts = [ast.literal_eval(n.args[0]) for n in ast.walk(fn) if isinstance(n, ast.Call)
                      and isinstance(n.func, ast.Name) and n.func.id == "int"]
            if len(lists) != 1 or sorted(shifts) != [-1, 0]:
                raise TranslateError("_notation_adf11_adas2cherab: charge correction not understood")
            consts["adf11_shifted_types"] = ",".join(lists[0])
        if fn.name == "_thermalcx_adf15_2dto3d_converter":
            tgt = [n for n in ast.walk(fn) if isinstance(n, ast.Assign) and isinstance(n.targets[0], ast.Subscript)
                   and isinstance(n.value, ast.Name) and n.value.id == "new_rate"]
            if len(tgt) != 1:
                raise TranslateError("_thermalcx_adf15_2dto3d_converter: target not found")
            consts["adf15_thermalcx_target"] = ast.unparse(tgt[0].targets[0])
    # ---- create.py --------------------------------------------------------------------------------------------
    tree = _src(base, "repository/create.py")
    for fn in _funcs(tree):
        if fn.name == "populate":
            for n in ast.walk(fn):
                if isinstance(n, ast.Call):
                    c = n.func.id if isinstance(n.func, ast.Name) else _callee(n)
                    if c in ("install_files", "update_wavelengths"):
                        routes.append(("populate", c, "root" if _passes_root(n) else "noroot"))
    known = {p[0] for p in paths}
    return sorted(paths), sorted(routes), dict(sorted(consts.items())), known


def coq_string(s):
    return '"' + s.replace('"', '""') + '"'


def to_coq(paths, routes, consts):
    out = ["(* generated by harness/c06_translate.py from the current source of cherab/openadas: do not edit *)",
           "From Coq Require Import List String.", "Import ListNotations.", "Open Scope string_scope.",
           "Definition src_paths : list (string * string * list string) := ["]
    out.append(";\n".join("  (%s, %s, [%s])" % (coq_string(f), coq_string(t), "; ".join(coq_string(r) for r in rs))
                          for f, t, rs in paths) + "].")
    out.append("Definition src_routes : list (string * string * string) := [")
    out.append(";\n".join("  (%s, %s, %s)" % tuple(coq_string(x) for x in r) for r in routes) + "].")
    out.append("Definition src_shifted_types : list string := [%s]." % "; ".join(coq_string(x) for x in consts.pop("adf11_shifted_types").split(",")))
    out.append("Definition src_consts : list (string * string) := [")
    out.append(";\n".join("  (%s, %s)" % (coq_string(k), coq_string(v)) for k, v in consts.items()) + "].")
    return "\n".join(out) + "\n"


if __name__ == "__main__":
    import sys
    p, r, c, _ = extract(sys.argv[1] if len(sys.argv) > 1 else "/repo")
    print(to_coq(p, r, c))
