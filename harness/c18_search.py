"""C18 failing-input search: the executable statement of the property evaluated on the real
implementation (never on the model).

  * cross-section integral of get_energy_density = E / (c tau) at several z (trapezoid rule on a
    +-9 sigma grid: for a Gaussian integrand the rule converges geometrically, error << 1e-12);
    volume integral of the TrivariateGaussian = E; UniformEnergyDensity returns its parameter;
  * the cylinders of generate_geometry() / of the Laser node tile [0, L) exactly once;
  * per-bin power = integral of spectrum(x) over the bin (composite Gauss-Legendre), sum = 1 when
    the range spans the line, centres, accessors;
  * an object after a setter history equals (bitwise) a fresh object built from its reported
    parameters: energy density, polarisation, pointing, geometry, binned spectrum, accessors.

Each failure is a dict with a stable 'key', a 'claim' and everything needed to replay it.
"""
import math

import numpy as np


ATTR = {"Fed": "energy_density", "Fpe": "pulse_energy", "Fpl": "pulse_length", "Fsx": "stddev_x", "Fsy": "stddev_y",
        "Fmz": "mean_z", "Fwz": "waist_z", "Fsw": "stddev_waist", "Fwl": "laser_wavelength",
        "Frad": "laser_radius", "Flen": "laser_length"}
KIND_FIELDS = {"KUniform": ["Fed", "Frad", "Flen"],
               "KBiv": ["Fpe", "Fpl", "Fsx", "Fsy", "Frad", "Flen"],
               "KTri": ["Fpe", "Fpl", "Fsx", "Fsy", "Fmz", "Frad", "Flen"],
               "KBeam": ["Fpe", "Fpl", "Fwz", "Fsw", "Fwl", "Frad", "Flen"]}
CLASSNAME = {"KUniform": "UniformEnergyDensity", "KBiv": "ConstantBivariateGaussian", "KTri": "TrivariateGaussian",
             "KBeam": "GaussianBeamAxisymmetric"}
POSITIVE = {"KUniform": ["Fed", "Frad", "Flen"], "KBiv": ["Fpe", "Fpl", "Fsx", "Fsy", "Frad", "Flen"],
            "KTri": ["Fpe", "Fpl", "Fsx", "Fsy", "Frad", "Flen"], "KBeam": ["Fpe", "Fpl", "Fsw", "Fwl", "Frad", "Flen"]}


def hexs(xs):
    return [float(x).hex() for x in xs]


# ---------------------------------------------------------------------------------------------
# tiling
# ---------------------------------------------------------------------------------------------
def cyl_data(cyls):
    return [(float(cy.transform[2, 3]), float(cy.height), float(cy.radius)) for cy in cyls]


def tiling_failure(segs, r, L, rng):
    """None if the (offset, height, radius) triples tile [0, L) exactly once with radius r"""
    if not segs:
        return "no segment generated"
    tol = 1e-12 * L
    if any(s[2] != r for s in segs):
        return "a segment has a radius different from laser_radius"
    if any(not s[1] > 0 for s in segs):
        return "a segment has non-positive height"
    if abs(segs[0][0]) > tol:
        return "the first segment does not start at z = 0"
    for a, b in zip(segs, segs[1:]):
        if abs(a[0] + a[1] - b[0]) > tol:
            return "gap or overlap between consecutive segments"
    if abs(segs[-1][0] + segs[-1][1] - L) > tol:
        return "the segments end at %r, not at laser_length %r" % (segs[-1][0] + segs[-1][1], L)
    if abs(sum(s[1] for s in segs) - L) > tol * max(1, len(segs)):
        return "the segment heights do not sum to laser_length"
    zs = [s[0] + 0.5 * s[1] for s in segs[:50]] + [rng.uniform(0, L) for _ in range(10)]
    for z in zs:
        if min(abs(z - s[0]) for s in segs) < 1e-9 * L or abs(z - L) < 1e-9 * L:
            continue
        n = sum(1 for s in segs if s[0] <= z < s[0] + s[1])
        if n != 1:
            return "z = %r lies in %d segments" % (z, n)
    return None


def search_tiling(Lmod, rng, n, stats):
    fails = []
    for i in range(n):
        r = rng.choice([rng.uniform(0.001, 0.3), 2.0 ** -rng.randint(1, 8)])
        cls = i % 5
        if cls == 0:
            L = r * rng.uniform(0.01, 1.999)
        elif cls == 1:
            L = 2 * r * rng.randint(1, 60)
        elif cls == 2:
            L = 2 * r * rng.randint(1, 60) * (1 + rng.choice([-1, 1]) * 2.0 ** -rng.randint(30, 52))
        elif cls == 3:
            L = r * rng.uniform(2, 6)
        else:
            L = r * rng.uniform(6, 500)
        prof = Lmod.UniformEnergyDensity(1.0, L, r)
        msg = tiling_failure(cyl_data(prof.generate_geometry()), r, L, rng)
        stats["tiling"] += 1
        if msg:
            fails.append({"key": "c18:tiling", "claim": "generate_geometry() does not tile the laser length exactly once: " + msg,
                          "laser_radius": r.hex(), "laser_length": L.hex(), "n_segments": len(prof.generate_geometry())})
            break
    return fails


# ---------------------------------------------------------------------------------------------
# profiles
# ---------------------------------------------------------------------------------------------
def build_profile(Lmod, kind, vals, pol):
    from raysect.optical import Vector3D
    p = Vector3D(*pol)
    if kind == "KUniform":
        return Lmod.UniformEnergyDensity(energy_density=vals["Fed"], laser_length=vals["Flen"], laser_radius=vals["Frad"], polarization=p)
    if kind == "KBiv":
        return Lmod.ConstantBivariateGaussian(pulse_energy=vals["Fpe"], pulse_length=vals["Fpl"], laser_radius=vals["Frad"],
                                              laser_length=vals["Flen"], stddev_x=vals["Fsx"], stddev_y=vals["Fsy"], polarization=p)
    if kind == "KTri":
        return Lmod.TrivariateGaussian(pulse_energy=vals["Fpe"], pulse_length=vals["Fpl"], mean_z=vals["Fmz"], laser_length=vals["Flen"],
                                       laser_radius=vals["Frad"], stddev_x=vals["Fsx"], stddev_y=vals["Fsy"], polarization=p)
    return Lmod.GaussianBeamAxisymmetric(pulse_energy=vals["Fpe"], pulse_length=vals["Fpl"], laser_length=vals["Flen"],
                                         laser_radius=vals["Frad"], waist_z=vals["Fwz"], stddev_waist=vals["Fsw"],
                                         laser_wavelength=vals["Fwl"], polarization=p)


def apply_ops(obj, ops, laser=None):
    from raysect.optical import Vector3D
    for op in ops:
        try:
            if op[0] == "pol":
                obj.set_polarization(Vector3D(*op[1]))
            elif op[0] == "attach":
                if laser is not None:
                    laser.laser_profile = obj
            elif op[0] == "bad":
                pass
            else:
                setattr(obj, ATTR.get(op[1], op[1]), op[2])
        except (ValueError, AttributeError, ZeroDivisionError):
            pass


def last_pol(case):
    pol = case["pol"]
    for o in case["ops"]:
        if o[0] == "pol" and any(x * x > 0 for x in o[1]):       # a zero vector (also after underflow of the squares) is rejected
            pol = o[1]
    return pol


def observe_profile(obj, laser, kind, pts):
    out = {"params": [float(getattr(obj, ATTR[f])) for f in KIND_FIELDS[kind]],
           "energy_density": [float(obj.get_energy_density(*p)) for p in pts]}
    v = obj.get_polarization(0.3, -0.2, 0.7)
    out["polarisation"] = [v.x, v.y, v.z]
    v = obj.get_pointing(0.3, -0.2, 0.7)
    out["pointing"] = [v.x, v.y, v.z]
    out["generate_geometry"] = cyl_data(obj.generate_geometry())
    out["laser_node_geometry"] = cyl_data(laser.get_geometry()) if laser is not None else None
    return out


def attach(obj):
    from raysect.optical import World
    from cherab.core.laser import Laser
    laser = Laser(parent=World())
    laser.laser_profile = obj
    return laser


def same(a, b, pol_tol=False):
    if pol_tol:     # normalising an already normalised vector may move it by an ulp
        return all(abs(x - y) <= 4e-16 for x, y in zip(a, b))
    return a == b or repr(a) == repr(b)        # repr: nan == nan, 0.0 != -0.0 is not required


def fresh_vs_mutated_profile(Lmod, case, obj, laser, c, rng):
    kind = case["kind"]
    rep = {f: float(getattr(obj, ATTR[f])) for f in KIND_FIELDS[kind]}
    if any(not rep[f] > 0 for f in POSITIVE[kind]):
        return "skip", None
    vals = dict(case["args"])
    vals.update(rep)
    pol = last_pol(case)
    fresh = build_profile(Lmod, kind, vals, pol)
    flaser = attach(fresh)
    sx = rep.get("Fsx", rep.get("Fsw", 0.01))
    sy = rep.get("Fsy", rep.get("Fsw", 0.01))
    pts = [(0.0, 0.0, 0.0), (0.5 * sx, -0.7 * sy, 0.3), (rng.uniform(-2, 2) * sx, rng.uniform(-2, 2) * sy, rng.uniform(-1, 3)),
           (0.0, 0.0, rep.get("Fmz", rep.get("Fwz", 0.5)))]
    a, b = observe_profile(obj, laser, kind, pts), observe_profile(fresh, flaser, kind, pts)
    for k in a:
        if not same(a[k], b[k], pol_tol=(k == "polarisation")):
            return k, {"points": pts, "after_history": a, "fresh": b, "fresh_polarization_argument": pol}
    return None, None


def minimise_history(Lmod, case, c, rng, observable):
    """find a single setter call that already separates the object from a fresh one"""
    for op in case["ops"]:
        c1 = dict(case, ops=[op])
        try:
            o1 = build_profile(Lmod, case["kind"], case["args"], case["pol"])
        except ValueError:
            return None
        l1 = attach(o1)
        apply_ops(o1, [op], l1)
        k, _ = fresh_vs_mutated_profile(Lmod, c1, o1, l1, c, rng)
        if k not in (None, "skip"):
            return op
    return None


def trapz_weights(n, h):
    w = np.full(n, h)
    w[0] = w[-1] = h / 2
    return w


def cross_section_integral(obj, sx, sy, z, n=61, k=9.0):
    xs = np.linspace(-k * sx, k * sx, n)
    ys = np.linspace(-k * sy, k * sy, n)
    wx, wy = trapz_weights(n, xs[1] - xs[0]), trapz_weights(n, ys[1] - ys[0])
    tot = 0.0
    f = obj.get_energy_density
    for i in range(n):
        x = float(xs[i])
        row = math.fsum(wy[j] * f(x, float(ys[j]), z) for j in range(n))
        tot += wx[i] * row
    return tot


def volume_integral(obj, sx, sy, sz, mz, n=37, k=8.5):
    xs = np.linspace(-k * sx, k * sx, n)
    ys = np.linspace(-k * sy, k * sy, n)
    zs = np.linspace(mz - k * sz, mz + k * sz, n)
    wx, wy, wz = trapz_weights(n, xs[1] - xs[0]), trapz_weights(n, ys[1] - ys[0]), trapz_weights(n, zs[1] - zs[0])
    f = obj.get_energy_density
    tot = 0.0
    for i in range(n):
        x = float(xs[i])
        plane = 0.0
        for j in range(n):
            y = float(ys[j])
            plane += wy[j] * math.fsum(wz[l] * f(x, y, float(zs[l])) for l in range(n))
        tot += wx[i] * plane
    return tot


def search_profile(Lmod, case, obs, obj, laser, c, rng, heavy, stats):
    fails = []
    kind = case["kind"]
    cls = CLASSNAME[kind]
    rep = obs["rep"]
    # tiling of what the Laser node holds and of generate_geometry()
    if rep["Frad"] > 0 and rep["Flen"] > 0:
        for name, segs in (("Laser node segments", cyl_data(laser.get_geometry())), ("generate_geometry()", cyl_data(obj.generate_geometry()))):
            msg = tiling_failure(segs, rep["Frad"], rep["Flen"], rng)
            stats["tiling"] += 1
            if msg:
                fails.append({"key": "c18:tiling:%s" % name.split()[0], "claim": "%s of %s do not tile the laser length exactly once: %s" % (name, cls, msg),
                              "case": case, "segments": segs[:8]})
        if obs.get("offdiag", 0.0) != 0.0 or not obs.get("parents_ok", True):
            fails.append({"key": "c18:segment-transform", "claim": "a laser segment of %s is not a pure z-translation parented to the Laser node" % cls, "case": case})
    if tuple(obs.get("pointing", (0.0, 0.0, 1.0))) != (0.0, 0.0, 1.0):
        fails.append({"key": "c18:pointing:%s" % cls, "claim": "%s does not point along +z" % cls, "case": case, "pointing": obs["pointing"]})
    # fresh versus mutated
    k, detail = fresh_vs_mutated_profile(Lmod, case, obj, laser, c, rng)
    if k == "skip":
        stats["skipped_invalid_state"] += 1
    else:
        stats["fresh_vs_mutated"] += 1
        if k is not None:
            op = minimise_history(Lmod, case, c, rng, k)
            setter = (ATTR.get(op[1], op[1]) if op[0] == "set" else {"pol": "set_polarization", "attach": "re-attach", "bad": "rejected-type"}[op[0]]) if op else "history"
            fails.append({"key": "c18:stale:%s.%s:%s" % (cls, setter, k),
                          "claim": "%s after %s differs from a freshly constructed object with the reported parameters in: %s"
                                   % (cls, ("`obj.%s = %r`" % (setter, op[2]) if op and op[0] == "set" else "the setter history"), k),
                          "case": dict(case, ops=[op] if op else case["ops"]), "detail": detail})
    valid = all(rep[f] > 0 for f in POSITIVE[kind])
    if kind == "KUniform":
        if valid:
            stats["quadrature"] += 1
            for p in [(0.0, 0.0, 0.0), (rng.uniform(-1, 1) * rep["Frad"], 0.0, rng.uniform(0, rep["Flen"]))]:
                if float(obj.get_energy_density(*p)) != rep["Fed"]:
                    fails.append({"key": "c18:uniform-energy-density", "claim": "UniformEnergyDensity.get_energy_density differs from energy_density",
                                  "case": case, "point": p, "got": float(obj.get_energy_density(*p)), "want": rep["Fed"]})
                    break
        return fails
    if not (heavy and valid):
        return fails
    stats["quadrature"] += 1
    want = rep["Fpe"] / (c * rep["Fpl"])
    if kind == "KBiv":
        for z in (0.0, rng.uniform(-1, 3), rep["Flen"]):
            got = cross_section_integral(obj, rep["Fsx"], rep["Fsy"], z)
            if not abs(got - want) <= 1e-9 * want:
                fails.append({"key": "c18:cross-section-integral:%s" % cls, "claim": "cross-section integral of the energy density of %s != E/(c tau)" % cls,
                              "case": case, "z": z, "got": got, "want": want, "ratio": got / want})
                break
    elif kind == "KBeam":
        sw2 = rep["Fsw"] ** 2
        zr = 2 * math.pi * sw2 / rep["Fwl"] / 1e-9
        for z in (rep["Fwz"], rep["Fwz"] + rng.uniform(-3, 3) * min(zr, 50.0), rng.uniform(0, rep["Flen"])):
            s = math.sqrt(sw2 * (1 + ((z - rep["Fwz"]) / zr) ** 2))
            got = cross_section_integral(obj, s, s, z)
            if not abs(got - want) <= 1e-9 * want:
                fails.append({"key": "c18:cross-section-integral:%s" % cls, "claim": "cross-section integral of the energy density of %s != E/(c tau)" % cls,
                              "case": case, "z": z, "got": got, "want": want, "ratio": got / want})
                break
    else:
        got = volume_integral(obj, rep["Fsx"], rep["Fsy"], rep["Fpl"] * c, rep["Fmz"])
        if not abs(got - rep["Fpe"]) <= 1e-9 * rep["Fpe"]:
            fails.append({"key": "c18:volume-integral:%s" % cls, "claim": "volume integral of the energy density of TrivariateGaussian != pulse energy",
                          "case": case, "got": got, "want": rep["Fpe"], "ratio": got / rep["Fpe"]})
    return fails


# ---------------------------------------------------------------------------------------------
# spectra
# ---------------------------------------------------------------------------------------------
_GL = np.polynomial.legendre.leggauss(12)


def integrate(f, a, b, h):
    n = max(1, int(math.ceil((b - a) / h)))
    n = min(n, 400)
    tot = 0.0
    w = (b - a) / n
    for i in range(n):
        lo = a + i * w
        tot += 0.5 * w * math.fsum(wt * f(lo + 0.5 * w * (1 + t)) for t, wt in zip(_GL[0], _GL[1]))
    return tot


def build_spectrum(Lmod, kind, lo, hi, bins, mean, std):
    if kind == "SConst":
        return Lmod.ConstantSpectrum(lo, hi, bins)
    return Lmod.GaussianSpectrum(lo, hi, bins, mean, std)


def observe_spectrum(obj, kind, xs):
    out = {"accessors": [float(obj.min_wavelength), float(obj.max_wavelength), float(obj.get_min_wavelenth()), float(obj.get_max_wavelenth()),
                         int(obj.bins), int(obj.get_spectral_bins()), float(obj.delta_wavelength), float(obj.get_delta_wavelength())],
           "wavelengths": [float(v) for v in obj.wavelengths],
           "power_spectral_density": [float(v) for v in obj.power_spectral_density],
           "values": [float(obj(x)) for x in xs]}
    if kind == "SGauss":
        out["accessors"] += [float(obj.mean), float(obj.stddev)]
    return out


def search_spectrum(Lmod, case, obs, obj, rng, stats):
    fails = []
    kind = case["kind"]
    cls = "ConstantSpectrum" if kind == "SConst" else "GaussianSpectrum"
    lo, hi = float(obj.min_wavelength), float(obj.max_wavelength)
    bins = int(obj.bins)
    mean, std = (float(obj.mean), float(obj.stddev)) if kind == "SGauss" else (0.0, 0.0)
    # reported parameters
    if float(obj.get_min_wavelenth()) != lo or float(obj.get_max_wavelenth()) != hi or int(obj.get_spectral_bins()) != bins \
            or float(obj.get_delta_wavelength()) != float(obj.delta_wavelength):
        fails.append({"key": "c18:spectrum-accessor", "claim": "%s: get_min_wavelenth/get_max_wavelenth/get_spectral_bins/get_delta_wavelength "
                                                               "do not report min_wavelength/max_wavelength/bins/delta_wavelength" % cls,
                      "case": case, "observed": observe_spectrum(obj, kind, [])["accessors"]})
    delta = (hi - lo) / bins
    wl = [float(v) for v in obj.wavelengths]
    psd = [float(v) for v in obj.power_spectral_density]
    if abs(float(obj.delta_wavelength) - delta) > 1e-14 * delta or len(wl) != bins or len(psd) != bins or \
            any(abs(wl[i] - (lo + (i + 0.5) * delta)) > 1e-13 * hi for i in range(min(bins, len(wl)))):
        fails.append({"key": "c18:spectrum-centres", "claim": "%s: delta_wavelength / wavelengths are not (max-min)/bins and the bin centres of the reported range" % cls,
                      "case": case, "delta": float(obj.delta_wavelength), "wavelengths": wl[:5], "min": lo, "max": hi, "bins": bins})
        return fails
    # fresh versus mutated (bitwise)
    xs = [lo, hi, 0.5 * (lo + hi), lo + 0.3 * (hi - lo), lo - 1.0, hi + 1.0]
    fresh = build_spectrum(Lmod, kind, lo, hi, bins, mean, std)
    a, b = observe_spectrum(obj, kind, xs), observe_spectrum(fresh, kind, xs)
    stats["fresh_vs_mutated"] += 1
    for k in a:
        if a[k] != b[k]:
            op = None
            for o in [o_ for o_ in case["ops"] if o_[0] != "bad"]:
                try:
                    o1 = build_spectrum(Lmod, kind, case["args"]["min"], case["args"]["max"], case["args"]["bins"], case["args"]["mean"], case["args"]["std"])
                    setattr(o1, {"min": "min_wavelength", "max": "max_wavelength", "bins": "bins", "mean": "mean", "std": "stddev"}[o[0]], o[1])
                except (ValueError, AttributeError):
                    continue
                f1 = build_spectrum(Lmod, kind, float(o1.min_wavelength), float(o1.max_wavelength), int(o1.bins),
                                    float(o1.mean) if kind == "SGauss" else 0.0, float(o1.stddev) if kind == "SGauss" else 0.0)
                if observe_spectrum(o1, kind, xs) != observe_spectrum(f1, kind, xs):
                    op = o
                    break
            nm = {"min": "min_wavelength", "max": "max_wavelength", "bins": "bins", "mean": "mean", "std": "stddev"}[op[0]] if op else "history"
            fails.append({"key": "c18:stale:%s.%s:%s" % (cls, nm, k),
                          "claim": "%s after %s differs from a freshly constructed object with the reported parameters in: %s"
                                   % (cls, "`obj.%s = %r`" % (nm, op[1]) if op else "the setter history", k),
                          "case": dict(case, ops=[op] if op else case["ops"]), "after_history": a, "fresh": b})
            break
    # per-bin power = integral of the unit-power spectral density over the bin
    stats["spectrum_bins"] += bins
    power = [p * float(obj.delta_wavelength) for p in psd]
    if kind == "SConst":
        want = 1.0 / bins
        # bin edges are accumulated in doubles: a clipped outer bin sees ulp(wavelength) / (max - min)
        # (one rounding per accumulated edge: up to bins/2 ulp at the last edge; a thorough run showed 20 ulp at 44 bins)
        tol = 1e-12 + (16 + bins) * 2.2e-16 * hi / (hi - lo)
        edges = obs["edges"]
        if edges[0] < lo or edges[-1] > hi:
            stats["const_edge_cases"] += 1       # the case in which the code before 879f8f0 halved a bin
        bad = [i for i in range(bins) if abs(power[i] - want) > tol]
        if bad:
            fails.append({"key": "c18:constant-bin-power", "claim": "ConstantSpectrum bin power != 1/bins (the integral of 1/(max-min) over the bin)",
                          "constructor": "ConstantSpectrum(%r, %r, %d)" % (lo, hi, bins), "case": case, "bins": bins, "bad_bins": bad[:5],
                          "power": power if bins <= 12 else power[:3] + power[-3:], "sum_of_power": math.fsum(power), "expected_per_bin": want,
                          "first_edge_computed": edges[0].hex(), "last_edge_computed": edges[-1].hex(),
                          "first_edge_below_min": edges[0] < lo, "last_edge_above_max": edges[-1] > hi})
        stats["spectrum_sum_to_one"] += 1
        if abs(math.fsum(power) - 1.0) > 2 * tol:
            fails.append({"key": "c18:constant-sum", "claim": "ConstantSpectrum powers do not sum to one",
                          "constructor": "ConstantSpectrum(%r, %r, %d)" % (lo, hi, bins), "case": case, "sum": math.fsum(power)})
    else:
        h = 0.5 * std
        # spectrum(x) evaluates (x - mean) / stddev in doubles: the rounding of x - mean (one ulp of the wavelength)
        # is amplified by 1 / stddev; measured 1.0e-11 for stddev = 0.002 at 700 nm
        tol = 1e-11 + 8 * 2.2e-16 * hi / std
        for i in range(bins):
            a_, b_ = lo + i * delta, lo + (i + 1) * delta
            if (b_ - a_) / h > 400:
                continue
            got = integrate(obj, a_, b_, h)
            if abs(power[i] - got) > tol:
                fails.append({"key": "c18:gaussian-bin-power", "claim": "GaussianSpectrum bin power != integral of spectrum(x) over the bin",
                              "case": case, "bin": i, "power": power[i], "integral_of_evaluate": got, "mean": mean, "stddev": std})
                break
        # unit power of the density itself and sum to one when the range spans the line
        k = rng.uniform(8.5, 12.0)
        bn = rng.choice([1, 2, 5, 16, 33])
        span = build_spectrum(Lmod, kind, mean - k * std, mean + k * std, bn, mean, std) if 0 < mean - k * std < mean + k * std else None
        if span is not None:
            stats["spectrum_sum_to_one"] += 1
            tot = math.fsum(float(p) * float(span.delta_wavelength) for p in span.power_spectral_density)
            if abs(tot - 1.0) > 1e-12:
                fails.append({"key": "c18:gaussian-sum", "claim": "GaussianSpectrum powers do not sum to one although the range spans mean +- %.1f stddev" % k,
                              "constructor": "GaussianSpectrum(%r, %r, %d, %r, %r)" % (mean - k * std, mean + k * std, bn, mean, std), "sum": tot})
            unit = integrate(obj, mean - k * std, mean + k * std, h)
            if abs(unit - 1.0) > tol:
                fails.append({"key": "c18:gaussian-density-unit", "claim": "GaussianSpectrum(x) does not integrate to one", "case": case, "integral": unit,
                              "mean": mean, "stddev": std})
    return fails


# ---------------------------------------------------------------------------------------------
# every step of a history: the live object against a freshly built one
# ---------------------------------------------------------------------------------------------
def step_check_profile(Lmod, kind, obj, laser, pol, case, stats):
    rep = {f: float(getattr(obj, ATTR[f])) for f in KIND_FIELDS[kind]}
    if any(not (rep[f] > 0 and math.isfinite(rep[f])) for f in POSITIVE[kind]):
        return None
    stats["per_step_fresh_checks"] += 1
    vals = dict(case["args"])
    vals.update(rep)
    fresh = build_profile(Lmod, kind, vals, pol)
    flaser = attach(fresh)
    sx = rep.get("Fsx", rep.get("Fsw", 0.01))
    pts = [(0.0, 0.0, rep.get("Fmz", rep.get("Fwz", 0.25))), (0.6 * sx, -0.3 * rep.get("Fsy", sx), 0.4)]
    a, b = observe_profile(obj, laser, kind, pts), observe_profile(fresh, flaser, kind, pts)
    for k in a:
        if not same(a[k], b[k], pol_tol=(k == "polarisation")):
            op = case["ops"][-1] if case["ops"] else None
            what = "construction" if op is None else ("`%s`" % (("obj.%s = %r" % (ATTR.get(op[1], op[1]), op[2])) if op[0] == "set" else op[0]))
            return {"key": "c18:step:%s:%s" % (CLASSNAME[kind], k),
                    "claim": "%s: after call %d of the history (%s) the live object differs from a freshly constructed one in: %s"
                             % (CLASSNAME[kind], len(case["ops"]), what, k),
                    "case": case, "points": pts, "live": a, "fresh": b}
    return None


def step_check_spectrum(Lmod, kind, obj, case, stats):
    stats["per_step_fresh_checks"] += 1
    lo, hi, bins = float(obj.min_wavelength), float(obj.max_wavelength), int(obj.bins)
    mean, std = (float(obj.mean), float(obj.stddev)) if kind == "SGauss" else (0.0, 0.0)
    fresh = build_spectrum(Lmod, kind, lo, hi, bins, mean, std)
    xs = [lo, hi, 0.5 * (lo + hi)]
    a, b = observe_spectrum(obj, kind, xs), observe_spectrum(fresh, kind, xs)
    for k in a:
        if not same(a[k], b[k]):
            op = case["ops"][-1] if case["ops"] else None
            return {"key": "c18:step:%s:%s" % ("ConstantSpectrum" if kind == "SConst" else "GaussianSpectrum", k),
                    "claim": "%s: after call %d of the history (%r) the live object differs from a freshly constructed one in: %s"
                             % ("ConstantSpectrum" if kind == "SConst" else "GaussianSpectrum", len(case["ops"]), op, k),
                    "case": case, "live": a, "fresh": b}
    return None


# ---------------------------------------------------------------------------------------------
# other routes and entry points
# ---------------------------------------------------------------------------------------------
def search_routes(Lmod, rng, n, stats):
    from raysect.optical import World, Vector3D
    from cherab.core.laser import Laser
    from cherab.core.model.laser.profile import generate_segmented_cylinder
    fails = []
    kinds = ["KUniform", "KBiv", "KTri", "KBeam"]

    def rl():
        r = rng.choice([rng.uniform(0.005, 0.1), 2.0 ** -rng.randint(3, 6)])
        return r, r * rng.choice([rng.uniform(0.3, 1.9), rng.uniform(2, 30), 2.0 * rng.randint(1, 12)])

    def geo(laser):
        return cyl_data(laser.get_geometry())

    def expect(r, L):
        return cyl_data(Lmod.UniformEnergyDensity(1.0, L, r).generate_geometry())

    for i in range(n):
        kind = kinds[i % 4]
        cls = getattr(Lmod, CLASSNAME[kind])
        (r0, L0), (r1, L1), (r2, L2), (r3, L3) = rl(), rl(), rl(), rl()
        # ---- Laser-node routes: two nodes listen to one profile; a profile is replaced; re-attached; configure_geometry()
        stats["laser_routes"] += 1
        p, q = cls(laser_radius=r0, laser_length=L0), cls(laser_radius=r1, laser_length=L1)
        la, lb = Laser(parent=World()), Laser(parent=World())
        la.laser_profile = p
        lb.laser_profile = p
        p.laser_length = L2
        steps = [("two nodes share a profile, laser_length changed", geo(la), expect(r0, L2)), ("second node", geo(lb), expect(r0, L2))]
        la.laser_profile = q                      # p replaced on node a: a must follow q only, b still follows p
        p.laser_radius = r3
        steps += [("node whose profile was replaced (old profile changed afterwards)", geo(la), expect(r1, L1)),
                  ("node still attached to the old profile", geo(lb), expect(r3, L2))]
        q.laser_length = L3
        steps.append(("node after its new profile changed", geo(la), expect(r1, L3)))
        la.laser_profile = q                      # same profile assigned again
        la.configure_geometry()
        la.configure_geometry()
        steps.append(("same profile assigned again + configure_geometry() twice", geo(la), expect(r1, L3)))
        steps.append(("children of the node", len(la.children), len(la.get_geometry())))
        la.laser_profile = p                      # back to the first profile
        q.laser_length = L0
        steps.append(("node re-attached to the first profile", geo(la), expect(r3, L2)))
        for what, got, want in steps:
            if got != want:
                fails.append({"key": "c18:laser-route", "claim": "%s: Laser node geometry differs from that of a fresh object (%s)" % (CLASSNAME[kind], what),
                              "radii_lengths": [(r0, L0), (r1, L1), (r2, L2), (r3, L3)], "got": got[:6] if isinstance(got, list) else got,
                              "want": want[:6] if isinstance(want, list) else want})
                break
        # ---- generate_segmented_cylinder called directly == generate_geometry()
        if cyl_data(generate_segmented_cylinder(r0, L0)) != expect(r0, L0):
            fails.append({"key": "c18:segment-function", "claim": "generate_segmented_cylinder(r, L) differs from profile.generate_geometry()", "r": r0, "L": L0})
        # ---- values of a rejected type leave the object untouched
        stats["type_rejections"] += 1
        pts = [(0.0, 0.0, 0.1)]
        before = observe_profile(p, lb, kind, pts)
        for attr in [ATTR[f] for f in KIND_FIELDS[kind]]:
            for bad in ("3", None, [1.0]):
                try:
                    setattr(p, attr, bad)
                    outcome = "accepted"
                except TypeError:
                    outcome = "TypeError"
                except Exception as e:      # noqa: recorded below
                    outcome = type(e).__name__
                if outcome != "TypeError":
                    fails.append({"key": "c18:type-rejection", "claim": "%s.%s = %r: expected TypeError, got %s" % (CLASSNAME[kind], attr, bad, outcome)})
        try:
            p.set_polarization((0.0, 1.0, 0.0))
            fails.append({"key": "c18:type-rejection", "claim": "set_polarization accepted a tuple"})
        except TypeError:
            pass
        after = observe_profile(p, lb, kind, pts)
        if not all(same(before[k], after[k]) for k in before):
            fails.append({"key": "c18:type-rejection-state", "claim": "%s changed although every assignment raised TypeError" % CLASSNAME[kind],
                          "before": before, "after": after})
        # ---- spectra: _get_bin_power_spectral_density called directly with the bin edges / with intervals that overlap the range partly
        stats["direct_bin_calls"] += 1
        lo = rng.uniform(300, 1400)
        hi = lo + rng.choice([0.2, 2.0, 40.0]) * rng.uniform(0.5, 1.5)
        bins = rng.choice([1, 2, 3, 7, 10])
        cs = Lmod.ConstantSpectrum(lo, hi, bins)
        gs = Lmod.GaussianSpectrum(lo, hi, bins, lo + rng.uniform(0.2, 0.8) * (hi - lo), rng.uniform(0.05, 0.5) * (hi - lo))
        for sp in (cs, gs):
            delta = float(sp.delta_wavelength)
            e = float(sp.wavelengths[0]) - delta * 0.5
            for j in range(bins):
                direct = float(sp._get_bin_power_spectral_density(e, e + delta))
                if direct != float(sp.power_spectral_density[j]):
                    fails.append({"key": "c18:direct-bin-call", "claim": "%s._get_bin_power_spectral_density(edges of bin %d) differs from power_spectral_density[%d]"
                                                                        % (type(sp).__name__, j, j), "min": lo, "max": hi, "bins": bins, "direct": direct,
                                  "array": float(sp.power_spectral_density[j])})
                    break
                e = e + delta
            for name, setter_val in (("bins", 0), ("min_wavelength", "x"), ("bins", "2")):
                try:
                    setattr(sp, name, setter_val)
                    fails.append({"key": "c18:type-rejection", "claim": "%s.%s = %r accepted" % (type(sp).__name__, name, setter_val)})
                except (TypeError, ValueError):
                    pass
        w = hi - lo
        for (a_, b_) in [(lo - 0.5 * w, lo + 0.25 * w), (hi - 0.1 * w, hi + w), (lo - w, hi + w), (hi + 0.1 * w, hi + w), (lo - w, lo - 0.5 * w), (lo, hi)]:
            got = float(cs._get_bin_power_spectral_density(a_, b_))
            want = max(0.0, min(b_, hi) - max(a_, lo)) / (w * (b_ - a_))
            if abs(got - want) > 1e-12 * max(want, 1.0 / w):
                fails.append({"key": "c18:constant-overlap", "claim": "ConstantSpectrum._get_bin_power_spectral_density(%r, %r) is not overlap / ((max-min) * width)" % (a_, b_),
                              "min": lo, "max": hi, "got": got, "want": want})
                break
        if fails:
            break
    return fails
