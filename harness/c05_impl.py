"""C05 -- running the real BeamCXLine / BeamEmissionLine / Plasma on one generated case.

A case is a plain dict (JSON-able, floats only) so that it can be written into a replay file:
  kind            "cx" | "bes" | "plasma"
  species         [{"el": index into ELEMENTS, "charge": int, "n0","t0": float, "v0": [3 floats]}]
  b0              [3 floats]
  plasma_point, beam_point   [3 floats]  (plasma space / beam space)
  beam            {"energy", "length", "att0", "dir": [3 floats], "element": index}
  line            {"el": index, "charge": int, "transition": [up, low]}            (cx)
  rates           [{"m": int, "c": [6 floats], "pop": [[4 floats] per species]}]  (cx; provider order)
  pecs            [[4 floats] per species]                                         (bes)
Every field of the plasma depends on the position, the attenuator density depends on the position in
beam space: an implementation that samples the wrong point returns different numbers.
"""
import copy
import hashlib
import math

from raysect.core import Point3D, Vector3D
from raysect.optical import Spectrum
from cherab.core import Beam, Plasma, Species, Maxwellian, DistributionFunction
import numpy as np
from cherab.core.beam import BeamAttenuator
from cherab.core.atomic import Line, AtomicData, BeamCXPEC, BeamPopulationRate, BeamEmissionPEC
from cherab.core.atomic import elements as _el
from cherab.core.model import BeamCXLine, BeamEmissionLine
from cherab.core.model.lineshape import LineShapeModel
from cherab.openadas.rates.beam import NullBeamPopulationRate, NullBeamEmissionPEC
from cherab.openadas.rates.cx import NullBeamCXPEC

ELEMENTS = [_el.hydrogen, _el.deuterium, _el.tritium, _el.helium, _el.lithium, _el.beryllium, _el.boron,
            _el.carbon, _el.nitrogen, _el.oxygen, _el.neon, _el.argon]
AMU = 1.66053906660e-27


# ---- position dependence of the fields (all factors are exact in double for dyadic points) --------
def g_dens(x, y, z):
    return 1.0 + 0.25 * x + 0.125 * y + 0.5 * z


def g_temp(x, y, z):
    return 1.0 + 0.5 * x + 0.25 * z


def g_vel(x, y, z):
    return 1.0 + 0.125 * x + 0.25 * y


def g_b(x, y, z):
    return 1.0 + 0.25 * y + 0.125 * z


def g_att(x, y, z):
    return 1.0 + 0.5 * x + 0.25 * y + 0.125 * z


def species_values(s, x, y, z):
    """what the distribution of the species description s returns at (x, y, z).  form "fn": three Python
    callables of the position; "const" / "const_np" / "const_int": position-independent constants handed to
    Maxwellian as Python floats / numpy scalars / Python ints (autowrapped by the implementation)"""
    if s.get("form", "fn") == "fn":
        gv = g_vel(x, y, z)
        return (s["n0"] * g_dens(x, y, z), s["t0"] * g_temp(x, y, z), tuple(c * gv for c in s["v0"]))
    return (s["n0"], s["t0"], tuple(s["v0"]))


def species_at(case, point=None):
    """values of every species' distribution at the plasma point: [(el, charge, n, T, (vx, vy, vz))]"""
    x, y, z = point or case["plasma_point"]
    return [(s["el"], s["charge"]) + species_values(s, x, y, z) for s in case["species"]]


def effective_species(raw):
    """dict semantics of Composition: an entry keeps the position of the first occurrence of its
    (element, charge) key and the value of the last"""
    order, last = [], {}
    for s in raw:
        k = (s["el"], s["charge"])
        if k not in last:
            order.append(k)
        last[k] = s
    return [copy.deepcopy(last[k]) for k in order]


def bfield_at(case, point=None):
    x, y, z = point or case["plasma_point"]
    gb = g_b(x, y, z) if case.get("b_form", "fn") == "fn" else 1.0
    return tuple(c * gb for c in case["b0"])


def attenuator_at(case):
    x, y, z = case["beam_point"]
    return case["beam"]["att0"] * g_att(x, y, z)


def aff3(c, e, n, t):
    """c = [c0, c1, c2, c3, threshold (optional), null-object flag (optional)]: zero below the energy threshold"""
    if len(c) > 4 and e < c[4]:
        return 0.0
    return c[0] + c[1] * e + c[2] * n + c[3] * t


def aff5(c, e, t, n, z, b):
    if len(c) > 6 and e < c[6]:
        return 0.0
    return c[0] + c[1] * e + c[2] * t + c[3] * n + c[4] * z + c[5] * b


def is_null(c, n):
    """coefficient list that stands for one of the provider's null-rate objects (flag after the threshold)"""
    return len(c) > n + 1 and c[n + 1] == 1.0


def threshold_margin(log):
    """smallest relative distance between an evaluation energy and the threshold of the table evaluated (the side of
    the threshold is decided in double by the stub and exactly by the model)"""
    m = float("inf")
    for l in log:
        if l[0] in ("cx", "pop", "pec") and len(l) > 5 and l[5] > 0:
            m = min(m, abs(l[2][0] - l[5]) / l[5])
    return m


# ---- stubs (Python subclasses of the real base classes) ---------------------------------------------
class StubAttenuator(BeamAttenuator):
    def __init__(self, att0, log):
        super().__init__()
        self.att0, self.log, self.clamp_sigma = att0, log, 5.0

    def density(self, x, y, z):
        v = self.att0 * g_att(x, y, z)
        self.log.append(("att", (x, y, z), v))
        return v


SERIAL = [0]


def next_serial():
    SERIAL[0] += 1
    return SERIAL[0]


class StubCX(BeamCXPEC):
    def __init__(self, m, c, log):
        super().__init__(m)
        self.c, self.log, self.serial = c, log, next_serial()

    def evaluate(self, energy, temperature, density, z_effective, b_field):
        v = aff5(self.c, energy, temperature, density, z_effective, b_field)
        self.log.append(("cx", self.donor_metastable, (energy, temperature, density, z_effective, b_field), v, self.serial,
                         self.c[6] if len(self.c) > 6 else 0.0))
        return v


class StubPop(BeamPopulationRate):
    def __init__(self, tag, c, log):
        self.tag, self.c, self.log, self.serial = tag, c, log, next_serial()

    def evaluate(self, energy, density, temperature):
        v = aff3(self.c, energy, density, temperature)
        self.log.append(("pop", self.tag, (energy, density, temperature), v, self.serial, self.c[4] if len(self.c) > 4 else 0.0))
        return v


class StubPEC(BeamEmissionPEC):
    def __init__(self, tag, c, log):
        self.tag, self.c, self.log, self.serial = tag, c, log, next_serial()

    def evaluate(self, energy, density, temperature):
        v = aff3(self.c, energy, density, temperature)
        self.log.append(("pec", self.tag, (energy, density, temperature), v, self.serial, self.c[4] if len(self.c) > 4 else 0.0))
        return v


class NullCX(NullBeamCXPEC):
    """the provider's null CX coefficient (its own evaluate), which also records the arguments it receives"""

    def __init__(self, m, log):
        super().__init__(m)
        self.log, self.serial = log, next_serial()

    def evaluate(self, energy, temperature, density, z_effective, b_field):
        v = NullBeamCXPEC.evaluate(self, energy, temperature, density, z_effective, b_field)
        self.log.append(("cx", self.donor_metastable, (energy, temperature, density, z_effective, b_field), v, self.serial, 0.0))
        return v


class NullPop(NullBeamPopulationRate):
    def __init__(self, tag, log):
        self.tag, self.log, self.serial = tag, log, next_serial()

    def evaluate(self, energy, density, temperature):
        v = NullBeamPopulationRate.evaluate(self, energy, density, temperature)
        self.log.append(("pop", self.tag, (energy, density, temperature), v, self.serial, 0.0))
        return v


class NullPEC(NullBeamEmissionPEC):
    def __init__(self, tag, log):
        self.tag, self.log, self.serial = tag, log, next_serial()

    def evaluate(self, energy, density, temperature):
        v = NullBeamEmissionPEC.evaluate(self, energy, density, temperature)
        self.log.append(("pec", self.tag, (energy, density, temperature), v, self.serial, 0.0))
        return v


def make_cx(m, c, log):
    return NullCX(m, log) if is_null(c, 6) else StubCX(m, c, log)


def make_pop(tag, c, log):
    return NullPop(tag, log) if is_null(c, 4) else StubPop(tag, c, log)


def make_pec(tag, c, log):
    return NullPEC(tag, log) if is_null(c, 4) else StubPEC(tag, c, log)


class Recorder(LineShapeModel):
    """line shape that records the radiance it is asked to render"""
    LOG = None

    def add_line(self, radiance, point, direction, spectrum):
        Recorder.LOG.append(("line", radiance, (point.x, point.y, point.z)))
        return spectrum


class LogElectrons(DistributionFunction):
    """electron distribution that records being sampled: BeamEmissionMultiplet.add_line reads it first, so a
    record means that BeamEmissionLine.emission reached its line shape"""

    def __init__(self, ne, te, log):
        super().__init__()
        self.ne, self.te, self.log = ne, te, log

    def density(self, x, y, z):
        self.log.append(("electron", "density", (x, y, z)))
        return self.ne

    def effective_temperature(self, x, y, z):
        self.log.append(("electron", "temperature", (x, y, z)))
        return self.te

    def bulk_velocity(self, x, y, z):
        return Vector3D(0, 0, 0)


class StubData(AtomicData):
    def __init__(self, case, log):
        self.case, self.log = case, log
        self.index = {(ELEMENTS[s["el"]], s["charge"]): i for i, s in enumerate(case["species"])}

    def wavelength(self, ion, charge, transition):
        return 656.1

    def beam_cx_pec(self, donor_ion, receiver_ion, receiver_charge, transition):
        self.log.append(("request_cx", donor_ion.name, receiver_ion.name, receiver_charge, tuple(transition)))
        return [make_cx(r["m"], r["c"], self.log) for r in self.case["rates"]]

    def beam_population_rate(self, beam_ion, metastable, plasma_ion, charge):
        i = self.index[(plasma_ion, charge)]
        if charge == 0:
            return NullBeamPopulationRate()
        r = [r for r in self.case["rates"] if r["m"] == metastable][0]
        return make_pop((metastable, i), r["pop"][i], self.log)

    def beam_emission_pec(self, beam_ion, plasma_ion, charge, transition):
        i = self.index[(plasma_ion, charge)]
        if charge == 0:
            return NullBeamEmissionPEC()
        return make_pec(i, self.case["pecs"][i], self.log)


def composition_arg(sps, form):
    """the iterable handed to plasma.composition / composition.set: list, tuple or generator"""
    if form == "tuple":
        return tuple(sps)
    if form == "gen":
        return (x for x in sps)
    return sps


def build_plasma(case, log):
    plasma = Plasma()
    plasma.b_field = make_bfield(case["b0"], case.get("b_form", "fn"))
    raw = case.get("species_raw") or case["species"]
    plasma.composition = composition_arg([make_species(s) for s in raw], case.get("comp_form", "list"))
    plasma.electron_distribution = LogElectrons(1.0e19, 100.0, log)
    return plasma


def number_form(x, form):
    """the same value as a Python float, a Python int or a numpy scalar (int only when integral)"""
    if form == "int" and float(x) == int(x):
        return int(x)
    if form == "np":
        return np.float64(x)
    if form == "np_int":
        return np.int64(x)
    return x


def build_beam(case, plasma, data, log):
    b = case["beam"]
    beam = Beam()
    beam.plasma = plasma
    beam.atomic_data = data
    beam.energy = number_form(b["energy"], b.get("form", "float"))
    beam.element = ELEMENTS[b["element"]]
    beam.length = number_form(b["length"], b.get("form", "float"))
    beam.temperature = b.get("temperature", 10.0)
    beam.attenuator = StubAttenuator(b["att0"], log)
    return beam


def make_cx_model(case_or_cfg, ln, beam, plasma, data):
    """BeamCXLine attached through beam.models (the caller does that) or configured through its constructor"""
    line = Line(ELEMENTS[ln["el"]], number_form(ln["charge"], "np_int" if case_or_cfg.get("line_np") else "float"),
                tuple(ln["transition"]))
    kw = {"lineshape": Recorder}
    if case_or_cfg.get("lineshape") == "default":
        kw = {}                         # default argument: GaussianLine; the radiance is read back from the spectrum
    elif case_or_cfg.get("ls_kwargs"):
        kw["lineshape_kwargs"] = {"integrator": None}
    if case_or_cfg.get("attach", "models") == "constructor":
        return BeamCXLine(line, beam, plasma, data, **kw)
    return BeamCXLine(line, **kw)


def make_bes_model(case_or_cfg, element, beam, plasma, data):
    line = Line(ELEMENTS[element], 0, (3, 2))
    r = case_or_cfg.get("bes_ratios")
    kw = {} if not r else {"sigma_to_pi": r[0], "sigma1_to_sigma0": r[1], "pi2_to_pi3": r[2], "pi4_to_pi3": r[3]}
    if case_or_cfg.get("attach", "models") == "constructor":
        return BeamEmissionLine(line, beam, plasma, data, **kw)
    return BeamEmissionLine(line, **kw)


def error_code(exc):
    if isinstance(exc, RuntimeError):
        return 2
    if isinstance(exc, ValueError):
        return 3
    if isinstance(exc, AttributeError):
        return 4
    return 9


def run_case(case):
    """returns {"code": 0 untouched | 1 line added | 2.. error, "radiance": float, "log": [...], "error": str}"""
    log = []
    Recorder.LOG = log
    plasma = build_plasma(case, log)
    px, py, pz = case["plasma_point"]
    if case["kind"] == "plasma":
        out = {"log": log, "error": "", "radiance": 0.0}
        out["nion"] = plasma.ion_density(px, py, pz)
        try:
            out["zeff"] = plasma.z_effective(px, py, pz)
            out["code"] = 1
        except ValueError as e:
            out["zeff"], out["code"], out["error"] = 0.0, 3, repr(e)
        out["composition"] = composition_view(plasma)
        return out
    data = StubData(case, log)
    beam = build_beam(case, plasma, data, log)
    b = case["beam"]
    bp, pp = Point3D(*case["beam_point"]), Point3D(px, py, pz)
    direction, obs = Vector3D(*b["dir"]), Vector3D(*case.get("obs", (1.0, 0.0, 0.0)))
    out = _run_emission(case, beam, bp, pp, direction, obs, log)
    # n_beam of the property: what the real Beam.density returns at the beam point (asked after the
    # emission call; the log is not extended)
    n = len(log)
    out["n_beam"] = beam.density(bp.x, bp.y, bp.z)
    del log[n:]
    return out


CAUGHT = (RuntimeError, ValueError, AttributeError, TypeError)


def _eval_cx(model, bp, pp, direction, obs, log, default_shape=False):
    # default_shape: one bin that holds the whole Gaussian (>= 8 widths to either edge): sample * delta is the
    # wavelength integral of what the real GaussianLine rendered
    spectrum = Spectrum(156.0, 1156.0, 1) if default_shape else Spectrum(600.0, 700.0, 4)
    try:
        res = model.emission(bp, pp, direction, obs, spectrum)
    except CAUGHT as e:
        return {"code": error_code(e), "radiance": 0.0, "log": log, "error": repr(e)}
    if default_shape:
        total = float(res.samples[0]) * res.delta_wavelength
        reached = any(l[0] == "cx" for l in log) or total != 0.0
        return {"code": 1 if reached else 0, "radiance": total, "log": log, "error": ""}
    lines = [l for l in log if l[0] == "line"]
    untouched = res is spectrum and not any(res.samples)
    if not lines:
        return {"code": 0 if untouched else 8, "radiance": 0.0, "log": log, "error": ""}
    return {"code": 1 if len(lines) == 1 else 8, "radiance": lines[0][1], "log": log, "error": "",
            "line_point": lines[0][2]}


def _eval_bes(model, bp, pp, direction, obs, log):
    # one bin that contains every Stark component many widths away from its edges: each Gaussian
    # integrates to exactly 1.0 in double, so sample * delta is the wavelength integral
    spectrum = Spectrum(456.0, 856.0, 1)
    try:
        res = model.emission(bp, pp, direction, obs, spectrum)
    except CAUGHT as e:
        return {"code": error_code(e), "radiance": 0.0, "log": log, "error": repr(e)}
    total = float(res.samples[0]) * res.delta_wavelength
    called = any(l[0] == "electron" for l in log) or total != 0.0
    return {"code": 1 if called else 0, "radiance": total, "log": log, "error": ""}


STARK_SPLITTING_FACTOR = 2.77e-8       # only used to place the read-back windows between the components
E_CHARGE, WAVELENGTH = 1.602176634e-19, 656.1


def mse_windows(case):
    """half-widths of the five nested read-back windows around the (unshifted) central wavelength: between the Stark
    components for j = 0..3, everything for j = 4.  The observation direction is perpendicular to the beam, so the
    central wavelength is the natural one exactly."""
    b = case["beam"]
    speed = math.sqrt(2 * b["energy"] * E_CHARGE / AMU)
    bf = bfield_at(case)
    d = b["dir"]
    dl = math.sqrt(sum(c * c for c in d))
    v = [c / dl * speed for c in d]
    cr = (v[1] * bf[2] - v[2] * bf[1], v[2] * bf[0] - v[0] * bf[2], v[0] * bf[1] - v[1] * bf[0])
    split = STARK_SPLITTING_FACTOR * math.sqrt(sum(c * c for c in cr))
    return [(j + 0.5) * split for j in range(4)] + [100.0], split


def _eval_mse(case, model, bp, pp, direction, obs, log):
    """five evaluations of the same live model on one-bin spectra of growing width: sample * delta is the integral of
    the rendered multiplet over the window (each Gaussian is many widths away from every window edge)"""
    windows, split = mse_windows(case)
    cum, code, err = [], None, ""
    for w in windows:
        del log[:]
        spectrum = Spectrum(WAVELENGTH - w, WAVELENGTH + w, 1)
        try:
            res = model.emission(bp, pp, direction, obs, spectrum)
        except CAUGHT as e:
            return {"code": error_code(e), "radiance": 0.0, "log": list(log), "error": repr(e), "cumulative": [0.0] * 5}
        cum.append(float(res.samples[0]) * res.delta_wavelength)
        c = 1 if (any(l[0] == "electron" for l in log) or cum[-1] != 0.0) else 0
        code = c if code is None else (code if code == c else 8)
    return {"code": code, "radiance": cum[-1], "log": list(log), "error": err, "cumulative": cum, "stark_split_estimate": split}


def _run_emission(case, beam, bp, pp, direction, obs, log):
    if case["kind"] == "mse":
        model = make_bes_model(case, case["beam"]["element"], beam, beam.plasma, beam.atomic_data)
        if case.get("attach", "models") == "models":
            beam.models = [model]
        return _eval_mse(case, model, bp, pp, direction, obs, log)
    b = case["beam"]
    attach = case.get("attach", "models") == "models"
    if case["kind"] == "cx":
        model = make_cx_model(case, case["line"], beam, beam.plasma, beam.atomic_data)
        if attach:
            beam.models = [model]
        return _eval_cx(model, bp, pp, direction, obs, log, case.get("lineshape") == "default")
    if case["kind"] == "bes":
        model = make_bes_model(case, b["element"], beam, beam.plasma, beam.atomic_data)
        if attach:
            beam.models = [model]
        return _eval_bes(model, bp, pp, direction, obs, log)
    raise ValueError(case["kind"])


# ---- histories: one scene with live BeamCXLine / BeamEmissionLine, mutated through the public API ----
SCALE_CX = 2.0 ** -112      # ~ 1.9e-34 W m^3
SCALE_PEC = 2.0 ** -110
UNIT5 = [1.0, 2.0 ** -16, 2.0 ** -10, 2.0 ** -64, 1.0, 1.0]     # E ~ 2^16, T ~ 2^10, n ~ 2^64
UNIT3 = [1.0, 2.0 ** -16, 2.0 ** -64, 2.0 ** -10]               # E, n, T


def _coef_int(*key):
    h = hashlib.sha256(repr(key).encode()).digest()[0]
    return [0, 1, 1, 2, 3, 5, 7][h % 7]


def _zero_role(base, *key):
    """for the history providers: which tables are exactly zero (all coefficients 0), a null-rate object, or vanish
    below an energy threshold.  `seed` even: no special tables."""
    h = hashlib.sha256(repr(("role",) + key).encode()).digest()
    r = h[0] % 10
    if r == 0:
        return [0.0] * len(base) + [0.0]                      # all coefficients zero
    if r == 1:
        return [0.0] * len(base) + [0.0, 1.0]                 # the provider's null-rate object
    if r in (2, 3):
        return base + [2.0 ** (10 + h[1] % 8)]                # zero below 1e3 .. 1.3e5 eV/amu
    return base + [0.0]


def pop_coeffs(seed, m, el, ch):
    """population coefficients of the provider `seed` for metastable m and species (el, ch)"""
    if ch == 0:
        return [0.0] * 4
    return _zero_role([_coef_int(seed, "pop", m, el, ch, k) * u * 2.0 ** -3 for k, u in enumerate(UNIT3)], seed, "pop", m, el, ch)


def pec_coeffs(seed, el, ch):
    if ch == 0:
        return [0.0] * 4
    return _zero_role([_coef_int(seed, "pec", el, ch, k) * u * SCALE_PEC for k, u in enumerate(UNIT3)], seed, "pec", el, ch)


class HistData(AtomicData):
    """provider = {"seed": int, "rates": [{"m": int, "c": [6 floats]}]}: coefficients exist for every
    (element, charge), so species may come and go; rate objects are tagged by (element index, charge)"""

    def __init__(self, prov, log):
        self.prov, self.log = prov, log

    def wavelength(self, ion, charge, transition):
        return 656.1

    def beam_cx_pec(self, donor_ion, receiver_ion, receiver_charge, transition):
        self.log.append(("request_cx", donor_ion.name, receiver_ion.name, receiver_charge, tuple(transition)))
        return [make_cx(r["m"], r["c"], self.log) for r in self.prov["rates"]]

    def beam_population_rate(self, beam_ion, metastable, plasma_ion, charge):
        if charge == 0:
            return NullBeamPopulationRate()
        el = ELEMENTS.index(plasma_ion)
        return make_pop((metastable, (el, charge)), pop_coeffs(self.prov["seed"], metastable, el, charge), self.log)

    def beam_emission_pec(self, beam_ion, plasma_ion, charge, transition):
        self.log.append(("request_pec", beam_ion.name, plasma_ion.name, charge, tuple(transition)))
        if charge == 0:
            return NullBeamEmissionPEC()
        el = ELEMENTS.index(plasma_ion)
        return make_pec((el, charge), pec_coeffs(self.prov["seed"], el, charge), self.log)


def make_species(s):
    el = ELEMENTS[s["el"]]
    form = s.get("form", "fn")
    charge = np.int64(s["charge"]) if s.get("charge_np") else s["charge"]
    if form != "fn":
        conv = {"const": float, "const_np": np.float64, "const_int": lambda v: int(v) if float(v) == int(v) else float(v)}[form]
        return Species(el, charge, Maxwellian(conv(s["n0"]), conv(s["t0"]), Vector3D(*s["v0"]), el.atomic_weight * AMU))

    def dens(x, y, z, n0=s["n0"]):
        return n0 * g_dens(x, y, z)

    def temp(x, y, z, t0=s["t0"]):
        return t0 * g_temp(x, y, z)

    def vel(x, y, z, v0=s["v0"]):
        gv = g_vel(x, y, z)
        return Vector3D(v0[0] * gv, v0[1] * gv, v0[2] * gv)

    return Species(el, charge, Maxwellian(dens, temp, vel, el.atomic_weight * AMU))


def make_bfield(b0, form="fn"):
    if form != "fn":
        return Vector3D(*b0)            # a constant vector, autowrapped by the implementation
    return lambda x, y, z: Vector3D(b0[0] * g_b(x, y, z), b0[1] * g_b(x, y, z), b0[2] * g_b(x, y, z))


def expand(cfg, ev):
    """the single-evaluation case that describes the CURRENT configuration `cfg` for the evaluation `ev`"""
    sps = copy.deepcopy(cfg["species"])
    case = {"kind": ev["kind"], "exact": cfg.get("exact", False), "species": sps, "b0": list(cfg["b0"]),
            "b_form": cfg.get("b_form", "fn"), "plasma_point": list(ev["plasma_point"])}
    for k in ("attach", "bes_ratios", "ls_kwargs", "line_np", "lineshape"):
        if k in cfg:
            case[k] = copy.deepcopy(cfg[k])
    if ev["kind"] == "plasma":
        return case
    case["beam"] = dict(cfg["beam"], dir=list(ev["dir"]))
    case["beam_point"] = list(ev["beam_point"])
    z = ev["beam_point"][2]
    case["beam_class"] = ("att=0" if cfg["beam"]["att0"] == 0 else "z<0" if z < 0 else "z>length" if z > cfg["beam"]["length"]
                          else "z=0" if z == 0 else "z=length" if z == cfg["beam"]["length"] else "inside")
    seed = cfg["prov"]["seed"]
    if ev["kind"] == "bes":
        case["pecs"] = [pec_coeffs(seed, s["el"], s["charge"]) for s in sps]
        return case
    case["line"] = copy.deepcopy(cfg["line"])
    rs = [s for s in sps if s["el"] == cfg["line"]["el"] and s["charge"] == cfg["line"]["charge"] + 1]
    case["receiver_class"] = ("absent" if not rs else "zero density" if rs[0]["n0"] == 0 else
                              "zero temperature" if rs[0]["t0"] == 0 else "present")
    case["rates"] = [{"m": r["m"], "c": list(r["c"]), "pop": [pop_coeffs(seed, r["m"], s["el"], s["charge"]) for s in sps]}
                     for r in cfg["prov"]["rates"]]
    return case


def composition_view(plasma):
    """what the container itself reports: keys in iteration order, len, and whether get / [] return the iterated object"""
    comp = plasma.composition
    items = list(comp)
    keys = [[ELEMENTS.index(sp.element), int(sp.charge)] for sp in items]
    same = all(comp.get(sp.element, sp.charge) is sp and comp[(sp.element, sp.charge)] is sp for sp in items)
    dens0 = [float(sp.distribution.density(0.0, 0.0, 0.0)) for sp in items]
    return {"keys": keys, "len": len(comp), "lookup_returns_member": bool(same), "density_at_origin": dens0}


class Scene:
    """One Plasma + Beam with a live BeamCXLine and a live BeamEmissionLine (attached through beam.models, or
    configured through their constructors).  `cfg` is the harness's own record of the configuration (updated from
    the mutation, never read back from the implementation)."""

    def __init__(self, cfg):
        self.cfg = copy.deepcopy(cfg)
        c = self.cfg
        self.log = []
        self.ne_te = (1.0e19, 100.0)
        self.plasma = self._new_plasma(c.get("species_raw") or c["species"], c.get("comp_form", "list"))
        c.pop("species_raw", None)
        b = c["beam"]
        self.data = HistData(c["prov"], self.log)
        self.beam = build_beam({"beam": b}, self.plasma, self.data, self.log)
        self.attached = c.get("attach", "models") == "models"
        self.cx = make_cx_model(c, c["line"], self.beam, self.plasma, self.data)
        self.bes = make_bes_model(c, b["element"], self.beam, self.plasma, self.data)
        if self.attached:
            self.beam.models = [self.cx, self.bes]

    def _new_plasma(self, raw, form="list"):
        plasma = Plasma()
        plasma.b_field = make_bfield(self.cfg["b0"], self.cfg.get("b_form", "fn"))
        plasma.composition = composition_arg([make_species(s) for s in raw], form)
        plasma.electron_distribution = LogElectrons(self.ne_te[0], self.ne_te[1], self.log)
        return plasma

    def apply(self, step):
        """perform one mutation through the public API and record it in cfg"""
        op, c = step["op"], self.cfg
        comp = self.plasma.composition
        if op == "none":
            return
        if op in ("add_new", "add_existing"):
            s = step["species"]
            keys = [(t["el"], t["charge"]) for t in c["species"]]
            comp.add(make_species(s))
            if (s["el"], s["charge"]) in keys:          # dict semantics: the entry keeps its position
                c["species"][keys.index((s["el"], s["charge"]))] = copy.deepcopy(s)
            else:
                c["species"].append(copy.deepcopy(s))
        elif op in ("assign", "set", "clear_readd", "beam_plasma"):
            raw = step.get("species_raw") or step["species"]
            objs = [make_species(s) for s in raw]
            if op == "assign":
                self.plasma.composition = composition_arg(objs, step.get("comp_form", "list"))
            elif op == "set":
                comp.set(composition_arg(objs, step.get("comp_form", "list")))
            elif op == "clear_readd":
                comp.clear()
                for o in objs:
                    comp.add(o)
            c["species"] = effective_species(raw)
            if op == "beam_plasma":
                # another Plasma object holding the new composition becomes the beam's plasma
                self.plasma = self._new_plasma(raw, step.get("comp_form", "list"))
                self.beam.plasma = self.plasma
                if not self.attached:
                    self.cx.plasma = self.plasma
                    self.bes.plasma = self.plasma
        elif op == "b_field":
            c["b0"], c["b_form"] = list(step["b0"]), step.get("b_form", "fn")
            self.plasma.b_field = make_bfield(c["b0"], c["b_form"])
        elif op == "electron":
            self.ne_te = (step["ne"], step["te"])
            self.plasma.electron_distribution = LogElectrons(step["ne"], step["te"], self.log)
        elif op == "beam_energy":
            self.beam.energy = number_form(step["energy"], step.get("form", "float"))
            c["beam"]["energy"] = step["energy"]
        elif op == "beam_element":
            self.beam.element = ELEMENTS[step["element"]]
            self.bes.line = Line(ELEMENTS[step["element"]], 0, (3, 2))
            c["beam"]["element"] = step["element"]
        elif op == "beam_temperature":
            self.beam.temperature = step["temperature"]
        elif op == "beam_length":
            self.beam.length = number_form(step["length"], step.get("form", "float"))
            c["beam"]["length"] = step["length"]
        elif op == "attenuator":
            self.beam.attenuator = StubAttenuator(step["att0"], self.log)
            c["beam"]["att0"] = step["att0"]
        elif op == "atomic_data":
            self.data = HistData(step["prov"], self.log)
            self.beam.atomic_data = self.data
            if not self.attached:
                self.cx.atomic_data = self.data
                self.bes.atomic_data = self.data
            c["prov"] = copy.deepcopy(step["prov"])
        elif op == "cx_line":
            ln = step["line"]
            self.cx.line = Line(ELEMENTS[ln["el"]], ln["charge"], tuple(ln["transition"]))
            c["line"] = copy.deepcopy(ln)
        elif op == "models_reset":
            if self.attached:
                self.beam.models = [self.bes, self.cx] if step.get("reversed") else [self.cx, self.bes]
        elif op == "reassign_same":
            # the same value / the same objects through the setter again: the configuration does not change
            what = step["what"]
            if what == "energy":
                self.beam.energy = self.beam.energy
            elif what == "element":
                self.beam.element = self.beam.element
            elif what == "length":
                self.beam.length = self.beam.length
            elif what == "composition":
                self.plasma.composition = list(self.plasma.composition)
            elif what == "add_same":
                for sp in list(comp):
                    comp.add(sp)
            elif what == "line":
                ln = c["line"]
                self.cx.line = Line(ELEMENTS[ln["el"]], ln["charge"], tuple(ln["transition"]))
                self.bes.line = self.bes.line
            elif what == "b_field":
                self.plasma.b_field = self.plasma.b_field
            elif what == "atomic_data":
                self.beam.atomic_data = self.data
                if not self.attached:
                    self.cx.atomic_data = self.data
            elif what == "plasma":
                self.beam.plasma = self.plasma
            else:
                raise ValueError(what)
        else:
            raise ValueError(op)

    def evaluate(self, ev):
        """one evaluation on the live objects; returns (case describing the current configuration, out)"""
        case = expand(self.cfg, ev)
        log = self.log
        del log[:]
        Recorder.LOG = log
        px, py, pz = ev["plasma_point"]
        if ev["kind"] == "plasma":
            out = {"error": "", "radiance": 0.0}
            out["nion"] = self.plasma.ion_density(px, py, pz)
            try:
                out["zeff"] = self.plasma.z_effective(px, py, pz)
                out["code"] = 1
            except ValueError as e:
                out["zeff"], out["code"], out["error"] = 0.0, 3, repr(e)
            out["log"] = []
            out["composition"] = composition_view(self.plasma)
            return case, out
        bp, pp = Point3D(*ev["beam_point"]), Point3D(px, py, pz)
        direction, obs = Vector3D(*ev["dir"]), Vector3D(1.0, 0.0, 0.0)
        if ev["kind"] == "cx":
            out = _eval_cx(self.cx, bp, pp, direction, obs, log, self.cfg.get("lineshape") == "default")
        else:
            out = _eval_bes(self.bes, bp, pp, direction, obs, log)
        # rate objects are tagged by (element, charge): translate to the position in the current composition
        keys = [(s["el"], s["charge"]) for s in self.cfg["species"]]
        conv, stale = [], []
        for l in log:
            if l[0] == "pop":
                i = keys.index(l[1][1]) if l[1][1] in keys else -1
                conv.append(("pop", (l[1][0], i), l[2], l[3], l[4], l[5]))
            elif l[0] == "pec":
                i = keys.index(l[1]) if l[1] in keys else -1
                conv.append(("pec", i, l[2], l[3], l[4], l[5]))
            else:
                conv.append(l)
                continue
            if i < 0:
                stale.append(l[1])
        out["log"] = conv
        out["stale_species"] = stale
        out["n_beam"] = self.beam.density(bp.x, bp.y, bp.z)
        return case, out


def composition_ops(step, cfg_before):
    """the composition mutations of one history step in the vocabulary of Model/C05_History.v:
    ("add", s) | ("set", [s, ...]) | ("clear",)"""
    op = step["op"]
    if op in ("add_new", "add_existing"):
        return [("add", step["species"])]
    if op in ("assign", "set", "beam_plasma"):
        return [("set", step.get("species_raw") or step["species"])]
    if op == "clear_readd":
        return [("clear",)] + [("add", s) for s in (step.get("species_raw") or step["species"])]
    if op == "reassign_same" and step["what"] == "composition":
        return [("set", cfg_before["species"])]
    if op == "reassign_same" and step["what"] == "add_same":
        return [("add", s) for s in cfg_before["species"]]
    return []


# ---- behavioural probe: which public mutator clears the caches of live models (coq/Gen/C05/Tie.v) ------------
PROBE_KINDS = {0: "composition.add of a new key", 1: "composition.add of an existing key",
               2: "plasma.composition = [...] and composition.set([...])", 3: "composition.clear()",
               4: "model.line = Line(...)", 5: "beam.atomic_data / model.atomic_data = other provider",
               6: "plasma.b_field = ...", 7: "beam.energy / beam.length / beam.attenuator = ..."}


def probe_notifications():
    """For every mutation kind of Model/C05_History.v and both ways of attaching the models: evaluate both live
    models (caches populated), perform the mutation, evaluate again, and record whether the second evaluation used
    only rate objects created after the mutation (then the cache was cleared) -- {kind: (cx_cleared, bes_cleared)}."""
    sp = lambda el, ch, n: {"el": el, "charge": ch, "n0": n, "t0": 100.0, "v0": [0.0, 0.0, 0.0]}
    prov = lambda seed: {"seed": seed, "rates": [{"m": 2, "c": [SCALE_CX] * 6}, {"m": 1, "c": [2 * SCALE_CX] * 6}]}
    ev = {"plasma_point": [0.5, 0.5, 0.5], "beam_point": [0.0, 0.0, 0.5], "dir": [0.0, 0.0, 1.0]}
    result = {}
    detail = {}
    for kind in sorted(PROBE_KINDS):
        routes = {0: ["add"], 1: ["add"], 2: ["assign", "set"], 3: ["clear"], 4: ["line"], 5: ["provider"], 6: ["b_field"],
                  7: ["energy", "length", "attenuator"]}[kind]
        cleared = [True, True]
        for attach in ("models", "constructor"):
            for route in routes:
                cfg = {"species": [sp(1, 1, 4e19), sp(7, 6, 5e17)], "b0": [0.0, 1.0, 2.0], "attach": attach,
                       "beam": {"energy": 5e4, "length": 1.0, "att0": 1e15, "element": 1},
                       "line": {"el": 7, "charge": 5, "transition": [8, 7]}, "prov": prov(1)}
                sc = Scene(cfg)
                for k in ("cx", "bes"):
                    sc.evaluate(dict(ev, kind=k))
                mark = SERIAL[0]
                if route == "add":
                    step = {"op": "add_new" if kind == 0 else "add_existing", "species": sp(3, 2, 1e18) if kind == 0 else sp(7, 6, 2e17)}
                elif route in ("assign", "set"):
                    step = {"op": route, "species": [sp(7, 6, 3e17), sp(1, 1, 2e19)]}
                elif route == "clear":
                    sc.plasma.composition.clear()
                    sc.cfg["species"] = []
                    step = {"op": "none"}
                elif route == "line":
                    step = {"op": "cx_line", "line": {"el": 1, "charge": 0, "transition": [3, 2]}}
                elif route == "provider":
                    step = {"op": "atomic_data", "prov": prov(2)}
                elif route == "b_field":
                    step = {"op": "b_field", "b0": [1.0, 0.0, 0.0]}
                elif route == "energy":
                    step = {"op": "beam_energy", "energy": 6e4}
                elif route == "length":
                    step = {"op": "beam_length", "length": 2.0}
                else:
                    step = {"op": "attenuator", "att0": 2e15}
                sc.apply(step)
                if route == "line":
                    sc.bes.line = Line(ELEMENTS[1], 0, (3, 2))      # the line setter of the other model
                for j, k in enumerate(("cx", "bes")):
                    _, out = sc.evaluate(dict(ev, kind=k))
                    stale = [l for l in out["log"] if l[0] in ("cx", "pop", "pec") and l[4] <= mark]
                    if stale:
                        cleared[j] = False
                    detail[(kind, attach, route, k)] = {"code": out["code"], "stale_rate_objects": len(stale)}
        result[kind] = tuple(cleared)
    return result, detail


def line_policy_cases():
    """the two `line` setters and BeamEmissionLine._populate_cache on every element of ELEMENTS, several charges and
    transitions, and None: [(is_none, hydrogen family, charge, upper, lower, observed code)], [(beam el, line el, charge, code)]"""
    def code_of(fn):
        try:
            fn()
            return 0
        except ValueError:
            return 3
        except TypeError:
            return 9
    setter, cx_none = [], []
    ok_line = Line(ELEMENTS[1], 0, (3, 2))
    for i, el in enumerate(ELEMENTS):
        fam = el.atomic_number == 1
        for ch in sorted({0, 1, el.atomic_number - 1}):
            if not 0 <= ch <= el.atomic_number - 1:
                continue
            for tr in ((3, 2), (4, 2), (3, 1), (2, 3), (2, 1)):
                ln = Line(el, ch, tr)
                c1 = code_of(lambda: BeamEmissionLine(ln))                       # through the constructor
                m = BeamEmissionLine(ok_line)
                c2 = code_of(lambda: setattr(m, "line", ln))                     # through the setter
                setter.append((False, fam, ch, tr[0], tr[1], c1 if c1 == c2 else 8))
    m = BeamEmissionLine(ok_line)
    setter.append((True, False, 0, 0, 0, code_of(lambda: setattr(m, "line", None))))
    cx = BeamCXLine(Line(ELEMENTS[7], 5, (8, 7)))
    cx_none = [(False, code_of(lambda: setattr(cx, "line", ok_line))), (True, code_of(lambda: setattr(cx, "line", None)))]
    # _populate_cache: beam element against the line's element, on a real scene
    cache = []
    for bi in (0, 1, 2):
        for li in (0, 1, 2):
            case = {"kind": "bes", "species": [{"el": 1, "charge": 1, "n0": 1e19, "t0": 100.0, "v0": [0.0, 0.0, 0.0]}],
                    "b0": [0.0, 1.0, 0.0], "plasma_point": [0.5, 0.5, 0.5], "beam_point": [0.0, 0.0, 0.5],
                    "beam": {"energy": 5e4, "length": 1.0, "att0": 1e15, "dir": [0.0, 0.0, 1.0], "element": bi},
                    "pecs": [[1e-35, 0.0, 0.0, 0.0]]}
            log = []
            plasma = build_plasma(case, log)
            beam = build_beam(case, plasma, StubData(case, log), log)
            model = BeamEmissionLine(Line(ELEMENTS[li], 0, (3, 2)))
            beam.models = [model]
            pt, v = Point3D(0, 0, 0.5), Vector3D(0, 0, 1)
            cache.append((bi, li, 0, code_of(lambda: model.emission(pt, pt, v, Vector3D(1, 0, 0), Spectrum(600, 700, 1)))))
    return setter, cx_none, cache


def run_history(hist, views=None):
    """hist = {"cfg": initial configuration, "steps": [{"op": ..., ..., "evals": [ev, ...]}]};
    returns [(case, out, step index)] for every evaluation.  `views` (a list) receives, per step, the composition
    mutations performed and what the container reports afterwards."""
    scene = Scene(hist["cfg"])
    res = []
    if views is not None:
        views.append(([("set", hist["cfg"].get("species_raw") or hist["cfg"]["species"])], composition_view(scene.plasma)))
    for k, step in enumerate(hist["steps"]):
        before = copy.deepcopy(scene.cfg)
        scene.apply(step)
        if views is not None:
            views.append((composition_ops(step, before), composition_view(scene.plasma)))
        for ev in step["evals"]:
            case, out = scene.evaluate(ev)
            res.append((case, out, k))
    return res


# ---- the property itself, evaluated on what the implementation did (failing-input search) -----------
def _close(a, b, rel=1e-9):
    return abs(a - b) <= rel * max(abs(a), abs(b)) + 1e-300


def property_failures(case, out, k4pi, e_charge, amu):
    """Executable statement of C05 on the real implementation's behaviour for one case.
    Independent of the Coq model: plain double arithmetic, tolerance 1e-9."""
    fails = []
    kind = case["kind"]
    sp = species_at(case)
    ions = [s for s in sp if s[1] >= 1]
    if kind == "plasma":
        nion = sum(s[2] for s in sp)
        if not _close(out["nion"], nion):
            fails.append("ion_density is not the sum of the species densities: %r vs %r" % (out["nion"], nion))
        nz = sum(s[2] * s[1] for s in ions)
        nz2 = sum(s[2] * s[1] ** 2 for s in ions)
        if nz2 > 0:
            if out["code"] != 1 or not _close(out["zeff"], nz2 / nz):
                fails.append("z_effective is not sum n Z^2 / sum n Z: %r vs %r" % (out.get("zeff"), nz2 / nz))
            elif not (min(s[1] for s in ions if s[2] > 0) - 1e-9 <= out["zeff"] <= max(s[1] for s in ions if s[2] > 0) + 1e-9):
                fails.append("z_effective outside [min charge, max charge]")
        elif out["code"] != 3:
            fails.append("z_effective of a plasma without ions did not raise ValueError")
        return fails
    b = case["beam"]
    nb = out["n_beam"]
    dlen = math.sqrt(sum(c * c for c in b["dir"]))
    speed = math.sqrt(2 * b["energy"] * e_charge / amu)
    bv = tuple(c / dlen * speed for c in b["dir"])

    def e_int(v):
        return 0.5 * sum((bv[i] - v[i]) ** 2 for i in range(3)) * amu / e_charge

    dsum = sum(s[1] ** 2 * s[2] for s in sp)
    log = out["log"]
    if kind in ("bes", "mse"):
        if kind == "mse":
            cum = out.get("cumulative", [])
            if any(cum[i + 1] < cum[i] * (1 - 1e-9) for i in range(len(cum) - 1)):
                fails.append("Stark multiplet: integrals over nested windows decrease: %r" % (cum,))
        if nb == 0.0:
            if out["code"] not in (0, 1) or out["radiance"] != 0.0:
                fails.append("beam emission does not vanish where the beam density is zero (radiance %r, %s)"
                             % (out["radiance"], out["error"]))
            return fails
        if out["code"] != 1:
            fails.append("beam emission: nothing emitted / error although the beam density is %r (code %r %s)"
                         % (nb, out["code"], out["error"]))
            return fails
        total = 0.0
        for i, s in enumerate(sp):
            if s[1] >= 1:
                total += s[1] * s[2] * aff3(case["pecs"][i], e_int(s[4]), dsum / s[1], s[3])
        want = k4pi * nb * total
        if not _close(out["radiance"], want):
            fails.append("beam-emission total %r is not (1/4pi) n_beam sum_i Z_i n_i q_i(E_i, sum_j Z_j^2 n_j / Z_i, T_i) = %r"
                         % (out["radiance"], want))
        for l in log:
            if l[0] == "pec":
                s = sp[l[1]]
                wa = (e_int(s[4]), dsum / s[1], s[3])
                if not all(_close(a, w) for a, w in zip(l[2], wa)):
                    fails.append("BeamEmissionPEC of species %d evaluated at %r, expected %r" % (l[1], l[2], wa))
                    break
        return fails
    # ---- cx ----
    ln = case["line"]
    rs = [s for s in sp if s[0] == ln["el"] and s[1] == ln["charge"] + 1]
    if not rs:
        if out["code"] != 2:
            fails.append("line whose receiver ion is not in the plasma did not raise RuntimeError (code %r)" % out["code"])
        return fails
    rs = rs[0]
    if nb == 0.0 or rs[2] == 0.0:
        if out["code"] not in (0, 1) or out["radiance"] != 0.0:
            fails.append("CX emission does not vanish where the beam or receiver density is zero "
                         "(n_beam %r, n_receiver %r, radiance %r, %s)" % (nb, rs[2], out["radiance"], out["error"]))
        return fails
    if rs[3] == 0.0:
        return fails          # zero receiver temperature: the code returns early; the property says nothing
    if out["code"] != 1:
        fails.append("CX: nothing emitted / error although beam density %r, receiver density %r and temperature %r are "
                     "non-zero (code %r %s)" % (nb, rs[2], rs[3], out["code"], out["error"]))
        return fails
    nion = sum(s[2] for s in sp)
    zeff = sum(s[2] * s[1] ** 2 for s in ions) / sum(s[2] * s[1] for s in ions)
    bf = bfield_at(case)
    want_args = (e_int(rs[4]), rs[3], nion, zeff, math.sqrt(sum(c * c for c in bf)))
    names = ("interaction energy", "receiver temperature", "total ion density", "Z-effective", "|B|")
    qs = {}
    for l in log:
        if l[0] == "cx":
            qs[l[1]] = l[3]
            for a, w, nm in zip(l[2], want_args, names):
                if not _close(a, w):
                    fails.append("BeamCXPEC (metastable %d) received %s = %r, expected %r" % (l[1], nm, a, w))
            if fails:
                return fails
    ms = sorted(r["m"] for r in case["rates"])
    if sorted(qs) != ms:
        fails.append("coefficients evaluated for metastables %r, provider supplied %r" % (sorted(qs), ms))
        return fails
    for l in log:
        if l[0] == "pop":
            s_ = sp[l[1][1]]
            wa = (e_int(s_[4]), dsum / s_[1], s_[3])
            if not all(_close(a, w) for a, w in zip(l[2], wa)):
                fails.append("BeamPopulationRate (metastable %d) of species %d evaluated at %r, expected "
                             "(E_int, sum_j Z_j^2 n_j / Z_i, T_i) = %r" % (l[1][0], l[1][1], l[2], wa))
                return fails
    # population-weighted mean from the property text
    num, den = qs[1], 1.0
    tot_ne = sum(s[2] * s[1] for s in ions)
    for r in case["rates"]:
        if r["m"] == 1:
            continue
        k = sum(s[2] * s[1] * aff3(r["pop"][i], e_int(s[4]), dsum / s[1], s[3]) for i, s in enumerate(sp) if s[1] >= 1) / tot_ne
        num += k * qs[r["m"]]
        den += k
    q = num / den
    want = k4pi * nb * rs[2] * q
    if not _close(out["radiance"], want):
        fails.append("CX radiance %r is not (1/4pi) n_beam n_receiver q = %r (q = population-weighted mean %r)"
                     % (out["radiance"], want, q))
    q_impl = out["radiance"] / (k4pi * nb * rs[2])
    lo, hi = min(qs.values()), max(qs.values())
    if want > 1e-280 and not (lo * (1 - 1e-9) <= q_impl <= hi * (1 + 1e-9)):
        fails.append("composite coefficient %r outside [%r, %r] of the individual coefficients" % (q_impl, lo, hi))
    if out.get("line_point") is not None and tuple(out["line_point"]) != tuple(case["plasma_point"]):
        fails.append("line shape rendered at %r instead of the plasma point" % (out["line_point"],))
    return fails
