"""C18 -- Laser profiles integrate to the pulse energy and track their parameters.

Theorems: coq/Properties/C18.v (all radii/lengths, all bin counts, all setter histories).
Tie: correspondence -- random setter histories are run on real UniformEnergyDensity,
ConstantBivariateGaussian, TrivariateGaussian, GaussianBeamAxisymmetric (attached to a real Laser
node), ConstantSpectrum and GaussianSpectrum objects; results of every call, reported parameters,
energy density at probe points, polarisation, the Laser node's cylinders, the binned spectrum and
the spectrum's values are compared inside Coq (vm_compute) with the model (Model/C18_*.v).
Search: the executable statement of the property on the implementation (harness/c18_search.py).
"""
import math
import os
import re
import sys

from common import (qlit, qlist, zlit, zlist, dyadic, coqc, coqc_many, parse_evals, REPO)
import c18_search as S
import c18_audit as A
import c18_translate as T

THEOREMS = ["C18_segments_tile", "C18_segments_cover_exactly_once",
            "C18_profile_constructor_reports_arguments", "C18_profile_history_independent",
            "C18_uniform_tracks_parameter", "C18_bivariate_is_product_of_normal_densities",
            "C18_beam_is_product_of_normal_densities", "C18_trivariate_is_product_of_normal_densities",
            "C18_cross_section_integral_partial", "C18_trivariate_volume_integral_partial",
            "C18_spectrum_history_independent", "C18_spectrum_accessors_report_parameters",
            "C18_wavelength_centres", "C18_gaussian_bin_power_is_cdf_difference",
            "C18_gaussian_power_telescopes", "C18_constant_bin_power", "C18_constant_power_sums_to_one",
            "C18_beam_rejected_setter_leaves_stale_parameter",
            "C18_node_segments_tile_after_any_history", "C18_energy_density_after_any_history",
            "C18_integrals_after_any_history_partial", "C18_polarisation_is_normalised",
            "C18_constant_bin_power_is_integral_of_density", "C18_spectrum_after_any_history",
            "C18_double_evaluator_at_identity_is_the_model", "C18_shared_profile_nodes_agree"]
# coq/Properties/C18_Real.v: the conjunction of C18_normal_density_integrates_real, C18_normal_density_tail_real,
# C18_bivariate_cross_section_real, C18_beam_cross_section_real, C18_trivariate_volume_real (one Print Assumptions instead of five:
# each costs about 8 s through Interval)
THEOREMS_REAL = ["C18_integrals_over_the_reals"]

KINDS = ["KUniform", "KBiv", "KTri", "KBeam"]
FIELDS = ["Fed", "Fpe", "Fpl", "Fsx", "Fsy", "Fsz", "Fmz", "Fwz", "Fsw", "Fwl", "Frad", "Flen"]
ATTR = {"Fed": "energy_density", "Fpe": "pulse_energy", "Fpl": "pulse_length", "Fsx": "stddev_x", "Fsy": "stddev_y",
        "Fsz": "stddev_z", "Fmz": "mean_z", "Fwz": "waist_z", "Fsw": "stddev_waist", "Fwl": "laser_wavelength",
        "Frad": "laser_radius", "Flen": "laser_length"}
KIND_FIELDS = {"KUniform": ["Fed", "Frad", "Flen"],
               "KBiv": ["Fpe", "Fpl", "Fsx", "Fsy", "Frad", "Flen"],
               "KTri": ["Fpe", "Fpl", "Fsx", "Fsy", "Fmz", "Frad", "Flen"],
               "KBeam": ["Fpe", "Fpl", "Fwz", "Fsw", "Fwl", "Frad", "Flen"]}
UNGUARDED = {("KTri", "Fmz"), ("KBeam", "Fwz"), ("KBeam", "Fsw"), ("KBeam", "Fwl")}
CLASSNAME = {"KUniform": "UniformEnergyDensity", "KBiv": "ConstantBivariateGaussian", "KTri": "TrivariateGaussian",
             "KBeam": "GaussianBeamAxisymmetric"}


def speed_of_light():
    """read SPEED_OF_LIGHT from the source the extensions were built from (fail closed)"""
    txt = open(os.path.join(REPO, "cherab/core/utility/constants.pyx")).read()
    m = re.findall(r"^\s*double\s+SPEED_OF_LIGHT\s*=\s*([0-9.eE+-]+)\s*$", txt, re.M)
    assert len(m) == 1, "cannot find SPEED_OF_LIGHT in constants.pyx"
    return float(m[0])


# ---------------------------------------------------------------------------------------------
# generators
# ---------------------------------------------------------------------------------------------
def gen_value(rng, f, exact):
    """a valid value for field f"""
    if exact:
        return {"Fed": lambda: dyadic(rng, 0.25, 8, 3), "Fpe": lambda: dyadic(rng, 0.25, 8, 3),
                "Fpl": lambda: 2.0 ** -rng.randint(24, 30) * rng.randint(1, 7),
                "Fsx": lambda: dyadic(rng, 1 / 256, 1 / 16, 10), "Fsy": lambda: dyadic(rng, 1 / 256, 1 / 16, 10),
                "Fmz": lambda: dyadic(rng, -1, 2, 4), "Fwz": lambda: dyadic(rng, -1, 2, 4),
                "Fsw": lambda: dyadic(rng, 1 / 1024, 1 / 32, 12), "Fwl": lambda: float(rng.randint(300, 1500)),
                "Frad": lambda: 2.0 ** -rng.randint(2, 7), "Flen": lambda: dyadic(rng, 1 / 64, 4, 6),
                "Fsz": lambda: 1.0}[f]()
    return {"Fed": lambda: rng.uniform(0.1, 10), "Fpe": lambda: rng.uniform(0.1, 10),
            "Fpl": lambda: rng.uniform(1e-9, 3e-8),
            "Fsx": lambda: rng.uniform(0.002, 0.05), "Fsy": lambda: rng.uniform(0.002, 0.05),
            "Fmz": lambda: rng.uniform(-1, 2), "Fwz": lambda: rng.uniform(-1, 2),
            "Fsw": lambda: rng.uniform(0.0005, 0.02), "Fwl": lambda: rng.uniform(300, 1500),
            "Frad": lambda: rng.uniform(0.004, 0.2), "Flen": lambda: gen_length(rng),
            "Fsz": lambda: 1.0}[f]()


def gen_length(rng):
    return rng.choice([rng.uniform(0.005, 0.05), rng.uniform(0.05, 0.5), rng.uniform(0.5, 4.0)])


def gen_vec(rng):
    t = rng.random()
    if t < 0.3:
        v = [0.0, 0.0, 0.0]
        v[rng.randint(0, 2)] = rng.choice([1.0, -1.0, 2.0, 0.5])
        return tuple(v)
    if t < 0.6:
        return tuple(float(rng.randint(-4, 4)) or 1.0 for _ in range(3))
    return tuple(rng.uniform(-1, 1) for _ in range(3))


def gen_radius_length(rng, exact):
    """boundary classes of generate_segmented_cylinder"""
    cls = rng.choice(["short", "one", "two", "multiple", "many", "free"])
    r = 2.0 ** -rng.randint(2, 7) if exact else rng.uniform(0.004, 0.2)
    if cls == "short":          # length < 2 radius: n = 0
        L = r * (dyadic(rng, 1 / 16, 31 / 16, 4) if exact else rng.uniform(0.05, 1.99))
    elif cls == "one":          # 2r <= L < 4r: n = 1
        L = r * (dyadic(rng, 2, 63 / 16, 4) if exact else rng.uniform(2.0, 3.99))
    elif cls == "two":          # n = 2: smallest segmented case
        L = r * (dyadic(rng, 4, 95 / 16, 4) if exact else rng.uniform(4.0, 5.99))
    elif cls == "multiple":     # L is an exact multiple of 2r
        L = 2 * r * rng.randint(1, 40)
    elif cls == "many":
        L = r * rng.uniform(50, 400)
    else:
        L = gen_length(rng)
    return r, L, cls


def gen_profile_case(rng, kind, exact, forced_op=None):
    flds = KIND_FIELDS[kind]
    args = {f: 0.0 for f in FIELDS}
    for f in flds:
        args[f] = gen_value(rng, f, exact)
    args["Frad"], args["Flen"], cls = gen_radius_length(rng, exact)
    pol = gen_vec(rng)
    bad_ctor = forced_op is None and rng.random() < 0.04
    if bad_ctor:
        f = rng.choice(flds)
        args[f] = rng.choice([0.0, -args[f] if args[f] else -1.0])
    ops = []
    if forced_op is not None:
        ops = [forced_op]
    else:
        n = rng.choice([0, 1, 1, 2, 3, 4, 5, 6, 8])
        for _ in range(n):
            t = rng.random()
            if t < 0.02:
                ops.append(("bad", rng.choice(FIELDS + [None]), rng.randrange(4)))      # a value of a rejected type
            elif t < 0.12:
                ops.append(("pol", gen_vec(rng)))
            elif t < 0.15:
                ops.append(("set", rng.choice([f for f in FIELDS if f not in flds]), 1.5))      # no such attribute
            elif t < 0.27:
                f = rng.choice(flds)
                ops.append(("set", f, rng.choice([0.0, -1.0, -gen_value(rng, f, exact)])))       # rejected (or unguarded) value
            elif t < 0.45:
                r, L, _ = gen_radius_length(rng, exact)
                ops.append(("set", "Frad", r))
                ops.append(("set", "Flen", L))
            else:
                f = rng.choice(flds)
                ops.append(("set", f, gen_value(rng, f, exact)))
    return {"type": "profile", "kind": kind, "args": args, "pol": pol, "ops": ops, "exact": exact, "geom_class": cls}


def gen_spectrum_case(rng, kind, exact, quick, forced_op=None):
    def rng_range():
        if exact:
            lo = float(rng.randint(200, 1400))
            w = rng.choice([0.5, 1.0, 2.0, 8.0, 32.0, 100.0])
        else:
            lo = rng.uniform(200, 1400)
            w = rng.choice([0.2, 1, 10, 100]) * rng.uniform(0.5, 1.5)
        return lo, lo + w

    def bins():
        return rng.choice([1, 1, 2, 3, 4, 5, 7, 8, 10, 16, rng.randint(1, 24 if quick else 60)])

    lo, hi = rng_range()
    a = {"min": lo, "max": hi, "bins": bins(), "mean": 0.0, "std": 0.0}

    def mean_std(lo, hi):
        w = hi - lo
        m = lo + w * (dyadic(rng, -1 / 4, 5 / 4, 4) if exact else rng.uniform(-0.25, 1.25))
        s = w * (2.0 ** -rng.randint(1, 5) if exact else rng.uniform(0.03, 0.6))
        return m, s
    if kind == "SGauss":
        a["mean"], a["std"] = mean_std(lo, hi)
    bad_ctor = forced_op is None and rng.random() < 0.05
    if bad_ctor:
        t = rng.choice(["swap", "neg", "bins"] + (["std", "mean"] if kind == "SGauss" else []))
        if t == "swap":
            a["min"], a["max"] = a["max"], a["min"]
        elif t == "neg":
            a["min"] = -a["min"]
        elif t == "bins":
            a["bins"] = rng.choice([0, -3])
        elif t == "std":
            a["std"] = rng.choice([0.0, -a["std"]])
        else:
            a["mean"] = rng.choice([0.0, -a["mean"]])
    ops = []
    if forced_op is not None:
        ops = [forced_op]
    else:
        cur_lo, cur_hi = a["min"], a["max"]
        n = rng.choice([0, 1, 1, 2, 3, 4, 5, 6])
        for _ in range(n):
            t = rng.random()
            if t < 0.02:
                ops.append(("bad", rng.choice(["min", "max", "bins", "mean", "std"]), rng.randrange(4)))
            elif t < 0.2:
                v = cur_lo + (cur_hi - cur_lo) * (dyadic(rng, -1, 3 / 4, 3) if exact else rng.uniform(-1, 0.8))
                ops.append(("min", v))
                if 0 < v < cur_hi:
                    cur_lo = v
            elif t < 0.4:
                v = cur_hi + (cur_hi - cur_lo) * (dyadic(rng, -3 / 4, 1, 3) if exact else rng.uniform(-0.8, 1))
                ops.append(("max", v))
                if v > cur_lo:
                    cur_hi = v
            elif t < 0.55:
                ops.append(("bins", bins()))
            elif t < 0.75:
                ops.append(("mean", mean_std(cur_lo, cur_hi)[0]))
            elif t < 0.9:
                ops.append(("std", mean_std(cur_lo, cur_hi)[1]))
            else:   # rejected values
                ops.append(rng.choice([("min", cur_hi + 1.0), ("max", cur_lo), ("min", -5.0), ("max", 0.0), ("bins", 0),
                                       ("bins", -2), ("mean", 0.0), ("mean", -1.0), ("std", 0.0), ("std", -0.5)]))
    return {"type": "spectrum", "kind": kind, "args": a, "ops": ops, "exact": exact}


# ---------------------------------------------------------------------------------------------
# running the implementation
# ---------------------------------------------------------------------------------------------
def err_code(e):
    if isinstance(e, ValueError):
        return 1
    if isinstance(e, AttributeError):
        return 2
    if isinstance(e, ZeroDivisionError):
        return 3
    if isinstance(e, TypeError):
        return 4
    raise e


CTOR_KW = {"KUniform": [("energy_density", "Fed"), ("laser_length", "Flen"), ("laser_radius", "Frad")],
           "KBiv": [("pulse_energy", "Fpe"), ("pulse_length", "Fpl"), ("laser_radius", "Frad"), ("laser_length", "Flen"),
                    ("stddev_x", "Fsx"), ("stddev_y", "Fsy")],
           "KTri": [("pulse_energy", "Fpe"), ("pulse_length", "Fpl"), ("mean_z", "Fmz"), ("laser_length", "Flen"),
                    ("laser_radius", "Frad"), ("stddev_x", "Fsx"), ("stddev_y", "Fsy")],
           "KBeam": [("pulse_energy", "Fpe"), ("pulse_length", "Fpl"), ("laser_length", "Flen"), ("laser_radius", "Frad"),
                     ("waist_z", "Fwz"), ("stddev_waist", "Fsw"), ("laser_wavelength", "Fwl")]}      # documented positional order


SIGNATURE = {}


def make_profile(L, kind, args, pol, form="kw", omit=(), wrap_form=None):
    """Class(...) called with keywords, positionally (documented order) or with some arguments left to their defaults"""
    from raysect.optical import Vector3D
    cls = getattr(L, CLASSNAME[kind])
    sig = SIGNATURE.get(kind) or CTOR_KW[kind]          # parameter order read from the current source (c18_translate)
    vals = [(kw, A.wrap(args[f], wrap_form)) for kw, f in sig]
    if form == "positional":
        return cls(*[v for _, v in vals], Vector3D(*pol))
    kwargs = {kw: v for (kw, v), (_, f) in zip(vals, sig) if f not in omit}
    if "pol" not in omit:
        kwargs["polarization"] = Vector3D(*pol)
    return cls(**kwargs)


def exp_arg_float(kind, rep, c, x, y, z):
    """the argument of exp as the implementation computes it in doubles (validated in Coq against the
    model's exact argument before the oracle value is used)"""
    if kind == "KBiv":
        kx = -1 / (2 * rep["Fsx"] ** 2)
        ky = -1 / (2 * rep["Fsy"] ** 2)
        return x ** 2 * kx + y ** 2 * ky
    if kind == "KTri":
        sz = rep["Fpl"] * c
        kx = -1 / (2 * rep["Fsx"] ** 2)
        ky = -1 / (2 * rep["Fsy"] ** 2)
        kz = -1 / (2 * sz ** 2)
        return x ** 2 * kx + y ** 2 * ky + (z - rep["Fmz"]) ** 2 * kz
    if kind == "KBeam":
        if not (rep["Fsw"] > 0 and rep["Fwl"] > 0):
            assert x == 0.0 and y == 0.0
            return 0.0
        sw2 = rep["Fsw"] ** 2
        zr = 2 * math.pi * 1 * sw2 / rep["Fwl"] / 1e-9
        v = sw2 * (1 + ((z - rep["Fwz"]) / zr) ** 2)
        return (x ** 2 + y ** 2) / (-2 * v)
    return 0.0


def probe_points(rng, kind, rep, c):
    pts = []
    if kind == "KUniform":
        return [(0.0, 0.0, 0.0), (rng.uniform(-1, 1), rng.uniform(-1, 1), rng.uniform(-1, 5))]
    if kind == "KBeam" and not (rep["Fsw"] > 0 and rep["Fwl"] > 0):
        # a rejected stddev_waist / laser_wavelength is kept by the object while the old function stays installed:
        # only on-axis points (exp argument 0) can be probed without knowing the old parameters
        return [(0.0, 0.0, rep["Fwz"]), (0.0, 0.0, rng.uniform(-5, 5)), (0.0, 0.0, 0.0)]
    if kind in ("KBiv", "KTri"):
        sx, sy = rep["Fsx"], rep["Fsy"]
    else:
        sx = sy = abs(rep["Fsw"]) or 1.0
    if not (sx > 0 and sy > 0):
        sx = sy = 0.01
    if kind == "KTri":
        sz = rep["Fpl"] * c
        zs = [rep["Fmz"], rep["Fmz"] + rng.uniform(-2, 2) * sz, rng.uniform(0, 2)]
    elif kind == "KBeam":
        zs = [rep["Fwz"], rep["Fwz"] + rng.uniform(-10, 10), rng.uniform(0, 2)]
    else:
        zs = [0.0, rng.uniform(-1, 3), rng.uniform(0, 2)]
    pts.append((0.0, 0.0, zs[0]))
    pts.append((rng.uniform(-3, 3) * sx, rng.uniform(-3, 3) * sy, zs[1]))
    pts.append((dyadic(rng, -2, 2, 3) * sx, 0.0, zs[2]))
    return pts


def observe_profile(obj, laser, kind, rng, c):
    obs = {"ctor_ok": True}
    rep = {f: float(getattr(obj, ATTR[f])) for f in KIND_FIELDS[kind]}
    obs["rep"] = rep
    probes = []
    for (x, y, z) in probe_points(rng, kind, rep, c):
        arg = exp_arg_float(kind, rep, c, x, y, z)
        ev = math.exp(arg)
        probes.append(((x, y, z), arg, ev, float(obj.get_energy_density(x, y, z))))
    obs["probes"] = probes
    pv = obj.get_polarization(0.0, 0.0, 0.0)
    obs["polv"] = (pv.x, pv.y, pv.z)
    g = laser.get_geometry()
    obs["radii"] = [float(cyl.radius) for cyl in g]
    obs["segs"] = [(float(cyl.transform[2, 3]), float(cyl.height)) for cyl in g]
    n = len(g)
    obs["seg_sample"] = sorted(set([0, 1, n - 1] + [rng.randrange(n) for _ in range(3)]) & set(range(n))) if n else []
    obs["offdiag"] = max([abs(float(cyl.transform[i, j]) - (1.0 if i == j else 0.0))
                          for cyl in g for i in range(4) for j in range(4) if not (i == 2 and j == 3)] or [0.0])
    obs["parents_ok"] = all(cyl.parent is laser for cyl in g) and len(laser.children) == len(g)
    pt = obj.get_pointing(0.1, 0.2, 0.3)
    obs["pointing"] = (pt.x, pt.y, pt.z)
    return obs


def run_profile_case(L, case, rng, c, ctx, stats):
    """Runs one history on ONE live object.  Returns (records, obj, laser, step_fails): records = [(case variant with
    the calls resolved to plain values, observations)], the last one for the complete history, earlier ones for the
    observations made on the same object in the middle of the history."""
    from raysect.optical import World, Vector3D
    from cherab.core.laser import Laser
    kind = case["kind"]
    ctx.crumb({"case": case})
    try:
        obj = make_profile(L, kind, case["args"], case["pol"], case.get("ctor_form", "kw"), case.get("omit", ()), case.get("ctor_wrap"))
    except (ValueError, ZeroDivisionError):
        return [(dict(case, ops=[]), {"ctor_ok": False})], None, None, []
    laser = Laser(parent=World())
    laser.laser_profile = obj
    res, resolved, records, step_fails = [], [], [], []
    pol_cur = case["pol"]
    mids = set(case.get("mid", ()))
    for i, op in enumerate(case["ops"]):
        if i in mids:
            obs = observe_profile(obj, laser, kind, rng, c)
            obs["res"] = list(res)
            records.append((dict(case, ops=list(resolved), observed_mid_history=i), obs))
            stats["mid_history_observations"] += 1
        try:
            if op[0] == "pol":
                rop = ("pol", tuple(op[1]))
                obj.set_polarization(Vector3D(*op[1]))
                pol_cur = tuple(op[1])
            elif op[0] == "attach":
                rop = ("attach",)
                laser.laser_profile = obj
            elif op[0] == "bad":                      # a value of a type the API rejects: the expected outcome is TypeError
                rop = ("bad", op[1])
                if op[1] is None:
                    # never None: set_polarization(None) crashes the interpreter on the unchanged tree (typed argument
                    # `Vector3D value` admits None, value.normalise() then dereferences it) -- reported, not exercised
                    obj.set_polarization([(0.0, 1.0, 0.0), "3", [1.0], "abc"][op[2]])
                else:
                    setattr(obj, ATTR[op[1]], BAD_VALUES[op[2]])
            else:
                f = op[1]
                if op[0] == "same":
                    v = float(getattr(obj, ATTR[f])) if f in KIND_FIELDS[kind] else 1.5
                    form = None
                elif op[0] == "copy":                 # the current value of ANOTHER attribute
                    v = float(getattr(obj, ATTR[op[2]])) if op[2] in KIND_FIELDS[kind] else 1.5
                    form = None
                else:
                    v, form = float(op[2]), (op[3] if len(op) > 3 else None)
                rop = ("set", f, v)
                setattr(obj, ATTR[f], A.wrap(v, form))
                got = float(getattr(obj, ATTR[f]))
                if got != v and not (got != got and v != v) and not step_fails:
                    step_fails.append({"key": "c18:setter-ignored:%s.%s" % (CLASSNAME[kind], ATTR[f]),
                                       "claim": "%s: `obj.%s = %r` was accepted without an exception but the property reports %r afterwards"
                                                % (CLASSNAME[kind], ATTR[f], v, got), "case": dict(case, ops=list(resolved) + [rop])})
            res.append(0)
        except (ValueError, AttributeError, ZeroDivisionError, TypeError) as e:
            res.append(err_code(e))
        resolved.append(rop)
        # every step: the live object against a freshly built one (cheap, on the implementation only)
        fl = S.step_check_profile(L, kind, obj, laser, pol_cur, dict(case, ops=list(resolved)), stats)
        if fl and not step_fails:
            step_fails.append(fl)
    obs = observe_profile(obj, laser, kind, rng, c)
    obs["res"] = res
    records.append((dict(case, ops=resolved), obs))
    return records, obj, laser, step_fails


def spectrum_float_edges(lo, hi, bins):
    delta = (hi - lo) / bins
    wl0 = lo + (0.5 + 0) * delta
    e = [wl0 - delta * 0.5]
    for _ in range(bins):
        e.append(e[-1] + delta)
    return delta, e


BAD_VALUES = ["3", None, [1.0], "abc"]
SNAMES = {"min": "min_wavelength", "max": "max_wavelength", "bins": "bins", "mean": "mean", "std": "stddev"}


def observe_spectrum(obj, kind, rng):
    obs = {"ctor_ok": True}
    lo, hi = float(obj.min_wavelength), float(obj.max_wavelength)
    rep = [lo, hi, float(obj.get_min_wavelenth()), float(obj.get_max_wavelenth())]
    if kind == "SGauss":
        rep += [float(obj.mean), float(obj.stddev)]
    obs["rep"] = rep
    obs["zrep"] = [int(obj.bins), int(obj.get_spectral_bins())]
    obs["deltas"] = [float(obj.delta_wavelength), float(obj.get_delta_wavelength())]
    obs["wl"] = [float(v) for v in obj.wavelengths]
    obs["psd"] = [float(v) for v in obj.power_spectral_density]
    bins = obs["zrep"][0]
    delta, edges = spectrum_float_edges(lo, hi, bins)
    tbl = []
    if kind == "SGauss":
        mean, std = rep[4], rep[5]
        ncdf = 1 / (std * math.sqrt(2.0))
        for e in edges:
            arg = (e - mean) * ncdf
            tbl.append((arg, math.erf(arg)))
    obs["tbl"] = tbl
    obs["slack"] = 2.0 ** -44 * hi / (rep[5] * math.sqrt(2.0)) if kind == "SGauss" else 0.0
    obs["edges"] = edges
    xs = [lo, hi, 0.5 * (lo + hi), lo + rng.uniform(-0.2, 1.2) * (hi - lo), math.nextafter(lo, 0.0), math.nextafter(hi, math.inf)]
    evals = []
    for x in xs:
        if kind == "SGauss":
            t = (x - rep[4]) * (1 / rep[5])
            arg = -0.5 * (t * t)                 # t * t: inf instead of OverflowError, like the C code
            ev = math.exp(arg)
        else:
            arg, ev = 0.0, 0.0
        evals.append((x, arg, ev, float(obj(x))))
    obs["evals"] = evals
    obs["calls"] = []
    if kind == "SConst":       # the cpdef method called directly: a bin, intervals that overlap the range partly, cover it, miss it
        w = hi - lo
        for a_, b_ in [(edges[0], edges[1]), (lo - 0.5 * w, lo + 0.25 * w), (hi - 0.125 * w, hi + w), (lo - w, hi + w), (hi + 0.5 * w, hi + w)]:
            if b_ - a_ > 1e-280 and w > 1e-280:
                obs["calls"].append((a_, b_, float(obj._get_bin_power_spectral_density(a_, b_))))
    return obs


def run_spectrum_case(L, case, rng, ctx, stats):
    kind = case["kind"]
    a = case["args"]
    ctx.crumb({"case": case})
    w = case.get("ctor_wrap")
    try:
        if kind == "SConst":
            obj = L.ConstantSpectrum(A.wrap(a["min"], w), A.wrap(a["max"], w), a["bins"])
        else:
            obj = L.GaussianSpectrum(A.wrap(a["min"], w), A.wrap(a["max"], w), a["bins"], A.wrap(a["mean"], w), A.wrap(a["std"], w))
    except ValueError:
        return [(dict(case, ops=[]), {"ctor_ok": False})], None, []
    res, resolved, records, step_fails = [], [], [], []
    mids = set(case.get("mid", ()))
    for i, op in enumerate(case["ops"]):
        if i in mids:
            obs = observe_spectrum(obj, kind, rng)
            obs["res"] = list(res)
            records.append((dict(case, ops=list(resolved), observed_mid_history=i), obs))
            stats["mid_history_observations"] += 1
        name = op[1] if op[0] in ("same", "bad") else op[0]
        try:
            if op[0] == "bad":
                rop = ("bad", name)
                setattr(obj, SNAMES[name], BAD_VALUES[op[2]])
                raise AssertionError("%s.%s accepted %r" % (kind, name, BAD_VALUES[op[2]]))
            if op[0] == "same":
                v = getattr(obj, SNAMES[name]) if (kind == "SGauss" or name not in ("mean", "std")) else 1.5
                form = None
            else:
                v, form = op[1], (op[2] if len(op) > 2 else None)
            v = int(v) if name == "bins" else float(v)
            rop = (name, v)
            setattr(obj, SNAMES[name], A.wrap(v, form) if form else v)
            got = getattr(obj, SNAMES[name])
            if float(got) != float(v) and not step_fails:
                step_fails.append({"key": "c18:setter-ignored:%s.%s" % (kind, SNAMES[name]),
                                   "claim": "%s: `obj.%s = %r` was accepted without an exception but the property reports %r afterwards"
                                            % (kind, SNAMES[name], v, got), "case": dict(case, ops=list(resolved) + [rop])})
            res.append(0)
        except (ValueError, AttributeError, TypeError) as e:
            res.append(err_code(e))
        resolved.append(rop)
        fl = S.step_check_spectrum(L, kind, obj, dict(case, ops=list(resolved)), stats)
        if fl and not step_fails:
            step_fails.append(fl)
    obs = observe_spectrum(obj, kind, rng)
    obs["res"] = res
    records.append((dict(case, ops=resolved), obs))
    return records, obj, step_fails


def gen_nodes_case(rng, kind):
    """several Laser nodes share one profile: profile calls, further nodes attaching, nodes getting another profile"""
    cs = gen_profile_case(rng, kind, False, forced_op=("pol", (0.0, 1.0, 0.0)))
    ops, n_extra = [], 0
    for _ in range(rng.randint(3, 8)):
        t = rng.random()
        if t < 0.3:
            ops.append(("node",))
            n_extra += 1
        elif t < 0.4 and n_extra:
            ops.append(("replace", rng.randrange(n_extra)))
            n_extra -= 1
        elif t < 0.8:
            r, L, _ = gen_radius_length(rng, False)
            ops.append(("op", rng.choice([("set", "Frad", r), ("set", "Flen", L), ("set", "Flen", -L), ("set", "Frad", 0.0)])))
        else:
            f = rng.choice(KIND_FIELDS[kind])
            ops.append(("op", rng.choice([("set", f, gen_value(rng, f, False)), ("attach",), ("pol", gen_vec(rng))])))
    return {"type": "nodes", "kind": kind, "args": cs["args"], "pol": cs["pol"], "ops": ops, "audit": "shared-profile-nodes"}


def run_nodes_case(L, case, rng, ctx, stats):
    from raysect.optical import World, Vector3D
    from cherab.core.laser import Laser
    kind = case["kind"]
    ctx.crumb({"case": case})
    obj = make_profile(L, kind, case["args"], case["pol"])
    first = Laser(parent=World())
    first.laser_profile = obj
    extra, res, fails = [], [], []
    for op in case["ops"]:
        try:
            if op[0] == "node":
                la = Laser(parent=World())
                la.laser_profile = obj
                extra.append(la)
            elif op[0] == "replace":
                la = extra.pop(op[1])
                la.laser_profile = L.UniformEnergyDensity(1.0, 0.7, 0.1)      # this node stops listening to obj
            else:
                o = op[1]
                if o[0] == "pol":
                    obj.set_polarization(Vector3D(*o[1]))
                elif o[0] == "attach":
                    first.laser_profile = obj
                else:
                    setattr(obj, ATTR[o[1]], o[2])
            res.append(0)
        except (ValueError, AttributeError, ZeroDivisionError) as e:
            res.append(err_code(e))
        # every step, on the implementation: every listening node holds what a fresh object generates
        want = S.cyl_data(make_profile(L, kind, dict(case["args"], **{f: float(getattr(obj, ATTR[f])) for f in KIND_FIELDS[kind]}),
                                       (0.0, 1.0, 0.0)).generate_geometry())
        stats["laser_routes"] += 1
        for la in [first] + extra:
            if S.cyl_data(la.get_geometry()) != want and not fails:
                fails.append({"key": "c18:shared-profile-node", "claim": "%s shared by %d Laser nodes: after %r a listening node does not hold the "
                                                                         "segments of a fresh object" % (CLASSNAME[kind], 1 + len(extra), op),
                              "case": case, "got": S.cyl_data(la.get_geometry())[:5], "want": want[:5]})
    nodes = []
    for la in [first] + extra:
        g = la.get_geometry()
        n = len(g)
        idx = sorted(set([0, n - 1, rng.randrange(n)])) if n else []
        nodes.append((n, [(i, float(g[i].transform[2, 3]), float(g[i].height)) for i in idx]))
    return {"res": res, "nodes": nodes}, fails


def mop_lit(op):
    if op[0] == "node":
        return "MAttachNode"
    if op[0] == "replace":
        return "MReplaceNode %d" % op[1]
    return "MOp (%s)" % pop_lit(op[1])


def nodes_term(case, obs):
    a = case["args"]
    args = "(mkA (mkV %s) %s)" % (" ".join(qlit(a[f]) for f in FIELDS), vec_lit(case["pol"]))
    return "check_nodes cC %s %s %s %s %s" % (
        case["kind"], args, blist(mop_lit(o) for o in case["ops"]), zl(obs["res"]),
        blist("(%s%%Z, %s)" % (zlit(n), blist("(%s%%Z, (%s, %s))" % (zlit(i), qlit(o), qlit(h)) for i, o, h in smp)) for n, smp in obs["nodes"]))


# ---------------------------------------------------------------------------------------------
# Coq terms
# ---------------------------------------------------------------------------------------------
def vec_lit(v):
    return "(%s, %s, %s)" % tuple(qlit(x) for x in v)


def pop_lit(op):
    if op[0] == "pol":
        return "PSetPol %s" % vec_lit(op[1])
    if op[0] == "attach":
        return "PAttach"
    if op[0] == "bad":
        return "PBad None" if op[1] is None else "PBad (Some %s)" % op[1]
    return "PSet %s %s" % (op[1], qlit(op[2]))


def sop_lit(op):
    if op[0] == "bad":
        return "SBad %s" % ("true" if op[1] in ("mean", "std") else "false")
    if op[0] == "bins":
        return "SSetBins %s" % zlit(op[1])
    return "%s %s" % ({"min": "SSetMin", "max": "SSetMax", "mean": "SSetMean", "std": "SSetStd"}[op[0]], qlit(op[1]))


def zl(xs):
    return "(%s%%Z)" % zlist(xs)


def blist(items):
    return "[" + "; ".join(items) + "]"


def profile_term(case, obs):
    a = case["args"]
    args = "(mkA (mkV %s) %s)" % (" ".join(qlit(a[f]) for f in FIELDS), vec_lit(case["pol"]))
    ops = blist(pop_lit(o) for o in case["ops"])
    if not obs["ctor_ok"]:
        return "check_profile cC cPi cS2pi3 %s %s %s false [] [] [] (0,0,0) 0 [] 0 [] false" % (case["kind"], args, ops)
    probes = blist("(%s, %s, %s, %s)" % (vec_lit(p[0]), qlit(p[1]), qlit(p[2]), qlit(p[3])) for p in obs["probes"])
    pol_cur = case["pol"]
    for o, r in zip(case["ops"], obs["res"]):
        if o[0] == "pol" and r == 0:
            pol_cur = o[1]
    plen = math.sqrt(pol_cur[0] ** 2 + pol_cur[1] ** 2 + pol_cur[2] ** 2)
    L_ = obs["rep"]["Flen"]
    exactfl = "true" if 1e-280 < L_ < 1e280 else "false"
    return "check_profile cC cPi cS2pi3 %s %s %s true %s %s %s %s %s %s %s %s " % (
        case["kind"], args, ops, zl(obs["res"]), qlist([obs["rep"][f] for f in KIND_FIELDS[case["kind"]]]), probes,
        vec_lit(obs["polv"]), qlit(plen), qlist(sorted(set(obs["radii"]))), "%s%%Z" % zlit(len(obs["segs"])),
        blist("(%s%%Z, (%s, %s))" % (zlit(i), qlit(obs["segs"][i][0]), qlit(obs["segs"][i][1])) for i in obs["seg_sample"])) + exactfl


def spectrum_term(case, obs):
    a = case["args"]
    args = "(mkSA %s %s %s %s %s)" % (qlit(a["min"]), qlit(a["max"]), zlit(a["bins"]), qlit(a["mean"]), qlit(a["std"]))
    ops = blist(sop_lit(o) for o in case["ops"])
    if not obs["ctor_ok"]:
        return "check_spectrum cPi cSqrt2 cSqrt2pi %s %s %s false [] [] [] [] 0 [] [] [] [] false []" % (case["kind"], args, ops)
    lo_, hi_ = obs["rep"][0], obs["rep"][1]
    exactfl = "true" if (lo_ > 1e-280 and hi_ < 1e280 and (hi_ - lo_) / obs["zrep"][0] > 1e-280) else "false"
    tail = " %s %s" % (exactfl, blist("(%s, %s, %s)" % (qlit(a), qlit(b), qlit(v)) for a, b, v in obs.get("calls", [])))
    return "check_spectrum cPi cSqrt2 cSqrt2pi %s %s %s true %s %s %s %s %s %s %s %s %s" % (
        case["kind"], args, ops, zl(obs["res"]), qlist(obs["rep"]), zl(obs["zrep"]), qlist(obs["deltas"]), qlit(obs["slack"]),
        blist("(%s, %s)" % (qlit(k), qlit(v)) for k, v in obs["tbl"]), qlist(obs["wl"]), qlist(obs["psd"]),
        blist("(%s, %s, %s, %s)" % tuple(qlit(v) for v in e) for e in obs["evals"])) + tail


CODE_TEXT = {"nodes": {1: "constructor", 2: "result of a call", 3: "segments held by a listening Laser node"}, "profile": {9: "segments against the computation in doubles (exact)", 1: "constructor accepted/rejected differently", 2: "result (ok / ValueError / AttributeError / ZeroDivisionError) of a call",
                         3: "reported parameters", 4: "harness constant sqrt((2 pi)^3)", 5: "energy density at a probe point",
                         6: "polarisation", 7: "cylinder radius", 8: "segments held by the Laser node"},
             "spectrum": {10: "delta / wavelengths / constant-spectrum density against the computation in doubles (exact)",
                          11: "direct call of _get_bin_power_spectral_density", 1: "constructor accepted/rejected differently", 2: "result of a setter call", 3: "reported wavelengths / mean / stddev / accessors",
                          4: "bins / get_spectral_bins", 5: "harness constants", 6: "delta_wavelength", 7: "wavelengths array",
                          8: "binned power spectral density", 9: "spectrum(x)"}}


def parse_pairs(s):
    return [(int(a), int(b)) for a, b in re.findall(r"\(\s*\(?(-?\d+)\)?\s*,\s*\(?(-?\d+)\)?\s*\)", re.sub(r"%[A-Za-z]+", "", s))]


def load_corpus():
    """minimised past disagreements (corpus/C18/*.json), run first"""
    import glob
    import json
    from common import VERIF
    out = []
    for f in sorted(glob.glob(os.path.join(VERIF, "corpus", "C18", "*.json"))):
        case = json.load(open(f))["case"]
        case["ops"] = [tuple(tuple(x) if isinstance(x, list) else x for x in op) for op in case["ops"]]
        if "pol" in case:
            case["pol"] = tuple(case["pol"])
        case["corpus"] = os.path.basename(f)
        out.append(case)
    return out


# ---------------------------------------------------------------------------------------------
def run(ctx):
    ctx.trusted += [
        "Coq 8.16.1 kernel, vm_compute (no native_compute)",
        "harness/c18.py: case generators, observation of the real objects (Laser node cylinders, arrays, accessors), Q literal printer, "
        "comparators and tolerances in Model/C18_Check.v; harness/c18_search.py: quadrature of get_energy_density / spectrum(x)",
        "libm exp / erf / sqrt and IEEE double rounding: the model is exact; exp and erf enter the correspondence as oracle values "
        "(math.exp / math.erf at the double argument, the argument itself validated in Coq against the model's exact argument to 2^-40)",
        "raysect: Constant3D, scalar * Function3D, Vector3D.normalise, Cylinder, translate, Node parenting; Notifier of cherab.core.utility",
        "SPEED_OF_LIGHT is read from cherab/core/utility/constants.pyx by a one-line fail-closed regex",
        "axioms (only under the C18_*_real theorems of coq/Properties/C18_Real.v, named by Print Assumptions; that file is compiled by coqc on every run but, "
        "unlike Properties/C18.v, not re-checked by coqchk in the thorough tier: re-checking the closure of Interval takes more than 40 minutes): the standard library's classical real numbers "
        "(ClassicalDedekindReals.sig_forall_dec, ClassicalDedekindReals.sig_not_dec, Classical_Prop.classic, "
        "FunctionalExtensionality.functional_extensionality_dep) and the primitive 63-bit integers with their specification "
        "(PrimInt63.*, Uint63.*_spec) that Interval's certified quadrature computes with; libraries Coquelicot 3 and Interval 4; "
        "every other C18 theorem is closed under the global context",
    ]
    ctx.assumptions += [
        "integrals: the cross-section / volume integral statements are proved as algebra (the energy density is E/(c tau) times a product "
        "of normal probability densities, for every exp with exp(a+b)=exp(a)exp(b) and every sqrt with sqrt(v)^2=v) plus a corollary for any "
        "linear, translation-invariant integral functional that integrates the normal density to one; that the Lebesgue integral is such "
        "a functional (the Gaussian integral, Fubini) is classical analysis and is not proved in Coq; likewise that (1+erf)/2 is the normal CDF",
        "setter histories: values rejected by GaussianBeamAxisymmetric.stddev_waist / laser_wavelength (<= 0) are excluded from the "
        "history theorem (the object keeps the rejected value; recorded as C18_beam_rejected_setter_leaves_stale_parameter)",
        "the per-bin power array (_power) has no Python accessor; it is observed as power_spectral_density * delta_wavelength",
        "generator exclusion (documented, out of scope of the property): None is never handed to set_polarization, to the polarization "
        "argument of a constructor or to laser.laser_profile -- on the unchanged tree these calls end in SIGSEGV (typed Cython arguments "
        "admit None); nan / inf parameters (accepted silently by the setters) and laser_radius so small that length // (2 radius) "
        "exceeds about 1e6 segments are not generated either",
        "real-number theorems: biv_evalR / beam_evalR / tri_evalR are the expression trees of the Q model transcribed over R by hand "
        "(no formal Q -> R bridge); the integrals are over the box of +-40 sigma, the tails are bounded pointwise (density <= e^-800 of "
        "its maximum), the improper integral over the whole plane / space is not formalised",
    ]
    ctx.rebuild()
    ctx.proofs("Properties.C18", THEOREMS, extra_modules=("Model.C18_Check", "Proofs.C18_Float"))
    # the real-number property file: built and its assumptions re-checked on every run like the other one; the independent
    # checker coqchk (thorough tier) is run on Properties.C18 only, re-checking the closure of Interval takes more than 40 minutes
    old = os.environ.get("VERIF_NO_COQCHK")
    os.environ["VERIF_NO_COQCHK"] = "1"
    try:
        ctx.proofs("Properties.C18_Real", THEOREMS_REAL)
    finally:
        if old is None:
            os.environ.pop("VERIF_NO_COQCHK", None)
        else:
            os.environ["VERIF_NO_COQCHK"] = old

    import cherab
    assert list(cherab.__path__) == [REPO + "/cherab"], cherab.__path__
    import cherab.core.model.laser as L

    rng = ctx.rng
    quick = ctx.quick
    c = speed_of_light()
    # ---- policy tables regenerated from the current source, tie lemma checked by the kernel ------------------
    try:
        policy, scripts, sigs = T.translate(REPO)
        for kind, sg in sigs.items():
            SIGNATURE[kind] = [(kw, f) for kw, f, _ in sg if f != "pol"]
            for kw, f, dv in sg:
                if f != "pol":
                    A.DEFAULTS[f] = dv
        spol, sacc = T.translate_spectrum(REPO)
        pth = ctx.write_gen("Policy.v", T.coq_text(policy, scripts, spol, sacc))
        ok, out = coqc(pth, timeout=600)
        ctx.obligation("Gen tie lemmas policy_ok + spolicy_ok (setter / constructor / accessor policy of profile.pyx and of both "
                       "laserspectrum.pyx = tables the model executes)", "tie", ok, out)
        if not ok:
            ctx.log("policy tie FAILED: " + out[-800:])
    except T.TranslationError as e:
        ctx.obligation("translator: profile.pyx has the recognised shape", "tie", False, str(e))
        ctx.log("translator failed: %s" % e)

    cases = load_corpus()
    n_corpus = len(cases)
    # every setter of every class at least once, alone (so that a missing refresh in one setter cannot hide)
    for kind in KINDS:
        for f in KIND_FIELDS[kind]:
            cases.append(gen_profile_case(rng, kind, False, forced_op=("set", f, gen_value(rng, f, False))))
        cases.append(gen_profile_case(rng, kind, False, forced_op=("pol", gen_vec(rng))))
    for kind in ("SConst", "SGauss"):
        for op in [("min", None), ("max", None), ("bins", 7)] + ([("mean", None), ("std", None)] if kind == "SGauss" else []):
            cs = gen_spectrum_case(rng, kind, False, quick, forced_op=("bins", 1))
            a = cs["args"]
            w = a["max"] - a["min"]
            v = {"min": a["min"] - 0.3 * w, "max": a["max"] + 0.4 * w, "bins": 7, "mean": a["min"] + 0.3 * w, "std": 0.2 * w}[op[0]]
            cs["ops"] = [(op[0], v)]
            cases.append(cs)
    n_forced = len(cases)
    n_prof = 56 if quick else 2000
    n_spec = 56 if quick else 2200
    for i in range(n_prof):
        cases.append(gen_profile_case(rng, KINDS[i % 4], exact=(i % 3 == 0)))
    for i in range(n_spec):
        cases.append(gen_spectrum_case(rng, "SGauss" if i % 5 < 3 else "SConst", exact=(i % 3 == 0), quick=quick))
    # random histories get an observation in the middle as well (same live object observed twice)
    for cs in cases[n_forced:]:
        if len(cs["ops"]) >= 2 and rng.random() < (0.2 if quick else 0.3):
            cs["mid"] = [rng.randint(1, len(cs["ops"]) - 1)]
    # classes added by the blind-spot audit (harness/c18_audit.py), regular part of both tiers
    me = sys.modules[__name__]
    for kind in KINDS:
        cases += A.profile_cases(me, rng, kind, 2 if quick else 30, quick)
    for kind in ("SConst", "SGauss"):
        cases += A.spectrum_cases(me, rng, kind, 3 if quick else 45, quick)
    for kind in KINDS:
        cases += [gen_nodes_case(rng, kind) for _ in range(3 if quick else 40)]

    # ---- run the implementation --------------------------------------------------------------------
    stats = {"fresh_vs_mutated": 0, "quadrature": 0, "tiling": 0, "spectrum_bins": 0, "spectrum_sum_to_one": 0,
             "skipped_invalid_state": 0, "const_edge_cases": 0, "mid_history_observations": 0, "per_step_fresh_checks": 0,
             "nonfinite_observations_skipped": 0, "type_rejections": 0, "laser_routes": 0, "direct_bin_calls": 0}
    terms, recs, objs, dropped, fails = [], [], [], 0, []
    node_terms = []
    for case in cases:
        if case["type"] == "nodes":
            nobs, sf = run_nodes_case(L, case, rng, ctx, stats)
            fails += sf
            node_terms.append((nodes_term(case, nobs), case, nobs))
            continue
        if case["type"] == "profile":
            records, obj, laser, sf = run_profile_case(L, case, rng, c, ctx, stats)
            mk = profile_term
        else:
            records, obj, sf = run_spectrum_case(L, case, rng, ctx, stats)
            laser = None
            mk = spectrum_term
        fails += sf
        oi = len(objs)
        objs.append((records[-1][0], records[-1][1], obj, laser))
        for cv, obs in records:
            tb = obs.get("tbl") or []
            if any(abs(a[0] - b[0]) < 2.0 ** -10 + 4 * obs.get("slack", 0.0) for a, b in zip(tb, tb[1:])):
                dropped += 1        # neighbouring erf arguments too close for the oracle-table lookup: not compared in Coq
                continue
            try:
                terms.append(mk(cv, obs))
            except (ValueError, OverflowError):
                stats["nonfinite_observations_skipped"] += 1     # inf / nan cannot be written as an exact rational
                continue
            recs.append((cv, obs, oi))
    cases = [o[0] for o in objs]
    for t, cs_, ob_ in node_terms:          # shared-profile cases: compared in Coq like the others, no per-object search
        terms.append(t)
        recs.append((cs_, ob_, None))
    ctx.log("implementation run on %d objects, %d observations" % (len(objs) + len(node_terms), len(terms)))

    # ---- correspondence in Coq ---------------------------------------------------------------------
    s2pi3 = math.sqrt((2 * math.pi) ** 3)
    header = ("Require Import Cherab.Common.Qx Cherab.Model.C18_Laser Cherab.Model.C18_Spectrum Cherab.Model.C18_Check.\n"
              "Open Scope Q_scope.\n"
              "Definition cC : Q := %s.\nDefinition cPi : Q := %s.\nDefinition cS2pi3 : Q := %s.\n"
              "Definition cSqrt2 : Q := %s.\nDefinition cSqrt2pi : Q := %s.\n"
              % (qlit(c), qlit(math.pi), qlit(s2pi3), qlit(math.sqrt(2.0)), qlit(math.sqrt(2 * math.pi))))
    per = max(22, -(-len(terms) // 16)) if quick else 125       # quick: one wave of at most 16 coqc processes
    files = []
    for si in range(0, len(terms), per):
        sh = terms[si:si + per]
        txt = header + "Definition results : list Z := [\n  " + ";\n  ".join(sh) + "].\nEval vm_compute in (nonzero results).\n"
        files.append((ctx.write_gen("cases_%03d.v" % (si // per), txt), list(range(si, si + len(sh)))))
    res = coqc_many([f for f, _ in files], timeout=1500)
    diffs = []      # (case index, code)
    for f, ids in files:
        ok, out = res[f]
        vals = parse_evals(out) if ok else []
        good = ok and len(vals) == 1
        failing = parse_pairs(vals[0]) if good else []
        ctx.obligation("correspondence %s (%d cases)" % (os.path.basename(f), len(ids)), "correspondence",
                       good and not failing, out if not good else "DIFF (local index, code) %s" % failing)
        if not good:
            ctx.broken.append("coqc failed on %s: %s" % (f, out[-600:]))
        diffs += [(ids[i], code) for i, code in failing]
    ctx.log("correspondence: %d observations of %d objects in %d files, %d disagree" % (len(terms), len(objs), len(files), len(diffs)))

    # ---- failing-input search: the property itself on the real implementation ------------------------
    diff_idx = {recs[i][2] for i, _ in diffs if recs[i][2] is not None}
    order = sorted(diff_idx) + [i for i in range(len(objs)) if i not in diff_idx]
    heavy_budget = 30 if quick else 300
    for i in order:
        case, obs, obj, laser = objs[i]
        if obj is None:
            continue
        heavy = i in diff_idx or heavy_budget > 0
        if case["type"] == "profile":
            fl = S.search_profile(L, case, obs, obj, laser, c, rng, heavy, stats)
            if heavy and case["kind"] != "KUniform":
                heavy_budget -= 1
        else:
            fl = S.search_spectrum(L, case, obs, obj, rng, stats)
        for fobj in fl:
            fobj["case_index"] = i
        fails += fl
    # extra tiling sweep over many radius / length combinations (cheap)
    fails += S.search_tiling(L, rng, 300 if quick else 5000, stats)
    # other entry points and routes: second Laser node, profile replaced / re-attached, configure_geometry(), direct calls of
    # _get_bin_power_spectral_density and generate_segmented_cylinder, values of a rejected type
    fails += S.search_routes(L, rng, 12 if quick else 200, stats)
    other = fails
    ctx.obligation("executable property on the implementation (%d objects)" % len(objs), "search", not other, str(other[:3]))
    seen = set()
    for fobj in other:
        if fobj["key"] in seen:
            continue
        seen.add(fobj["key"])
        if len(seen) > 6:
            break
        ctx.violation(fobj["key"], fobj["claim"], fobj, found=True)
    if diffs and not other:
        for i, code in diffs[:3]:
            case, obs = recs[i][0], recs[i][1]
            ctx.violation("c18-diff:%s:%s:%d" % (case["type"], case["kind"], code),
                          "model and implementation disagree on %s (%s %s); the executable property found no failing input"
                          % (CODE_TEXT[case["type"]].get(code, "?"), case["type"], case["kind"]),
                          {"case": case, "observed": obs, "code": code, "correspondence": "coq/Gen/C18/cases_*.v"}, found=False)

    # ---- coverage ------------------------------------------------------------------------------------
    def nontrivial(case, obs):
        return obs["ctor_ok"] and any(r == 0 for r in obs.get("res", []))
    dist = {"by_class": {}, "ops_per_case": {}, "op_results": {"ok": 0, "ValueError": 0, "AttributeError": 0, "ZeroDivisionError": 0, "TypeError": 0}, "audit_classes": {},
            "constructor_rejected": 0, "geometry_class": {}, "segments": {"0-1": 0, "2-9": 0, "10+": 0},
            "spectrum_bins": {"1": 0, "2-9": 0, "10+": 0}, "setters_hit": {}}
    keyset = set()
    for case, obs, obj, _ in objs:
        nm = CLASSNAME.get(case["kind"], {"SConst": "ConstantSpectrum", "SGauss": "GaussianSpectrum"}.get(case["kind"]))
        dist["by_class"][nm] = dist["by_class"].get(nm, 0) + 1
        ac = case.get("audit", "random-history" if "corpus" not in case else "corpus")
        dist["audit_classes"][ac] = dist["audit_classes"].get(ac, 0) + 1
        dist["ops_per_case"][str(len(case["ops"]))] = dist["ops_per_case"].get(str(len(case["ops"])), 0) + 1
        if not obs["ctor_ok"]:
            dist["constructor_rejected"] += 1
            continue
        for o, r in zip(case["ops"], obs["res"]):
            dist["op_results"][["ok", "ValueError", "AttributeError", "ZeroDivisionError", "TypeError"][r]] += 1
            if r == 0:
                k = "%s.%s" % (nm, ATTR.get(o[1], o[1]) if o[0] == "set" else {"pol": "set_polarization", "attach": "laser.laser_profile=", "bad": "rejected-type"}.get(o[0], o[0]))
                dist["setters_hit"][k] = dist["setters_hit"].get(k, 0) + 1
        if case["type"] == "profile":
            gc = case.get("geom_class", "free")
            dist["geometry_class"][gc] = dist["geometry_class"].get(gc, 0) + 1
            n = len(obs["segs"])
            dist["segments"]["0-1" if n < 2 else "2-9" if n < 10 else "10+"] += 1
        else:
            n = obs["zrep"][0]
            dist["spectrum_bins"]["1" if n == 1 else "2-9" if n < 10 else "10+"] += 1
        if nontrivial(case, obs):
            keyset.add(repr((case["kind"], sorted(case["args"].items()), case["ops"])))
    dist["search"] = stats
    dist["forced_single_setter_cases"] = n_forced - n_corpus
    dist["corpus_cases"] = n_corpus
    dist["dropped_spectrum_cases_with_indistinguishable_erf_arguments"] = dropped
    ctx.coverage.update({
        "evaluations": len(terms),
        "distinct_nontrivial": len(keyset),
        "rule": "one evaluation = one observation of a live object compared in Coq: one object (constructor arguments) + one setter history "
                "(0-11 calls, about 12% rejected values, 3% foreign attributes, 4-5% rejected constructors), observed after the history and, for "
                "a third of the histories, also in the middle; after EVERY call the live object is compared with a freshly built one. "
                "every setter of every class additionally once alone; audit classes (harness/c18_audit.py): guard crossing on the same object "
                "(positive -> 0/-0.0/negative -> positive), same value again / re-attach to the Laser node, changes that keep the segment or "
                "shrink the bin count, exact boundaries (L = 2rk and one ulp either side for k in 1,2,9,10,11,99,100,101; max = min, one ulp "
                "apart; tiny/huge magnitudes; zero polarisation), argument forms (int, bool, numpy scalars, float32, 0-d arrays; constructor "
                "positional / defaults), scaling by 2^k; "
                "radius/length drawn from the classes short (L<2r), one, two, exact multiple, many, free; one third of the cases dyadic. "
                "non-trivial = constructor accepted and at least one setter call accepted; distinct = distinct (class, arguments, history)",
        "distribution": dist,
        "tolerance": {"call results (ok / ValueError / AttributeError / ZeroDivisionError / TypeError), reported parameters, bins, radius, "
                      "number of segments": "exact",
                      "segment offsets and heights, delta_wavelength, wavelengths, ConstantSpectrum power spectral density":
                          "EXACT (0 ulp) against the round-to-53-bits evaluator of Model/C18_Float.v, which at rnd = identity is the "
                          "model (theorem C18_double_evaluator_at_identity_is_the_model); only for values in the normal range "
                          "(1e-280 .. 1e280), otherwise 2^-48 relative against the exact model",
                      "energy density": "2^-36 relative + 2^-1000 absolute (exp oracle value at the double argument; the argument validated in Coq to 2^-40 relative)",
                      "polarisation": "2^-48 absolute (sqrt oracle validated: len^2 = |p|^2 to 2^-48)",
                      "Gaussian bin power": "2^-34 absolute (erf oracle values looked up by argument, slack 2^-24 + 2^-44 * max * norm_cdf)",
                      "spectrum(x)": "constant: exact; Gaussian: 2^-36 relative + 2^-1000 absolute",
                      "direct _get_bin_power_spectral_density(lo, hi) of ConstantSpectrum": "2^-48 relative against the model's bin_psd",
                      "constant-spectrum bin power (additionally, against the exact model)": "(2^-46 + 2^-52 bins) * max/(max-min) absolute"},
        "regenerated_from_source": ["SPEED_OF_LIGHT (constants.pyx)",
                                    "per class and attribute: property exists / guard `if value <= 0: raise` / action after the assignment "
                                    "(notify | Constant3D | _function_changed | _stddev_z then _function_changed), __init__ statement by statement, "
                                    "constructor parameter order and defaults (profile.pyx, fail-closed translator harness/c18_translate.py); "
                                    "kernel-checked against the model's has_field / guarded / action / init_script by coq/Gen/C18/Policy.v: policy_ok"],
        "ambiguous": {"constant_spectrum_objects_with_an_outer_edge_rounded_outside_the_range": stats["const_edge_cases"]},
        "partial": ["Gaussian integral / Fubini / erf as normal CDF are classical analysis, not proved (theorems *_partial state what is assumed)",
                    "rejected values of the two unguarded GaussianBeamAxisymmetric setters are outside the history theorem"],
    })
    ex = [i for i, (cs, ob, o, _) in enumerate(objs) if o is not None and len(cs["ops"]) >= 2]
    ctx.coverage["samples"] = [{"case": objs[i][0], "observed": {k: v for k, v in objs[i][1].items() if k in ("res", "rep", "segs", "zrep", "psd")}}
                               for i in (ex[:1] + [j for j in ex if objs[j][0]["type"] == "spectrum"][:1])]
    ctx.grep_gate()
