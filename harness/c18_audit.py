"""C18 generator classes added by the blind-spot audit (regular classes of both tiers).

Every function returns case dictionaries in the format of harness/c18.py.  `H` is the c18 module
(its value generators are re-used).  Op encodings understood by c18.run_profile_case / run_spectrum_case:
  ("set", field, value[, form])   ("pol", vec)   ("same", field)   ("attach",)
  ("min"|"max"|"bins"|"mean"|"std", value[, form])   ("same", name)
`form` selects the Python type the value is handed over in (float, int, bool, numpy scalars, 0-d array).
`mid`  lists positions k at which the LIVE object is additionally observed after the first k calls.
"""
import math

import numpy as np

DEFAULTS = {"Fed": 1.0, "Fpe": 1.0, "Fpl": 1.0, "Fsx": 0.01, "Fsy": 0.01, "Fmz": 0.0, "Fwz": 0.0, "Fsw": 0.01, "Fwl": 1e3,
            "Frad": 0.05, "Flen": 1.0}
POSITIVE = {"KUniform": ["Fed", "Frad", "Flen"], "KBiv": ["Fpe", "Fpl", "Fsx", "Fsy", "Frad", "Flen"],
            "KTri": ["Fpe", "Fpl", "Fsx", "Fsy", "Frad", "Flen"], "KBeam": ["Fpe", "Fpl", "Fsw", "Fwl", "Frad", "Flen"]}
WIDTHS = ["Fsx", "Fsy", "Fsw"]
COUNTS = [1, 2, 9, 10, 11, 99, 100, 101]


def wrap(v, form):
    if form in (None, "float"):
        return float(v)
    if form == "np64":
        return np.float64(v)
    if form == "np32":
        return np.float32(v)
    if form == "int":
        return int(v)
    if form == "npint":
        return np.int64(v)
    if form == "bool":
        return bool(v)
    if form == "arr0":
        return np.array(float(v))
    raise KeyError(form)


def pick_form(rng, v):
    """a form that represents v exactly"""
    forms = ["float", "np64", "arr0"]
    if float(v) == float(np.float32(v)):
        forms.append("np32")
    if float(v).is_integer() and abs(v) < 2 ** 31:
        forms += ["int", "npint"]
    if v == 1.0:
        forms.append("bool")
    return rng.choice(forms)


def base_case(H, rng, kind, exact=False):
    cs = H.gen_profile_case(rng, kind, exact, forced_op=("pol", (0.0, 1.0, 0.0)))
    cs["ops"] = []
    return cs


def same_count_lengths(rng, r, n):
    """two lengths with int(L // 2r) == n (n = 0 and n = 1 both give one cylinder)"""
    u0, u1 = rng.uniform(0.05, 0.95), rng.uniform(0.05, 0.95)
    return 2 * r * (n + u0), 2 * r * (n + u1)


# ---------------------------------------------------------------------------------------------
def profile_cases(H, rng, kind, per_class, quick):
    out = []
    flds = H.KIND_FIELDS[kind]
    pos = POSITIVE[kind]

    def tag(cs, cls, mid=()):
        cs["audit"] = cls
        cs["mid"] = sorted(set(k for k in mid if 0 < k < len(cs["ops"])))
        return cs

    for _ in range(per_class):
        # 1/2: a value crosses its guard on the same object: positive -> 0 / -0.0 / negative / tiny negative -> positive
        cs = base_case(H, rng, kind)
        f = rng.choice([g for g in flds if g in pos] + (["Fsw", "Fwl"] if kind == "KBeam" else []))
        bad = rng.choice([0.0, -0.0, -H.gen_value(rng, f, False), -5e-324])
        pre = [("set", g, H.gen_value(rng, g, False)) for g in ([rng.choice(flds)] if rng.random() < 0.5 else [])]
        cs["ops"] = pre + [("set", f, H.gen_value(rng, f, False)), ("set", f, bad), ("set", f, H.gen_value(rng, f, False))]
        if rng.random() < 0.5:
            g = rng.choice(flds)
            cs["ops"].append(("set", g, H.gen_value(rng, g, False)))
        out.append(tag(cs, "guard-crossing", mid=[len(pre) + 1, len(pre) + 2]))

        # 1: re-assigning the same value, re-attaching, repeated calls, observation in between
        cs = base_case(H, rng, kind)
        f, g = rng.choice(flds), rng.choice(flds)
        p = H.gen_vec(rng)
        others = [h for h in flds if h != f and h not in ("Fmz", "Fwz")]
        pool = [("same", f), ("attach",), ("same", "Frad"), ("same", "Flen"), ("set", g, H.gen_value(rng, g, False)), ("same", g),
                ("copy", f, rng.choice(others)), ("copy", rng.choice(others), f), ("copy", "Fpl", "Flen") if "Fpl" in flds else ("same", f),
                ("pol", p), ("pol", p), ("attach",), ("set", f, H.gen_value(rng, f, False)), ("same", f)]
        # never copy INTO laser_radius / laser_length: a tiny radius or a huge length makes length // (2 radius) segments
        pool = [o for o in pool if not (o[0] == "copy" and o[1] in ("Frad", "Flen"))]
        k = rng.randint(4, min(9, len(pool)))
        cs["ops"] = [pool[i] for i in sorted(rng.sample(range(len(pool)), k))]
        out.append(tag(cs, "same-value/re-attach", mid=[rng.randint(1, k - 1), rng.randint(1, k - 1)]))

        # 6: a change that keeps the number of segments (the code could take a shortcut), both orders
        cs = base_case(H, rng, kind)
        r = rng.choice([rng.uniform(0.01, 0.1), 2.0 ** -rng.randint(3, 6)])
        n = rng.choice([0, 1, 2, 3, 9, 10, 11, 13])
        L0, L1 = same_count_lengths(rng, r, n)
        cs["args"]["Frad"], cs["args"]["Flen"] = r, L0
        r2 = L1 / (2 * (n + rng.uniform(0.05, 0.95)))            # another radius with the same count for L1
        variant = rng.randint(0, 4)
        if variant == 0:
            cs["ops"] = [("set", "Flen", L1)]
        elif variant == 1:
            cs["ops"] = [("set", "Frad", r * rng.uniform(0.5, 0.9)), ("set", "Frad", r), ("set", "Flen", L1)]
        elif variant == 2:
            cs["ops"] = [("set", "Flen", L1), ("set", "Frad", r2)]
        elif variant == 3:
            cs["ops"] = [("set", "Frad", r2), ("set", "Flen", L1), ("set", "Flen", L0), ("set", "Frad", r)]
        else:
            cs["ops"] = [("set", "Flen", L1), ("attach",), ("set", "Flen", L0), ("set", "Flen", 2 * r * (n + 1.5))]
        cs["geom_class"] = "same-count"
        out.append(tag(cs, "segment-count-unchanged", mid=[1, 2]))

        # 3: exact boundaries: L = 2 r k exactly and one ulp either side for k in 1, 2, 9, 10, 11, 99, 100, 101;
        #    extreme magnitudes of the other parameters; +-0.0
        cs = base_case(H, rng, kind)
        r = rng.choice([2.0 ** -rng.randint(2, 7), rng.uniform(0.004, 0.2)])
        k1, k2 = rng.choice(COUNTS), rng.choice(COUNTS)

        def edge(k):
            L = 2 * r * k
            return rng.choice([L, math.nextafter(L, 0.0), math.nextafter(L, math.inf)])
        cs["args"]["Frad"], cs["args"]["Flen"] = r, edge(k1)
        cs["geom_class"] = "count-boundary"
        ops = [("set", "Flen", edge(k2))]
        f = rng.choice([g for g in flds if g not in ("Frad", "Flen")])
        ext = {"Fed": [5e-324, 1e-300, 1e300], "Fpe": [5e-324, 1e-300, 1e300], "Fpl": [1e-30, 1e3],
               "Fsx": [1e-60, 1e60], "Fsy": [1e-60, 1e60], "Fsw": [1e-60, 1e60], "Fwl": [1e-3, 1e9],
               "Fmz": [0.0, -0.0, 1e6, -1e6], "Fwz": [0.0, -0.0, 1e6, -1e6]}[f]
        ops.append(("set", f, rng.choice(ext)))
        if f in pos:
            ops.append(("set", f, rng.choice([0.0, -0.0, -5e-324])))
        if rng.random() < 0.3:
            ops.append(("pol", (0.0, 0.0, 0.0)))
            ops.append(("pol", (0.0, -0.0, 1e150)) if rng.random() < 0.5 else ("pol", (1e-150, 0.0, 0.0)))
        rng.shuffle(ops)
        cs["ops"] = ops
        out.append(tag(cs, "boundary-values", mid=[1]))

        # 4: unusual but valid argument forms (int, bool, numpy scalars, float32, 0-d arrays)
        cs = base_case(H, rng, kind)
        ops = []
        for _i in range(rng.randint(2, 5)):
            f = rng.choice(flds)
            v = rng.choice([H.gen_value(rng, f, False), float(np.float32(H.gen_value(rng, f, False))), 1.0, 2.0, 3.0])
            if f in ("Frad",):
                v = rng.choice([H.gen_value(rng, f, False), float(np.float32(H.gen_value(rng, f, False))), 1.0])
            ops.append(("set", f, v, pick_form(rng, v)))
        cs["ops"] = ops
        cs["ctor_wrap"] = rng.choice(["np64", "arr0", "float"])
        out.append(tag(cs, "argument-forms", mid=[1]))

        # 5: scale: energies by 2^k1, lengths / widths / positions by 2^k2, pulse length by 2^k3
        cs = H.gen_profile_case(rng, kind, False)
        k1, k2, k3, k4 = rng.randint(-200, 200), rng.randint(-60, 60), rng.randint(-20, 20), rng.randint(-10, 10)
        fac = {"Fed": 2.0 ** k1, "Fpe": 2.0 ** k1, "Fpl": 2.0 ** k3, "Fwl": 2.0 ** k4}

        def sc(f, v):
            return v * fac.get(f, 2.0 ** k2)
        cs["args"] = {f: sc(f, v) for f, v in cs["args"].items()}
        cs["ops"] = [(o[0], o[1], sc(o[1], o[2])) if o[0] == "set" else o for o in cs["ops"]]
        cs["scale"] = [k1, k2, k3, k4]
        out.append(tag(cs, "scaled", mid=[rng.randint(1, 4)]))

        # 7: other ways of calling the constructor: positional arguments, defaults instead of explicit arguments
        cs = base_case(H, rng, kind)
        if rng.random() < 0.5:
            cs["ctor_form"] = "positional"
        else:
            cs["ctor_form"] = "defaults"
            omit = [f for f in flds if rng.random() < 0.5] or [rng.choice(flds)]
            for f in omit:
                cs["args"][f] = DEFAULTS[f]
            cs["omit"] = omit
            if rng.random() < 0.5:
                cs["omit"] = omit + ["pol"]
                cs["pol"] = (0.0, 1.0, 0.0)
            cs["geom_class"] = "free"
        cs["ops"] = [("set", f, H.gen_value(rng, f, False)) for f in rng.sample(flds, rng.randint(0, 2))]
        out.append(tag(cs, "constructor-forms"))
    return out


# ---------------------------------------------------------------------------------------------
def spectrum_cases(H, rng, kind, per_class, quick):
    out = []
    gauss = kind == "SGauss"

    def base():
        cs = H.gen_spectrum_case(rng, kind, False, quick, forced_op=("bins", 1))
        cs["ops"] = []
        cs["args"]["bins"] = rng.choice([1, 2, 3, 5, 8, 12])
        return cs

    def tag(cs, cls, mid=()):
        cs["audit"] = cls
        cs["mid"] = sorted(set(k for k in mid if 0 < k < len(cs["ops"])))
        return cs

    for _ in range(per_class):
        # 1/2: guard crossing on the live object
        cs = base()
        a = cs["args"]
        w = a["max"] - a["min"]
        which = rng.choice(["min", "max", "bins"] + (["mean", "std"] if gauss else []))
        good1, good2, bad = {
            "min": (a["min"] + 0.2 * w, a["min"] - 0.5 * w, rng.choice([a["max"], a["max"] + w, 0.0, -0.0, -a["min"]])),
            "max": (a["max"] + 0.3 * w, a["max"] - 0.4 * w, rng.choice([a["min"], a["min"] - w, 0.0, -1.0])),
            "bins": (rng.choice([2, 7]), rng.choice([1, 4]), rng.choice([0, -1])),
            "mean": (a["min"] + 0.4 * w, a["min"] + 0.7 * w, rng.choice([0.0, -0.0, -a["min"]])),
            "std": (0.3 * w, 0.1 * w, rng.choice([0.0, -0.0, -0.2 * w])),
        }[which]
        cs["ops"] = [(which, good1), (which, bad), (which, good2)]
        if rng.random() < 0.5:
            cs["ops"].append(("bins", rng.choice([1, 3, 6])))
        out.append(tag(cs, "guard-crossing", mid=[1, 2]))

        # 1: same value again, observation between the calls
        cs = base()
        a = cs["args"]
        w = a["max"] - a["min"]
        pool = [("same", "bins"), ("same", "min"), ("max", a["max"] + 0.25 * w), ("same", "max"), ("bins", 4), ("same", "bins")]
        if gauss:
            pool += [("mean", a["min"] + 0.6 * w), ("same", "mean"), ("same", "std"), ("std", 0.15 * w), ("same", "std")]
        k = rng.randint(3, min(7, len(pool)))
        cs["ops"] = [pool[i] for i in sorted(rng.sample(range(len(pool)), k))]
        out.append(tag(cs, "same-value", mid=[rng.randint(1, k - 1)]))

        # 6/3: the number of bins shrinks (arrays could be re-used), then other setters; counts 9/10/11 and 99/100/101
        cs = base()
        a = cs["args"]
        w = a["max"] - a["min"]
        big = [99, 100, 101] if (not quick or rng.random() < 0.25) else [9, 10, 11]
        n1 = rng.choice(big + [9, 10, 11, 20])
        n2 = rng.choice([1, 2, 3, 9, 10, 11])
        if n2 >= n1:
            n1, n2 = n2 + rng.randint(1, 5), n2
        a["bins"] = n1
        if gauss:
            a["std"] = max(a["std"], 0.08 * w)
        follow = [("max", a["max"] + 0.5 * w), ("min", a["min"] - 0.25 * w)] + ([("mean", a["min"] + 0.45 * w), ("std", 0.3 * w)] if gauss else [])
        cs["ops"] = [("bins", n2)] + rng.sample(follow, rng.randint(0, 2)) + ([("bins", n1), ("bins", max(1, n2 - 1))] if rng.random() < 0.4 else [])
        out.append(tag(cs, "bins-shrink", mid=[1]))

        # 3: exact boundaries: max == min, one ulp apart, tiny minimum, mean on an edge / a centre / the bounds, extreme stddev
        cs = base()
        a = cs["args"]
        w = a["max"] - a["min"]
        a["bins"] = rng.choice([1, 2, 2, 4])
        ops = [rng.choice([("max", a["min"]), ("min", a["max"]), ("max", math.nextafter(a["min"], math.inf)),
                           ("min", math.nextafter(a["max"], 0.0)), ("min", 5e-324), ("min", 2.2250738585072014e-308), ("min", -0.0)])]
        if gauss:
            delta = w / a["bins"]
            ops.append(("mean", rng.choice([a["min"], a["max"], a["min"] + delta, a["min"] + 0.5 * delta,
                                            math.nextafter(a["min"], 0.0), math.nextafter(a["max"], math.inf)])))
            ops.append(("std", rng.choice([1e-60, 1e60, w, 1e-120, 1e-3 * w])))
        ops.append(("bins", rng.choice([1, 2])))
        rng.shuffle(ops)
        cs["ops"] = ops
        out.append(tag(cs, "boundary-values", mid=[1]))

        # 4: argument forms
        cs = base()
        a = cs["args"]
        w = a["max"] - a["min"]
        ops = []
        for _i in range(rng.randint(2, 4)):
            which = rng.choice(["min", "max", "bins"] + (["mean", "std"] if gauss else []))
            if which == "bins":
                v = rng.choice([1, 2, 3, 6])
                ops.append(("bins", v, rng.choice(["int", "npint", "float"] + (["bool"] if v == 1 else []))))
            else:
                v = {"min": a["min"] - rng.uniform(0.1, 0.4) * w, "max": a["max"] + rng.uniform(0.1, 0.4) * w,
                     "mean": a["min"] + rng.uniform(0.2, 0.8) * w, "std": rng.uniform(0.1, 0.4) * w}[which]
                v = rng.choice([v, float(np.float32(v)), float(round(v))]) if which != "std" else rng.choice([v, float(np.float32(v)), 1.0, 2.0])
                ops.append((which, v, pick_form(rng, v)))
        cs["ops"] = ops
        cs["ctor_wrap"] = rng.choice(["np64", "arr0", "float"])
        out.append(tag(cs, "argument-forms", mid=[1]))

        # 5: scale: every wavelength-like quantity by 2^k (the binned powers are invariant)
        cs = H.gen_spectrum_case(rng, kind, False, quick)
        k = rng.randint(-40, 40)
        f = 2.0 ** k
        a = cs["args"]
        for key in ("min", "max", "mean", "std"):
            a[key] = a[key] * f
        cs["ops"] = [(o[0], o[1] * f) if o[0] not in ("bins", "bad") else o for o in cs["ops"]]
        cs["scale"] = [k]
        out.append(tag(cs, "scaled", mid=[rng.randint(1, 3)]))
    return out
