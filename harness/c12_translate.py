"""C12 source translator (fail-closed): extracts the constants and component patterns that the hand-written
model Model/C12_Equilibrium.v copies from cherab/tools/equilibrium/efit.pyx, as a Coq record of type
Model/C12_Source.v:source.  Every pattern must match exactly once in its class; anything else raises
TranslateError (reported by the check as a broken tie)."""
import os
import re
from fractions import Fraction


class TranslateError(Exception):
    pass


def _once(pattern, text, what):
    m = re.findall(pattern, text)
    if len(m) != 1:
        raise TranslateError("%s: expected exactly one match of /%s/, found %d" % (what, pattern, len(m)))
    return m[0]


def _classes(src):
    parts = re.split(r"^cdef class (\w+)", src, flags=re.M)
    return {parts[i]: parts[i + 1] for i in range(1, len(parts) - 1, 2)}


def _component(expr, var):
    e = expr.strip()
    if re.fullmatch(r"0(\.0*)?", e):
        return (0, 0)
    m = re.fullmatch(r"(-?)\s*%s\.([xyz])" % var, e)
    if not m:
        raise TranslateError("component expression not understood: %r" % expr)
    return (-1 if m.group(1) else 1, "xyz".index(m.group(2)) + 1)


def _pattern(args, var):
    comps = [c for c in args.split(",")]
    if len(comps) != 3:
        raise TranslateError("new_vector3d with %d arguments: %r" % (len(comps), args))
    return [_component(c, var) for c in comps]


def _q(text):
    fr = Fraction(text)
    return "(Qmake %s %d)" % (("(%d)" % fr.numerator) if fr.numerator < 0 else str(fr.numerator), fr.denominator)


def _pat(p):
    return "[" + "; ".join("((%d)%%Z, %d%%Z)" % c for c in p) + "]"


def translate(repo):
    path = os.path.join(repo, "cherab/tools/equilibrium/efit.pyx")
    src = open(path).read()
    cl = _classes(src)
    for name in ("EFITEquilibrium", "EFITLCFSMask", "MagneticField", "PoloidalFieldVector", "FluxSurfaceNormal", "FluxCoordToCartesian"):
        if name not in cl:
            raise TranslateError("class %s not found in efit.pyx" % name)
    eq = cl["EFITEquilibrium"]
    clamp_min = _once(r"self\.psi_normalised = ClampOutput2D\(Interpolator2DArray\(r, z, \(psi - psi_axis\) / \(psi_lcfs - psi_axis\), "
                      r"'cubic', 'none', 0, 0\), min=([-+0-9.eE]+)\)\n", eq, "psi_normalised construction")
    if len(re.findall(r"self\.psi_normalised\s*=", eq)) != 1:
        raise TranslateError("psi_normalised is assigned more than once")
    tor = _once(r"self\.toroidal_vector = ConstantVector2D\(Vector3D\(([^)]*)\)\)", eq, "toroidal vector")
    edge = _once(r"np\.gradient\(psi_grid, edge_order=(\d+)\)", eq, "np.gradient edge order")
    op_p, b_p, op_n, b_n = _once(r"return self\._lcfs_polygon\.evaluate\(r, z\) (>=|>) ([0-9.]+) and "
                                 r"self\._psi_normalised\.evaluate\(r, z\) (<=|<) ([0-9.]+)\n", cl["EFITLCFSMask"], "LCFS mask")
    if len(re.findall(r"\breturn\b", cl["EFITLCFSMask"])) != 1:
        raise TranslateError("EFITLCFSMask.evaluate has more than one return")
    pol = _pattern(_once(r"return new_vector3d\(([^)]*)\)\.normalise\(\)", cl["PoloidalFieldVector"], "PoloidalFieldVector"), "b")
    nor = _pattern(_once(r"return new_vector3d\(([^)]*)\)\.normalise\(\)", cl["FluxSurfaceNormal"], "FluxSurfaceNormal"), "b")
    f2c = cl["FluxCoordToCartesian"]
    f_pol = _pattern(_once(r"poloidal = new_vector3d\(([^)]*f\.[^)]*)\)", f2c, "FluxCoordToCartesian poloidal"), "f")
    f_nor = _pattern(_once(r"normal = new_vector3d\(([^)]*f\.[^)]*)\)", f2c, "FluxCoordToCartesian normal"), "f")
    _once(r"return new_vector3d\(poloidal\.x \+ normal\.x, toroidal\.y, poloidal\.z \+ normal\.z\)", f2c, "FluxCoordToCartesian result")
    if len(re.findall(r"\breturn\b", f2c)) != 1:
        raise TranslateError("FluxCoordToCartesian.evaluate has more than one return (an early exit the model does not have)")
    _once(r"poloidal\.set_length\(self\._poloidal\.evaluate\(psi\)\)", f2c, "poloidal speed")
    _once(r"normal\.set_length\(self\._normal\.evaluate\(psi\)\)", f2c, "normal speed")
    mf = cl["MagneticField"]
    br_s, br_d = _once(r"br = (-?)self\._dpsi_(dz|dr)\.evaluate\(r, z\) / r\n", mf, "br")
    bz_s, bz_d = _once(r"bz = (-?)self\._dpsi_(dz|dr)\.evaluate\(r, z\) / r\n", mf, "bz")
    order = _once(r"return new_vector3d\((\w+), (\w+), (\w+)\)", mf, "b_field result")
    try:
        order = [{"br": 1, "bt": 2, "bz": 3}[t] for t in order]
    except KeyError:
        raise TranslateError("b_field result not understood: %r" % (order,))
    torq = [t.strip() for t in tor.split(",")]
    if len(torq) != 3:
        raise TranslateError("toroidal vector: %r" % tor)
    facts = {"clamp_min": clamp_min, "polygon": "%s %s" % (op_p, b_p), "psin": "%s %s" % (op_n, b_n), "toroidal": torq,
             "poloidal": pol, "normal": nor, "f2c_poloidal": f_pol, "f2c_normal": f_nor,
             "br": "%sdpsi_%s/r" % (br_s, br_d), "bz": "%sdpsi_%s/r" % (bz_s, bz_d), "field_order": order, "edge_order": int(edge)}
    b = lambda v: "true" if v else "false"
    text = ("(* generated by harness/c12_translate.py from %s; do not edit *)\n"
            "Require Import Cherab.Common.Qx Cherab.Model.C12_Equilibrium Cherab.Model.C12_Source.\nOpen Scope Q_scope.\n"
            "Definition src : source := {|\n"
            "  s_clamp_min := %s; s_poly_bound := %s; s_poly_strict := %s; s_psin_bound := %s; s_psin_le := %s;\n"
            "  s_toroidal := V %s %s %s;\n  s_pol := %s; s_nor := %s;\n  s_f2c_pol := %s; s_f2c_nor := %s;\n"
            "  s_br_sign := (%d)%%Z; s_br_of_dz := %s; s_bz_sign := (%d)%%Z; s_bz_of_dr := %s;\n"
            "  s_field_order := [%s]%%Z; s_edge_order := %d%%Z |}.\n"
            "Lemma source_tie : source_ok src = true.\nProof. vm_compute. reflexivity. Qed.\n" % (
                path, _q(clamp_min), _q(b_p), b(op_p == ">"), _q(b_n), b(op_n == "<="),
                _q(torq[0]), _q(torq[1]), _q(torq[2]), _pat(pol), _pat(nor), _pat(f_pol), _pat(f_nor),
                -1 if br_s else 1, b(br_d == "dz"), -1 if bz_s else 1, b(bz_d == "dr"),
                "; ".join(str(t) for t in order), int(edge)))
    return text, facts
