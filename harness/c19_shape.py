"""Shape translator for C19: the bodies of the methods and functions the model mirrors.

elements.pyx / line.pyx are Cython, but the bodies of __init__, __hash__, __richcmp__, the two index
builders and the two lookup functions are plain Python once the `cdef` declaration lines, the
`<Type>` casts and the argument types of the signature are taken out.  This module extracts each of
them from the CURRENT source, parses it with `ast` and translates

  * hash((self.a, self.b, ...))                       -> list of attributes
  * self.a == e.a and ... / self.a != e.a or ...      -> list of attributes (a mixed and/or chain is rejected)
  * _index[<expr>] = obj, key = <expr>                -> key expressions (obj.a.b, str(.), (.).lower(), . + .)
  * the typed signature and the `self.x = ...` / super().__init__(...) lines of the constructors

into the little languages of coq/Model/C19_Shape.v.  Everything else in those bodies (control flow,
guards, the isinstance / `type(obj) is` tests, error branches) is compared, statement by statement,
with the reference text below (what the model was written against); utility.py likewise.
Fail-closed: any form that is not recognised raises ShapeError and the tie is reported as broken.
"""
import ast
import re
import textwrap


class ShapeError(Exception):
    pass


ATTR = {"name": "AName", "symbol": "ASymbol", "atomic_number": "AZ", "atomic_weight": "AWeight",
        "mass_number": "AA", "element": "AElement", "charge": "ACharge", "transition": "ATransition"}
CTYPE = {"str": "TyStr", "int": "TyInt", "double": "TyDouble", "Element": "TyElement", "tuple": "TyTuple",
         "object": "TyObject"}


# ---------------------------------------------------------------------------------------------
# extraction
# ---------------------------------------------------------------------------------------------
def _block(lines, start):
    """lines of the block whose header is lines[start] (everything more indented, blank lines included)"""
    ind = len(lines[start]) - len(lines[start].lstrip())
    out = [lines[start]]
    for ln in lines[start + 1:]:
        if ln.strip() and (len(ln) - len(ln.lstrip())) <= ind:
            break
        out.append(ln)
    while out and not out[-1].strip():
        out.pop()
    return out


def extract_def(text, cls, name):
    """Returns (argument ctypes, ast.FunctionDef) of `def name` inside `cdef class cls` (cls None: module level)."""
    lines = text.splitlines()
    if cls is not None:
        starts = [i for i, ln in enumerate(lines) if re.match(r"^(cdef\s+)?class\s+%s\b.*:\s*$" % re.escape(cls), ln)]
        if len(starts) != 1:
            raise ShapeError("class %s: %d definitions found" % (cls, len(starts)))
        lines = _block(lines, starts[0])[1:]
        pat = r"^\s+def\s+%s\s*\(" % re.escape(name)
    else:
        pat = r"^def\s+%s\s*\(" % re.escape(name)
    starts = [i for i, ln in enumerate(lines) if re.match(pat, ln)]
    if len(starts) != 1:
        raise ShapeError("%s.%s: %d definitions found" % (cls, name, len(starts)))
    blk = _block(lines, starts[0])
    head = blk[0]
    m = re.match(r"^(\s*)def\s+(\w+)\s*\((.*)\)\s*:\s*$", head)
    if not m:
        raise ShapeError("%s.%s: signature spans several lines or is not understood: %r" % (cls, name, head))
    params, types = [], []
    for prm in [x.strip() for x in m.group(3).split(",") if x.strip()]:
        left, eq, default = prm.partition("=")
        toks = left.split()
        if len(toks) == 1:
            pname, ptype = toks[0], "object"
        elif len(toks) == 2:
            ptype, pname = toks
        else:
            raise ShapeError("%s.%s: parameter %r" % (cls, name, prm))
        if ptype not in CTYPE:
            raise ShapeError("%s.%s: unknown argument type %r" % (cls, name, ptype))
        params.append(pname + ("=" + default.strip() if eq else ""))
        if pname != "self":
            types.append(CTYPE[ptype])
    body = []
    for ln in blk[1:]:
        if re.match(r"^\s*cdef\s", ln):
            continue                                   # C variable declaration
        body.append(re.sub(r"<\s*\w+\s*>\s*", "", ln))  # <Type> cast
    src = textwrap.dedent("\n".join(["%sdef %s(%s):" % (m.group(1), name, ", ".join(params))] + body))
    try:
        fn = ast.parse(src).body[0]
    except SyntaxError as e:
        raise ShapeError("%s.%s: body is not plain Python after removing cdef lines and casts: %s" % (cls, name, e))
    # drop the docstring
    if fn.body and isinstance(fn.body[0], ast.Expr) and isinstance(fn.body[0].value, ast.Constant) \
            and isinstance(fn.body[0].value.value, str):
        fn.body = fn.body[1:]
    return types, fn


def _same(node, reference_src, what):
    """the statement list `node` must be, as an AST, the reference text"""
    ref = ast.parse(textwrap.dedent(reference_src)).body
    got = node if isinstance(node, list) else [node]
    a, b = [ast.dump(x) for x in got], [ast.dump(x) for x in ref]
    if a != b:
        shown = "\n".join(ast.unparse(x) for x in got)
        raise ShapeError("%s is no longer the code the model mirrors; now:\n%s" % (what, shown))


# ---------------------------------------------------------------------------------------------
# translation of the recognised forms
# ---------------------------------------------------------------------------------------------
def _attr_of(node, base):
    """self.a / e.a -> 'AName' ...; base = expected variable name"""
    if isinstance(node, ast.Attribute) and isinstance(node.value, ast.Name) and node.value.id == base and node.attr in ATTR:
        return ATTR[node.attr]
    raise ShapeError("expected %s.<attribute>, got %s" % (base, ast.unparse(node)))


def hash_fields(fn, what):
    if len(fn.body) == 1 and isinstance(fn.body[0], ast.Return):
        c = fn.body[0].value
        if isinstance(c, ast.Call) and isinstance(c.func, ast.Name) and c.func.id == "hash" and len(c.args) == 1 \
                and not c.keywords and isinstance(c.args[0], ast.Tuple):
            return [_attr_of(x, "self") for x in c.args[0].elts]
    raise ShapeError("%s.__hash__ is not `return hash((self.a, self.b, ...))`" % what)


def richcmp_fields(fn, cls, what):
    """-> (other variable, eq attributes, ne attributes); the frame around the two chains is compared with the reference"""
    b = fn.body
    if len(b) != 3 or not isinstance(b[1], ast.Assign) or not isinstance(b[2], ast.If):
        raise ShapeError("%s.__richcmp__ has changed shape" % what)
    _same(b[0], "if not isinstance(other, %s):\n    return NotImplemented" % cls, "%s.__richcmp__ (type test)" % what)
    if not (len(b[1].targets) == 1 and isinstance(b[1].targets[0], ast.Name) and isinstance(b[1].value, ast.Name)
            and b[1].value.id == "other"):
        raise ShapeError("%s.__richcmp__: the cast line is not `x = <%s> other`" % (what, cls))
    var = b[1].targets[0].id
    top = b[2]
    if ast.dump(top.test) != ast.dump(ast.parse("op == 2").body[0].value) or len(top.body) != 1 or len(top.orelse) != 1 \
            or not isinstance(top.orelse[0], ast.If):
        raise ShapeError("%s.__richcmp__: if op == 2 / elif op == 3 / else frame has changed" % what)
    sec = top.orelse[0]
    if ast.dump(sec.test) != ast.dump(ast.parse("op == 3").body[0].value) or len(sec.body) != 1:
        raise ShapeError("%s.__richcmp__: elif op == 3 branch has changed" % what)
    _same(sec.orelse, "return NotImplemented", "%s.__richcmp__ (else branch)" % what)

    def chain(ret, boolop, cmpop, label):
        if not isinstance(ret, ast.Return) or not isinstance(ret.value, ast.BoolOp) or not isinstance(ret.value.op, boolop):
            raise ShapeError("%s.__richcmp__ %s is not a pure %s chain: %s"
                             % (what, label, "and" if boolop is ast.And else "or", ast.unparse(ret)))
        out = []
        for c in ret.value.values:
            if not (isinstance(c, ast.Compare) and len(c.ops) == 1 and isinstance(c.ops[0], cmpop) and len(c.comparators) == 1):
                raise ShapeError("%s.__richcmp__ %s: term %s" % (what, label, ast.unparse(c)))
            l, r = _attr_of(c.left, "self"), _attr_of(c.comparators[0], var)
            if l != r:
                raise ShapeError("%s.__richcmp__ %s compares different attributes: %s" % (what, label, ast.unparse(c)))
            out.append(l)
        return out
    return var, chain(top.body[0], ast.And, ast.Eq, "=="), chain(sec.body[0], ast.Or, ast.NotEq, "!=")


def kexpr(node, objname):
    if isinstance(node, ast.Name):
        if node.id == "v":
            return "KVar"
        if node.id == "number":
            return "KNumber"
    if isinstance(node, ast.Attribute):
        path, cur = [], node
        while isinstance(cur, ast.Attribute):
            if cur.attr not in ATTR:
                raise ShapeError("unknown attribute in key expression: %s" % ast.unparse(node))
            path.append(ATTR[cur.attr])
            cur = cur.value
        if isinstance(cur, ast.Name) and cur.id == objname:
            return "(KAttr [%s])" % "; ".join(reversed(path))
    if isinstance(node, ast.Call) and not node.keywords:
        if isinstance(node.func, ast.Name) and node.func.id == "str" and len(node.args) == 1:
            return "(KStr %s)" % kexpr(node.args[0], objname)
        if isinstance(node.func, ast.Attribute) and node.func.attr == "lower" and not node.args:
            return "(KLower %s)" % kexpr(node.func.value, objname)
    if isinstance(node, ast.BinOp) and isinstance(node.op, ast.Add):
        return "(KAdd %s %s)" % (kexpr(node.left, objname), kexpr(node.right, objname))
    raise ShapeError("key expression not understood: %s" % ast.unparse(node))


def builder(fn, what):
    """-> (class tested with `type(obj) is`, index name, key expressions)"""
    b = fn.body
    if len(b) != 2 or not isinstance(b[1], ast.For):
        raise ShapeError("%s has changed shape" % what)
    _same(b[0], "module = sys.modules[__name__]", "%s (module lookup)" % what)
    loop = b[1]
    if not (isinstance(loop.target, ast.Name) and loop.target.id == "name") or \
            ast.dump(loop.iter) != ast.dump(ast.parse("dir(module)").body[0].value) or loop.orelse or len(loop.body) != 2:
        raise ShapeError("%s: the loop is not `for name in dir(module):` with two statements" % what)
    _same(loop.body[0], "obj = getattr(module, name)", "%s (getattr)" % what)
    cond = loop.body[1]
    if not (isinstance(cond, ast.If) and not cond.orelse and isinstance(cond.test, ast.Compare) and len(cond.test.ops) == 1
            and isinstance(cond.test.ops[0], ast.Is) and ast.dump(cond.test.left) == ast.dump(ast.parse("type(obj)").body[0].value)
            and isinstance(cond.test.comparators[0], ast.Name)):
        raise ShapeError("%s: the filter is not `if type(obj) is <Class>:` (now: %s)" % (what, ast.unparse(cond.test)))
    cls = cond.test.comparators[0].id
    index, keys = None, []
    for st in cond.body:
        if not (isinstance(st, ast.Assign) and len(st.targets) == 1 and isinstance(st.targets[0], ast.Subscript)
                and isinstance(st.targets[0].value, ast.Name) and isinstance(st.value, ast.Name) and st.value.id == "obj"):
            raise ShapeError("%s: statement in the loop that is not `<index>[key] = obj`: %s" % (what, ast.unparse(st)))
        if index not in (None, st.targets[0].value.id):
            raise ShapeError("%s writes two different dictionaries" % what)
        index = st.targets[0].value.id
        keys.append(kexpr(st.targets[0].slice, "obj"))
    return cls, index, keys


def abstract_keys(fn, objname):
    """replace the right-hand side of every `key = <expr>` by the name KEY; returns the expressions in order"""
    found = []

    class T(ast.NodeTransformer):
        def visit_Assign(self, node):
            if len(node.targets) == 1 and isinstance(node.targets[0], ast.Name) and node.targets[0].id == "key":
                found.append(kexpr(node.value, objname))
                node.value = ast.Name(id="KEY", ctx=ast.Load())
            return node
    T().visit(fn)
    return found


def init_shape(fn, what):
    """-> (super().__init__ arguments or None, [(attribute, iexpr)]) ; parameters by position after self"""
    params = [a.arg for a in fn.args.args][1:]

    def iexpr(node):
        if isinstance(node, ast.Name) and node.id in params:
            return "(IParam %d)" % params.index(node.id)
        if isinstance(node, ast.Attribute) and isinstance(node.value, ast.Name) and node.value.id in params and node.attr in ATTR:
            return "(IParamAttr %d %s)" % (params.index(node.value.id), ATTR[node.attr])
        raise ShapeError("%s: right-hand side %s" % (what, ast.unparse(node)))
    sup, body, rest = None, [], []
    for st in fn.body:
        if isinstance(st, ast.Assign) and len(st.targets) == 1 and isinstance(st.targets[0], ast.Attribute) \
                and isinstance(st.targets[0].value, ast.Name) and st.targets[0].value.id == "self" and st.targets[0].attr in ATTR:
            body.append("(%s, %s)" % (ATTR[st.targets[0].attr], iexpr(st.value)))
        elif isinstance(st, ast.Expr) and isinstance(st.value, ast.Call) and not st.value.keywords \
                and ast.dump(st.value.func) == ast.dump(ast.parse("super().__init__").body[0].value):
            if sup is not None or body:
                raise ShapeError("%s: super().__init__ is not the first statement" % what)
            sup = [iexpr(a) for a in st.value.args]
        else:
            if body or sup is not None:
                raise ShapeError("%s: statement after the assignments: %s" % (what, ast.unparse(st)))
            rest.append(st)
    return sup, body, rest


# ---------------------------------------------------------------------------------------------
# reference text of the parts that are compared, not translated
# ---------------------------------------------------------------------------------------------
REF_LOOKUP_ELEMENT = """
def lookup_element(v):
    if type(v) is Element:
        return v
    key = KEY
    try:
        return _element_index[key]
    except KeyError:
        raise ValueError('Could not find an element object for the key \\'{}\\'.'.format(v))
"""
REF_LOOKUP_ISOTOPE = """
def lookup_isotope(v, number=None):
    if type(v) is Isotope:
        return v
    if number:
        element = lookup_element(v)
        key = KEY
    else:
        key = KEY
    try:
        return _isotope_index[key]
    except KeyError:
        if number:
            raise ValueError('Could not find an isotope object for the element \\'{}\\' and number \\'{}\\'.'.format(v, number))
        else:
            raise ValueError('Could not find an isotope object for the key \\'{}\\'.'.format(v))
"""
REF_LINE_GUARDS = """
if charge > element.atomic_number - 1:
    raise ValueError("Charge state cannot be larger than one less than the atomic number.")
if charge < 0:
    raise ValueError("Charge state cannot be less than zero.")
"""
REF_REPR = {"Element": "return '<Element: {}>'.format(self.name)", "Isotope": "return '<Isotope: {}>'.format(self.name)"}
REF_UTILITY = """
def encode_transition(transition):
    upper, lower = transition
    upper = str(upper).lower()
    lower = str(lower).lower()
    return '{} -> {}'.format(upper, lower)
def valid_charge(element, charge):
    return charge <= element.atomic_number
"""


def translate_shape(elements_pyx, line_pyx, utility_py):
    """Returns the text of the `Definition src_... := ...` block of coq/Gen/C19/Shape.v."""
    et = open(elements_pyx, encoding="utf8").read()
    lt = open(line_pyx, encoding="utf8").read()
    out = []

    def define(name, typ, val):
        out.append("Definition %s : %s := %s." % (name, typ, val))

    def lst(xs):
        return "[" + "; ".join(xs) + "]"

    for cls in ("Element", "Isotope"):
        low = cls.lower()
        _, fn = extract_def(et, cls, "__hash__")
        define("src_%s_hash" % low, "list attr", lst(hash_fields(fn, cls)))
        _, fn = extract_def(et, cls, "__richcmp__")
        _, eqf, nef = richcmp_fields(fn, cls, cls)
        define("src_%s_eq" % low, "list attr", lst(eqf))
        define("src_%s_ne" % low, "list attr", lst(nef))
        _, fn = extract_def(et, cls, "__repr__")
        _same(fn.body, REF_REPR[cls], "%s.__repr__" % cls)
        sig, fn = extract_def(et, cls, "__init__")
        sup, body, rest = init_shape(fn, cls + ".__init__")
        if rest:
            raise ShapeError("%s.__init__ has statements before the assignments" % cls)
        define("src_%s_init_sig" % low, "list ctype", lst(sig))
        define("src_%s_init_body" % low, "list (attr * iexpr)", lst(body))
        if cls == "Isotope":
            if sup is None:
                raise ShapeError("Isotope.__init__ does not call super().__init__")
            define("src_isotope_init_super", "list iexpr", lst(sup))
        elif sup is not None:
            raise ShapeError("Element.__init__ calls super().__init__")
    for name, low in (("_build_element_index", "element"), ("_build_isotope_index", "isotope")):
        _, fn = extract_def(et, None, name)
        cls, index, keys = builder(fn, name)
        if cls != low.capitalize() or index != "_%s_index" % low:
            raise ShapeError("%s filters on %s and fills %s" % (name, cls, index))
        define("src_%s_keys" % low, "list kexpr", lst(keys))
    _, fn = extract_def(et, None, "lookup_element")
    keys = abstract_keys(fn, "element")
    _same(fn, REF_LOOKUP_ELEMENT, "lookup_element (control flow around the key)")
    if len(keys) != 1:
        raise ShapeError("lookup_element computes %d keys" % len(keys))
    define("src_lookup_element_key", "kexpr", keys[0])
    _, fn = extract_def(et, None, "lookup_isotope")
    keys = abstract_keys(fn, "element")
    _same(fn, REF_LOOKUP_ISOTOPE, "lookup_isotope (control flow around the keys)")
    if len(keys) != 2:
        raise ShapeError("lookup_isotope computes %d keys" % len(keys))
    define("src_lookup_isotope_key_number", "kexpr", keys[0])
    define("src_lookup_isotope_key_plain", "kexpr", keys[1])
    # Line
    _, fn = extract_def(lt, "Line", "__hash__")
    define("src_line_hash", "list attr", lst(hash_fields(fn, "Line")))
    _, fn = extract_def(lt, "Line", "__richcmp__")
    _, eqf, nef = richcmp_fields(fn, "Line", "Line")
    define("src_line_eq", "list attr", lst(eqf))
    define("src_line_ne", "list attr", lst(nef))
    sig, fn = extract_def(lt, "Line", "__init__")
    sup, body, rest = init_shape(fn, "Line.__init__")
    _same(rest, REF_LINE_GUARDS, "Line.__init__ (charge guards)")
    define("src_line_init_sig", "list ctype", lst(sig))
    define("src_line_init_body", "list (attr * iexpr)", lst(body))
    # utility.py is plain Python
    tree = ast.parse(open(utility_py, encoding="utf8").read())
    fns = []
    for st in tree.body:
        if isinstance(st, ast.FunctionDef) and st.name in ("encode_transition", "valid_charge"):
            if st.body and isinstance(st.body[0], ast.Expr) and isinstance(st.body[0].value, ast.Constant):
                st.body = st.body[1:]
            fns.append(st)
    _same(fns, REF_UTILITY, "utility.encode_transition / valid_charge")
    return "\n".join(out) + "\n"


TIE_LEMMAS = """
(* interpreting what the SOURCE says gives the model's functions, for all arguments *)
Lemma element_hash_tie : forall e, hash_by element_atom src_element_hash e = Some (hash_key (SE e)).
Proof. reflexivity. Qed.
Lemma isotope_hash_tie : forall i, hash_by isotope_atom src_isotope_hash i = Some (hash_key (SI i)).
Proof. reflexivity. Qed.
Lemma element_eq_tie : forall a b, eq_by element_cmp src_element_eq a b = Some (element_eq a b).
Proof. reflexivity. Qed.
Lemma element_ne_tie : forall a b, ne_by (fun f a b => option_map negb (element_cmp f a b)) src_element_ne a b = Some (element_ne a b).
Proof. reflexivity. Qed.
Lemma isotope_eq_tie : forall a b, eq_by isotope_cmp src_isotope_eq a b = Some (isotope_eq a b).
Proof. reflexivity. Qed.
Lemma isotope_ne_tie : forall a b, ne_by isotope_ncmp src_isotope_ne a b = Some (isotope_ne a b).
Proof. reflexivity. Qed.
Lemma line_eq_tie : forall a b, eq_by line_cmp src_line_eq a b = Some (line_eq a b).
Proof. reflexivity. Qed.
Lemma line_ne_tie : forall a b, ne_by line_ncmp src_line_ne a b = Some (line_ne a b).
Proof. reflexivity. Qed.
Lemma line_hash_tie : src_line_hash = [AElement; ACharge; ATransition].
Proof. reflexivity. Qed.
Lemma element_keys_tie : forall e, keys_by (element_path e) src_element_keys = Some (element_keys e).
Proof. reflexivity. Qed.
Lemma isotope_keys_tie : forall i, keys_by (isotope_path i) src_isotope_keys = Some (isotope_keys i).
Proof. reflexivity. Qed.
Lemma lookup_element_key_tie : forall s, kstring (keval (fun _ => None) s EmptyString src_lookup_element_key) = Some (lower s).
Proof. reflexivity. Qed.
Lemma lookup_isotope_key_plain_tie : forall s, kstring (keval (fun _ => None) s EmptyString src_lookup_isotope_key_plain) = Some (lower s).
Proof. reflexivity. Qed.
Lemma lookup_isotope_key_number_tie : forall el sn,
  kstring (keval (element_path el) EmptyString sn src_lookup_isotope_key_number) = Some (lower (sapp (e_symbol el) sn)).
Proof. reflexivity. Qed.
Lemma element_init_tie : src_element_init_sig = element_init_sig /\\
  forall n s z w, build_element_by src_element_init_body [VS n; VS s; VZ z; VQ w] = Some (new_element n s z w).
Proof. split; reflexivity. Qed.
Lemma isotope_init_tie : src_isotope_init_sig = isotope_init_sig /\\
  forall n s el a w, build_isotope_by src_element_init_body src_isotope_init_super src_isotope_init_body
                       [VS n; VS s; VE el; VZ a; VQ w] = Some (new_isotope n s el a w).
Proof. split; reflexivity. Qed.
Lemma line_init_tie : src_line_init_sig = line_init_sig /\\ src_line_init_body = line_init_body.
Proof. split; reflexivity. Qed.
"""
