"""Independent writers of the ADAS ADF11 / ADF12 / ADF15 / ADF21 / ADF22 text formats (property C08).

Written from the ADAS FORTRAN format descriptions (record structure, FORMAT edit descriptors), not
from cherab's parsers.  A writer takes *token texts* (what is printed in the file) and lays them out
in records; the numeric content of a file is, by definition, the exact decimal value of its tokens
(`exact`).  No real ADAS file is available offline: the header column positions of ADF21/22
(`('ZT=',I2,2X,'SVREF=',D9.3,2X,'SPEC=',A2,2X,'DATE=',A8,2X,'CODE=',A7)`,
`(2I5,1X,'/TREF=',D9.3)`, `(I5,1X,'/EREF=',D9.3,1X,'/NREF=',D9.3)`) are the ones known to the author.

Only harness code: nothing here is imported from cherab.
"""
from decimal import Decimal
from fractions import Fraction

DASH80 = "-" * 80 + "\n"


def exact(tok):
    """exact rational value of a FORTRAN/decimal number token (D or E exponent)"""
    return Fraction(Decimal(tok.strip().replace("D", "E").replace("d", "e")))


# ------------------------------------------------------------------------------------------------
# token generators
# ------------------------------------------------------------------------------------------------
# boundary-value profile of the token generators (set by the harness around a group of cases; generation is sequential):
#   p    probability that a DATA token is a boundary value (exact zero, negative zero, smallest / largest printable magnitude)
#   wide probability that the exponent of a token is drawn from the whole printable range -99..+99 instead of the physical one
PROFILE = {"p": 0.0, "wide": 0.0}


def _exp(rng, lo_exp, hi_exp):
    if PROFILE["wide"] and rng.random() < PROFILE["wide"]:
        return rng.randint(-99, 99)
    return rng.randint(lo_exp, hi_exp)


def _fmt_e(m, digits, e, expchar):
    scale = 10 ** digits
    return "%d.%0*d%s%s%02d" % (m // scale, digits, m % scale, expchar, "+" if e >= 0 else "-", abs(e))


def tok_d93(rng, lo_exp, hi_exp, expchar="D"):
    """1PD9.3 : d.dddD+ee (9 characters)"""
    if PROFILE["p"] and rng.random() < PROFILE["p"]:
        return rng.choice(["0.000%s+00", "1.000%s-99", "9.999%s+99", "1.000%s+00", "0.000%s-00"]) % expchar
    return _fmt_e(rng.randint(1000, 9999), 3, _exp(rng, lo_exp, hi_exp), expchar)


def tok_e82(rng, lo_exp, hi_exp, expchar="E", neg_ok=False):
    """1PE8.2 : d.ddE+ee (8 characters); neg_ok: the field is 9 columns wide, a sign fits"""
    if PROFILE["p"] and rng.random() < PROFILE["p"]:
        edge = ["0.00%s+00", "1.00%s-99", "9.99%s+99", "1.00%s+00"] + (["-1.00%s-99", "-9.99%s+99", "-0.00%s+00"] if neg_ok else [])
        return rng.choice(edge) % expchar
    t = _fmt_e(rng.randint(100, 999), 2, _exp(rng, lo_exp, hi_exp), expchar)
    return ("-" + t) if (neg_ok and PROFILE["p"] and rng.random() < PROFILE["p"]) else t


def tok_f105(rng, lo, hi, edge=True):
    """F10.5 without the leading blanks (|value| < 100 so that a blank always separates two fields)"""
    if edge and PROFILE["p"] and rng.random() < PROFILE["p"]:
        return rng.choice(["0.00000", "-0.00000", "99.99999", "-99.99999", "0.00001", "-0.00001", "1.00000"])
    v = rng.randint(int(lo * 100000), int(hi * 100000))
    s = "%d.%05d" % (abs(v) // 100000, abs(v) % 100000)
    return ("-" if v < 0 else "") + s


def increasing(rng, n, gen):
    """n tokens with strictly increasing exact value (grids are increasing in real files)"""
    seen = {}
    guard = 0
    while len(seen) < n:
        t = gen()
        seen.setdefault(exact(t), t)
        guard += 1
        if guard > 100000:
            raise RuntimeError("cannot draw %d distinct tokens" % n)
    return [seen[k] for k in sorted(seen)]


def records(tokens, per_line, width):
    """FORTRAN list output: `per_line` right-justified fields of `width` characters per record"""
    out = []
    for i in range(0, len(tokens), per_line):
        out.append("".join(t.rjust(width) for t in tokens[i:i + per_line]) + "\n")
    return out


# ------------------------------------------------------------------------------------------------
# ADF21 / ADF22  (beam stopping / beam emission / beam population)
# ------------------------------------------------------------------------------------------------
def write_adf2x(t, trailing=""):
    """t: dict zt:int, svref, spec:str(<=2), date:str(8), code:str, tref, eb:[tok], dt:[tok],
    sv: sv[i_dt][i_eb] tokens (one READ per density, as in the files), eref, dref, tt:[tok], svt:[tok]"""
    neb, ndt, ntt = len(t["eb"]), len(t["dt"]), len(t["tt"])
    L = []
    L.append("ZT=%2d  SVREF=%s  SPEC=%-2s  DATE=%-8s  CODE=%s%s\n" % (t["zt"], t["svref"], t["spec"], t["date"], t["code"], trailing))
    L.append(DASH80)
    L.append("%5d%5d /TREF=%s%s\n" % (neb, ndt, t["tref"], trailing))
    L.append(DASH80)
    L += records(t["eb"], 8, 10)
    L += records(t["dt"], 8, 10)
    L.append(DASH80)
    for j in range(ndt):
        L += records(t["sv"][j], 8, 10)
    L.append(DASH80)
    L.append("%5d /EREF=%s /NREF=%s%s\n" % (ntt, t["eref"], t["dref"], trailing))
    L.append(DASH80)
    L += records(t["tt"], 8, 10)
    L.append(DASH80)
    L += records(t["svt"], 8, 10)
    if t.get("comments", True):
        L.append("C" + "-" * 79 + "\n")
        L.append("C  synthetic file written by the C08 check\n")
        L.append("C" + "-" * 79 + "\n")
    return "".join(L)


def gen_adf2x(rng, neb=None, ndt=None, ntt=None, expchar=None):
    expchar = expchar or rng.choice("DDE")
    neb = neb or rng.choice([1, 2, 3, 7, 8, 9, 15, 16, 17, 24, 25])
    ndt = ndt or rng.choice([1, 2, 5, 8, 9, 16, 17, 25])
    ntt = ntt or rng.choice([1, 3, 8, 9, 12, 16, 17])
    g = lambda lo, hi: (lambda: tok_d93(rng, lo, hi, expchar))
    t = {"zt": rng.choice([1, 2, 4, 6, 10, 18]), "spec": rng.choice(["H", "HE", "C", "NE", "AR", "BE"]),
         "date": "%02d/%02d/%02d" % (rng.randint(1, 28), rng.randint(1, 12), rng.randint(90, 99)),
         "code": rng.choice(["ADAS310", "ADAS312", "ADAS304"]),
         # header scalars carry an E exponent (1PE9.3) in the files cherab is used with: parse_adas2x_rate applies
         # float() to them without the D->E replacement it applies to the data records (examined on the first run:
         # a D exponent in SVREF/TREF/EREF/NREF is rejected with ValueError, never mis-read)
         "svref": tok_d93(rng, -9, -6, "E"), "tref": tok_d93(rng, 2, 3, "E"),
         "eref": tok_d93(rng, 4, 5, "E"), "dref": tok_d93(rng, 12, 14, "E"),
         "eb": increasing(rng, neb, g(3, 5)), "dt": increasing(rng, ndt, g(11, 15)),
         "tt": increasing(rng, ntt, g(0, 4)), "expchar": expchar}
    t["sv"] = [[tok_d93(rng, -9, -6, expchar) for _ in range(neb)] for _ in range(ndt)]
    t["svt"] = [tok_d93(rng, -9, -6, expchar) for _ in range(ntt)]
    return t


def expected_adf2x(t, normalisation):
    """the documented conventions: densities cm^-3 -> m^-3 (x 1e6); rate coefficients cm^3 -> m^3
    (x 1e-6) for ADF21 and ADF22/bme, none for ADF22/bmp; sen[i_eb][i_dt]"""
    n = Fraction(normalisation)
    neb, ndt = len(t["eb"]), len(t["dt"])
    return {"e": [exact(x) for x in t["eb"]],
            "n": [exact(x) * 10 ** 6 for x in t["dt"]],
            "t": [exact(x) for x in t["tt"]],
            "sen": [[n * exact(t["sv"][j][i]) for j in range(ndt)] for i in range(neb)],
            "st": [n * exact(x) for x in t["svt"]],
            "eref": exact(t["eref"]), "nref": exact(t["dref"]) * 10 ** 6, "tref": exact(t["tref"]),
            "sref": n * exact(t["svref"])}


# ------------------------------------------------------------------------------------------------
# ADF12  (effective beam CX emission coefficients)
# ------------------------------------------------------------------------------------------------
ADF12_SLOTS = (("ener", 24), ("qener", 24), ("tiev", 12), ("qtiev", 12), ("densi", 24), ("qdensi", 24),
               ("zeff", 12), ("qzeff", 12), ("bmag", 12), ("qbmag", 12))


def write_adf12(blocks, annotate=True, count_width=5):
    """blocks: list of dict upper, lower, qefref, parmref:[5 tok], then ener/qener (<=24), tiev/qtiev (<=12),
    densi/qdensi (<=24), zeff/qzeff (<=12), bmag/qbmag (<=12).  Unused slots are written as 0.00D+00,
    six 10-column fields per record, free text after column 60 (ADAS annotates the records there)."""
    L = ["%*d\n" % (count_width, len(blocks))]
    for k, b in enumerate(blocks):
        head = (" %s+%2d + H(%d) " % (b.get("rsym", "C"), b.get("rz", 6), b.get("dmeta", 1))).ljust(36)
        # published layout: transition 'N=' in columns 36-37, upper I2 in 38-39, '-' in 40, lower I2 in 41-42 (0-based)
        head = head[:36].ljust(36) + "N=%2d-%2d" % (b["upper"], b["lower"]) + "  isel=%3d" % (k + 1)
        L.append(head + "\n")
        ann = (lambda s: "  :" + s) if annotate else (lambda s: "")
        L.append(b["qefref"].rjust(9).rjust(10) + " " * 50 + ann("QEFREF") + "\n")
        L.append("".join(x.rjust(9).rjust(10) for x in b["parmref"]) + " " * 10 + ann("PARMREF") + "\n")
        counts = [len(b["ener"]), len(b["tiev"]), len(b["densi"]), len(b["zeff"]), len(b["bmag"])]
        L.append("".join("%10d" % c for c in counts) + " " * 10 + ann("NPARMSC") + "\n")
        zero = "0.00" + b.get("expchar", "D") + "+00"
        for name, n in ADF12_SLOTS:
            toks = list(b[name]) + [zero] * (n - len(b[name]))
            recs = records(toks, 6, 10)
            for r_i, r in enumerate(recs):
                L.append(r[:-1] + (ann(name.upper()) if r_i == 0 else "") + "\n")
    L.append("C" + "-" * 79 + "\n")
    L.append("C  synthetic file written by the C08 check\n")
    return "".join(L)


def gen_adf12(rng, nblocks=None, distinct=True, small=False, equal=None):
    nblocks = nblocks or rng.choice([1, 2, 3, 5])
    expchar = rng.choice("DDE")
    blocks = []
    used = set()
    for _ in range(nblocks):
        while True:
            up = rng.randint(2, 30)
            lo = rng.randint(1, up - 1)
            if not distinct or (up, lo) not in used or len(used) > 400:
                break
        used.add((up, lo))
        g = lambda lo_, hi_: (lambda: tok_e82(rng, lo_, hi_, expchar))
        nb, nt, nd, nz, nm = (rng.choice([1, 2, 5, 6, 7, 12, 13, 23, 24]), rng.choice([1, 3, 6, 7, 11, 12]),
                              rng.choice([1, 4, 6, 7, 18, 24]), rng.choice([1, 2, 6, 7, 12]), rng.choice([1, 5, 6, 7, 12]))
        if small:
            nb, nt, nd, nz, nm = rng.choice([1, 2, 11]), rng.choice([1, 2]), rng.choice([1, 10]), 1, rng.choice([1, 2])
        if equal:
            nb = nt = nd = nz = nm = equal          # all five grids of the same length
        b = {"upper": up, "lower": lo, "expchar": expchar, "qefref": tok_e82(rng, -10, -7, expchar),
             "parmref": [tok_e82(rng, 4, 5, expchar), tok_e82(rng, 2, 3, expchar), tok_e82(rng, 12, 14, expchar),
                         tok_e82(rng, 0, 0, expchar), tok_e82(rng, 0, 0, expchar)],
             "ener": increasing(rng, nb, g(3, 5)), "tiev": increasing(rng, nt, g(0, 4)),
             "densi": increasing(rng, nd, g(11, 15)), "zeff": increasing(rng, nz, g(0, 0)),
             "bmag": increasing(rng, nm, g(0, 0))}
        for q, src in (("qener", "ener"), ("qtiev", "tiev"), ("qdensi", "densi"), ("qzeff", "zeff"), ("qbmag", "bmag")):
            b[q] = [tok_e82(rng, -10, -7, expchar, neg_ok=True) for _ in b[src]]
        blocks.append(b)
    return blocks


def expected_adf12(blocks):
    """per transition (last block of a transition wins, as in any keyed table): grids as printed, density
    x 1e6, every q* x 1e-6"""
    out = {}
    cm3 = Fraction(1, 10 ** 6)
    for b in blocks:
        ex = lambda name: [exact(x) for x in b[name]]
        out[(b["upper"], b["lower"])] = {
            "eb": ex("ener"), "ti": ex("tiev"), "ni": [v * 10 ** 6 for v in ex("densi")], "z": ex("zeff"), "b": ex("bmag"),
            "qeb": [v * cm3 for v in ex("qener")], "qti": [v * cm3 for v in ex("qtiev")],
            "qni": [v * cm3 for v in ex("qdensi")], "qz": [v * cm3 for v in ex("qzeff")], "qb": [v * cm3 for v in ex("qbmag")],
            "ebref": exact(b["parmref"][0]), "tiref": exact(b["parmref"][1]), "niref": exact(b["parmref"][2]) * 10 ** 6,
            "zref": exact(b["parmref"][3]), "bref": exact(b["parmref"][4]), "qref": exact(b["qefref"]) * cm3}
    return out


# ------------------------------------------------------------------------------------------------
# ADF11  (iso-nuclear master files)
# ------------------------------------------------------------------------------------------------
def write_adf11(t):
    """t: z, name (upper case), z_min, z_max, project, dens:[tok], temps:[tok],
    blocks: list of dict z1, iprt, igrd, rows: rows[i_te][i_ne] tokens;
    resolved: None or list of metastable counts; terminator: 'C' | 'dash+C'"""
    nd, nt = len(t["dens"]), len(t["temps"])
    L = ["%5d%5d%5d%5d%5d     /%-19s/%s\n" % (t["z"], nd, nt, t["z_min"], t["z_max"], t["name"], t["project"])]
    L.append(DASH80)
    if t.get("resolved"):
        L.append("".join("%5d" % c for c in t["resolved"]) + "\n")
        L.append(DASH80)
    L += records(t["dens"], 8, 10)
    L += records(t["temps"], 8, 10)
    for b in t["blocks"]:
        if t.get("resolved"):
            L.append("---------------------/ IPRT=%2d  / IGRD=%2d  /--------/ Z1=%2d   / DATE= %s\n"
                     % (b["iprt"], b["igrd"], b["z1"], t["date"]))
        else:
            L.append("--------------------/ IGRD=%2d  / IPRT=%2d  /--------/ Z1=%2d   / DATE= %s\n"
                     % (b["igrd"], b["iprt"], b["z1"], t["date"]))
        for row in b["rows"]:                     # one READ per temperature: (8F10.5) over the densities
            L += records(row, 8, 10)
    if t.get("terminator", "C") == "C":
        L.append("C" + "-" * 79 + "\n")
    else:
        L.append(DASH80)
        L.append("C\n")
    L.append("C  synthetic iso-nuclear master file written by the C08 check\n")
    L.append("C" + "-" * 79 + "\n")
    return "".join(L)


ELEMENTS = [("hydrogen", 1), ("helium", 2), ("lithium", 3), ("beryllium", 4), ("boron", 5), ("carbon", 6),
            ("nitrogen", 7), ("oxygen", 8), ("neon", 10), ("argon", 18), ("iron", 26), ("krypton", 36)]


def gen_adf11(rng, nd=None, nt=None, resolved=None, element=None, full=False, meta=None, safe=False):
    """full: one block for every charge state Z1 = 1..Z of the element; meta: metastable counts of a resolved file
    (len = stages + 1); safe: keep clear of the recorded small-grid mis-read (unresolved, <= 8 densities, negative
    first log10 Te) by starting the temperature grid at 1 eV in that case"""
    name, z = element or rng.choice(ELEMENTS[:9])
    nd = nd or rng.choice([1, 2, 3, 7, 8, 9, 15, 16, 17, 24, 26])
    nt = nt or rng.choice([1, 2, 5, 8, 9, 12, 16, 17, 30])
    if meta is not None:
        resolved = True
    if resolved is None:
        resolved = rng.random() < 0.35
    dens = increasing(rng, nd, lambda: tok_f105(rng, 7.0, 15.5, edge=False))
    t_lo = 0.0 if (safe and not resolved and nd <= 8) else -0.7
    temps = increasing(rng, nt, lambda: tok_f105(rng, t_lo, 4.2, edge=False))
    blocks = []
    nstages = (len(meta) - 1) if meta is not None else (z if full else rng.randint(1, z))
    z1s = list(range(1, nstages + 1))
    if resolved:
        if meta is None:
            meta = [rng.choice([1, 1, 2]) for _ in range(nstages + 1)]
        for z1 in z1s:
            for ip in range(1, meta[z1 - 1] + 1):
                for ig in range(1, meta[z1] + 1):
                    blocks.append({"z1": z1, "iprt": ip, "igrd": ig})
    else:
        for z1 in z1s:
            blocks.append({"z1": z1, "iprt": 1, "igrd": 1})
    for b in blocks:
        b["rows"] = [[tok_f105(rng, -40.0, -5.0) for _ in range(nd)] for _ in range(nt)]
    return {"z": z, "name": name.upper(), "z_min": 1, "z_max": nstages, "project": rng.choice(["GCR PROJECT", "ADAS PROJECT"]),
            "dens": dens, "temps": temps, "blocks": blocks, "resolved": meta,
            "date": "%02d/%02d/%02d" % (rng.randint(1, 28), rng.randint(1, 12), rng.randint(90, 99)),
            "terminator": rng.choice(["C", "C", "dash+C"])}


def expected_adf11(t):
    """per Z1 (for a metastable-resolved file: the last (IPRT, IGRD) block of the stage, which is what a
    table keyed by Z1 alone can hold): ne, te as printed (log10); rates[i_ne][i_te] = rows[i_te][i_ne]"""
    out = {}
    nd, nt = len(t["dens"]), len(t["temps"])
    for b in t["blocks"]:
        out[b["z1"]] = {"ne": [exact(x) for x in t["dens"]], "te": [exact(x) for x in t["temps"]],
                        "rates": [[exact(b["rows"][it][i]) for it in range(nt)] for i in range(nd)]}
    return out


# ------------------------------------------------------------------------------------------------
# ADF15  (photon emissivity coefficients)
# ------------------------------------------------------------------------------------------------
L_LETTERS = "SPDFGHIKLMNOQR"


def write_adf15(t):
    """t: title, blocks: list of dict isel, wl (token, Angstrom), type, dens:[tok], temps:[tok],
    rows: rows[i_ne][i_te] tokens (one READ per density), upper/lower (n for hydrogen formats, config id for full);
    fmt: 'hydrogen' | 'hydrogen-like' | 'full'; configs (full): list of (id, 'nLq nLq', S, L, J-token)
    index: list of index entries (default: one per block); wl_unit_space: bool"""
    L = ["%5d    /%s/\n" % (len(t["blocks"]), t["title"])]
    for b in t["blocks"]:
        wl = b["wl"].rjust(8) + (" A" if t.get("wl_unit_space", True) else "A")
        L.append("%s%5d%5d /FILMEM = %-8s/TYPE = %-6s /INDM = T/ISEL = %4d\n"
                 % (wl, len(b["dens"]), len(b["temps"]), t.get("filmem", "bbgp"), b["type"], b["isel"]))
        L += records(b["dens"], 8, 9)
        L += records(b["temps"], 8, 9)
        for row in b["rows"]:
            L += records(row, 8, 9)
    L.append("C" + "-" * 79 + "\n")
    L.append("C\n")
    L.append("C  PHOTON EMISSIVITY COEFFICIENTS (synthetic, written by the C08 check)\n")
    L.append("C\n")
    if t["fmt"] == "full":
        L.append("C  Configuration             (2S+1)L(w-1/2)   Energy (cm**-1)\n")
        L.append("C  -------------             --------------   ---------------\n")
        for (cid, conf, s, l, j, en) in t["configs"]:
            L.append("C  %3d  %-20s (%s)%d(%s) %14s\n" % (cid, conf.upper() + " ", s, l, j.rjust(4), en))
        L.append("C\n")
    L.append("C  ISEL  WAVELENGTH      TRANSITION       TYPE\n")
    L.append("C  ----  ----------  -------------------  -----\n")
    for e in t["index"]:
        if t["fmt"] == "hydrogen":
            L.append("C  %3d.  %9s    N=%2d - N=%2d          %s\n" % (e["isel"], e["wl"], e["upper"], e["lower"], e["type"]))
        elif t["fmt"] == "hydrogen-like":
            L.append("C  %3d.  %9s    %2d(2)%d(%4s)- %2d(2)%d(%4s)  %s\n"
                     % (e["isel"], e["wl"], e["upper"], e["lu"], e["ju"], e["lower"], e["ll"], e["jl"], e["type"]))
        else:
            cu, cl = t["cfg_by_id"][e["upper"]], t["cfg_by_id"][e["lower"]]
            L.append("C  %3d.  %9s    %2d(%s)%d(%4s)- %2d(%s)%d(%4s)  %s\n"
                     % (e["isel"], e["wl"], e["upper"], cu[2], cu[3], cu[4], e["lower"], cl[2], cl[3], cl[4], e["type"]))
    L.append("C\n")
    L.append("C" + "-" * 79 + "\n")
    return "".join(L)


def gen_adf15(rng, fmt, nblocks=None, nd=None, nt=None, isel_base=0, ncfg=None, permute_index=False, duplicate=False, force_type=None):
    nblocks = nblocks or rng.choice([1, 2, 3, 4, 6])
    types = ["EXCIT", "RECOM", "CHEXC"]
    blocks, index = [], []
    configs, cfg_by_id = [], {}
    if fmt == "full":
        ncfg = ncfg or rng.choice([2, 3, 4, 5, 6, 7, 12])
        seen = set()
        for cid in range(1, ncfg + 1):
            while True:
                shells = ["1s2"] + ["%d%s%d" % (rng.randint(2, 4), rng.choice("spdf"), rng.randint(1, 6)) for _ in range(rng.randint(1, 2))]
                s, l = rng.randint(1, 4), rng.choice([0, 1, 2, 3, 4, 4, 7, 12, 13])
                j = "%d.%d" % (rng.randint(0, 4), rng.choice([0, 5]))
                key = (" ".join(shells), s, l, j)
                if key not in seen:
                    seen.add(key)
                    break
            c = (cid, " ".join(shells), str(s), l, j, "%.1f" % (rng.randint(0, 900000) / 10))
            configs.append(c)
            cfg_by_id[cid] = c
    used = set()
    isels = list(range(isel_base + 1, isel_base + nblocks + 1))
    if rng.random() < 0.3:
        rng.shuffle(isels)                     # index order is the file order, but blocks need not be sorted by isel
    for k in range(nblocks):
        typ = force_type if (force_type and k == 0) else rng.choice(types)
        while True:
            if fmt == "full":
                up, lo = rng.choice(list(cfg_by_id)), rng.choice(list(cfg_by_id))
            else:
                up = rng.randint(2, 20)
                lo = rng.randint(1, up - 1)
            if (typ, up, lo) not in used:
                used.add((typ, up, lo))
                break
        n_d = nd or rng.choice([1, 2, 7, 8, 9, 16, 17, 24])
        n_t = nt or rng.choice([1, 3, 8, 9, 12, 16, 17, 30])
        # wavelength token in Angstrom: 3-4 integer digits and 1..4 decimals (at most 8 characters, the width of the block
        # header field), as real ADF15 indices quote them (6561.9, 1215.6701, 33.7342): a conversion that keeps only some of
        # the decimals must differ from token/10 by far more than the tolerance of the executable property
        _wi = rng.randint(100, 9999)
        _nd = rng.choice([1, 1, 2, 3, 4]) if _wi < 1000 else rng.choice([1, 1, 2, 3, 3])
        wl = "%d.%s%d" % (_wi, "".join(str(rng.randint(0, 9)) for _ in range(_nd - 1)), rng.randint(1, 9) if _nd > 1 else rng.randint(0, 9))
        b = {"isel": isels[k], "wl": wl, "type": typ, "upper": up, "lower": lo,
             "dens": increasing(rng, n_d, lambda: tok_e82(rng, 8, 15)),
             "temps": increasing(rng, n_t, lambda: tok_e82(rng, -1, 4))}
        b["rows"] = [[tok_e82(rng, -14, -7) for _ in range(n_t)] for _ in range(n_d)]
        blocks.append(b)
        e = {"isel": isels[k], "wl": wl, "type": typ, "upper": up, "lower": lo}
        if fmt == "hydrogen-like":
            e.update({"lu": rng.randint(0, 3), "ll": rng.randint(0, 3), "ju": "%d.5" % rng.randint(0, 3), "jl": "%d.5" % rng.randint(0, 3)})
        index.append(e)
    index.sort(key=lambda e: e["isel"])
    if duplicate and len(blocks) >= 2:
        # the same transition (and type) listed twice with two ISELs: a table keyed by transition holds the one listed last
        j, k = rng.sample(range(len(index)), 2)
        for f in ("type", "upper", "lower"):
            index[k][f] = index[j][f]
        by_isel = {b["isel"]: b for b in blocks}
        by_isel[index[k]["isel"]]["type"] = index[k]["type"]
    if permute_index:
        rng.shuffle(index)                     # the comment index need not be sorted by ISEL
    return {"title": "SYNTHETIC PHOTON EMISSIVITY COEFFICIENTS", "blocks": blocks, "index": index, "fmt": fmt,
            "configs": configs, "cfg_by_id": cfg_by_id, "wl_unit_space": rng.random() < 0.7}


def adf15_key(t, e):
    if t["fmt"] == "full":
        def name(cid):
            c = t["cfg_by_id"][cid]
            return "%s %s%s%s" % (c[1].lower(), c[2], L_LETTERS[c[3]], c[4])
        return (name(e["upper"]), name(e["lower"]))
    return (e["upper"], e["lower"])


CLS = {"EXCIT": "excitation", "RECOM": "recombination", "CHEXC": "thermalcx"}


def expected_adf15(t):
    """block-to-transition assignment through the comment index (ISEL), density x 1e6, coefficient x 1e-6,
    rate[i_ne][i_te], wavelength Angstrom -> nm"""
    by_isel = {b["isel"]: b for b in t["blocks"]}
    rates, wl = {}, {}
    cm3 = Fraction(1, 10 ** 6)
    for e in t["index"]:
        key = adf15_key(t, e)
        wl[key] = exact(e["wl"]) / 10
        b = by_isel.get(e["isel"])
        if b is None:
            return "absent-block"
        rates[(CLS[e["type"]], key)] = {"ne": [exact(x) * 10 ** 6 for x in b["dens"]], "te": [exact(x) for x in b["temps"]],
                                        "rate": [[exact(x) * cm3 for x in row] for row in b["rows"]]}
    return rates, wl
